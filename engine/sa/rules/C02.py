"""C02 — function arithmetic for every operand mix (DESIGN §5 C02)."""
import os, json
from .common import *

OPS = ('Add', 'Sub', 'Mul', 'Neg')
CAP = {'f64': 0, 'v1::Linear': 1, '&v1::DecisionVariable': 1, '&v1::Parameter': 1, 'v1::Quadratic': 2, 'v1::Polynomial': 99, 'v1::Function': 99,
       '&v1::Linear': 1, '&v1::Quadratic': 2, '&v1::Polynomial': 99, '&v1::Function': 99}
FUNC_TYPES = set(CAP)
INF = 99


def norm_ty(t):
    return re.sub(r"&'\w+ ", '&', t)


def op_impls(ctx):
    out = []
    for i in ctx.F.impls:
        m = re.search(r'ops::(Add|Sub|Mul|Neg)$', i['impl'])
        if not m: continue
        op = m.group(1); lhs = norm_ty(i['self'])
        rhs = None if op == 'Neg' else norm_ty((i['targs'] or [i['self']])[0])
        if lhs not in FUNC_TYPES or (rhs is not None and rhs not in FUNC_TYPES): continue
        out.append(dict(op=op, lhs=lhs, rhs=rhs, output=norm_ty(i['assoc'].get('Output', '')), methods=i['methods'], span=i['span']))
    return out


def resolve_output(impls, ty, depth=0):
    """resolve `<A as Add<B>>::Output` projections through the local impl table"""
    ty = norm_ty(ty)
    m = re.fullmatch(r'<(.+?) as std::ops::(Add|Sub|Mul|Neg)(?:<(.+)>)?>::Output', ty)
    if not m or depth > 6: return ty
    l, op, r = m.group(1), m.group(2), m.group(3) or m.group(1)
    if op == 'Neg': r = None
    for i in impls:
        if i['op'] == op and i['lhs'] == l and i['rhs'] == r:
            return resolve_output(impls, i['output'], depth + 1)
    return ty


def table_rules(ctx, impls):
    R = 'C02.table'
    floor = json.load(open(os.path.join(os.path.dirname(__file__), 'tables', 'C02_impl_floor.json')))
    have = {(i['op'], i['lhs'], i['rhs']) for i in impls}
    missing = [tuple(x) for x in floor['impls'] if tuple(x) not in have]
    ctx.check(not missing, R + '/floor', 'T-IMPLTAB', 'impl table', 'operator impls of the pinned API are gone: %s' % missing[:6], floor=len(floor['impls']), present=len(have))
    for i in impls:
        out = resolve_output(impls, i['output'])
        cl = CAP.get(i['lhs']); cr = CAP.get(i['rhs']) if i['rhs'] else None; co = CAP.get(out)
        rid = ('%s/%s_%s_%s' % (R, i['lhs'], i['op'], i['rhs'] or '')).replace(' ', '')
        if co is None:
            ctx.bad(rid, 'T-IMPLTAB', 'impl %s<%s> for %s' % (i['op'], i['rhs'], i['lhs']), 'Output type %s is not a function type' % out, '%s:%d' % (i['span']['file'], i['span']['lo'])); continue
        if i['op'] == 'Mul': need = min(INF, cl + cr)
        elif i['op'] == 'Neg': need = cl
        else: need = max(cl, cr)
        ctx.check(co >= need, rid, 'T-IMPLTAB', 'impl %s<%s> for %s' % (i['op'], i['rhs'], i['lhs']),
                  'Output %s cannot hold every term of the result (degree capacity %s < %s)' % (out, co, need), '%s:%d' % (i['span']['file'], i['span']['lo']), output=out)
    ctx.floor(R, len(floor['impls']))


def is_ops_call(c):
    return bool(re.search(r'ops::(Add|Sub|Mul|Neg)$', c.trait or '')) and c.item in ('add', 'sub', 'mul', 'neg')


def conv_call(c):
    return c.item in ('from', 'into', 'clone', 'to_owned', 'into_owned', 'borrow', 'deref') or 'convert::' in (c.trait or '') or (c.trait or '').endswith('Clone')


def deleg_rules(ctx, impls):
    R = 'C02.deleg'
    decided = 0
    for i in impls:
        if not i['methods']: continue
        b = ctx.F.bodies.get(i['methods'][0])
        if b is None:
            bs = ctx.F.method(i['lhs'], i['op'].lower(), trait=i['op'], targs=[i['rhs']] if i['rhs'] else None)
            b = bs[0] if len(bs) == 1 else None
        if b is None:
            ctx.undecided(R, 'T-DELEG', '', 'body of %s %s %s not found' % (i['lhs'], i['op'], i['rhs'])); continue
        ctx.fn(b)
        has_switch = any(b.blocks[bi]['term']['k'] == 'switch' for bi in b.live)
        opcalls = [c for c in b.calls if is_ops_call(c)]
        others = [c for c in b.calls if not is_ops_call(c) and not conv_call(c)]
        f64ops = [(bi, st) for bi, st in b.stmts() if st['rv']['k'] in ('bin', 'un') and st['rv'].get('ty') == 'f64' or (st['rv']['k'] == 'un' and st['rv']['op'] == 'Neg')]
        rid = ('%s/%s_%s_%s' % (R, i['lhs'], i['op'], i['rhs'] or '')).replace(' ', '')
        if i['op'] == 'Neg' and not opcalls and not has_switch and not any(st['rv']['k'] == 'un' and st['rv']['op'] == 'Neg' for bi, st in f64ops) and not any(c.item in ('neg',) for c in others):
            decided += 1
            ctx.bad(rid, 'T-DELEG', b.name, 'Neg performs no negation at all (only conversions)', b.site()); continue
        if has_switch or others or not opcalls or any(st['rv']['k'] == 'bin' for bi, st in f64ops):
            ctx.undecided(rid, 'T-DELEG', b.site(), 'hand-written kernel (not a pure delegation)'); continue
        decided += 1
        kinds = [re.search(r'ops::(Add|Sub|Mul|Neg)$', c.trait).group(1) for c in opcalls]
        probs = []
        op = i['op']
        last = opcalls[-1]
        # the value returned is the result of the last operator call
        rs = ctx.S.backslice(b, [0])
        if last not in rs.call_objs: probs.append('result of the delegated operation is not returned')
        if op in ('Add', 'Mul'):
            if any(k != op for k in kinds): probs.append('%s delegates to %s' % (op, kinds))
            if len(opcalls) != 1: probs.append('more than one operator call')
            need = {1, 2}
            if not need <= ctx.S.slice_operand(b, last.args[0]).params | ctx.S.slice_operand(b, last.args[1]).params: probs.append('an operand is ignored')
            a0 = ctx.S.slice_operand(b, last.args[0]).params; a1 = ctx.S.slice_operand(b, last.args[1]).params
            if a0 == a1 and len(a0) == 1: probs.append('both operands of the delegated call derive from the same parameter')
        elif op == 'Sub':
            adds = [c for c in opcalls if c.trait.endswith('ops::Add')]; negs = [c for c in opcalls if c.trait.endswith('ops::Neg')]
            negf = [(bi, st) for bi, st in b.stmts() if st['rv']['k'] == 'un' and st['rv']['op'] == 'Neg']
            if len(adds) != 1 or (len(negs) + len(negf)) != 1 or len(opcalls) != len(adds) + len(negs): probs.append('Sub must be lhs + (-rhs); found calls %s' % kinds)
            else:
                # the negation is applied to something derived from rhs only, and that negated value is the second operand of the Add
                if negs:
                    ns = ctx.S.slice_operand(b, negs[0].args[0]).params
                    neg_dst = negs[0].dst['l']
                else:
                    ns = ctx.S.slice_operand(b, negf[0][1]['rv']['ops'][0]).params
                    neg_dst = negf[0][1]['dst']['l']
                if ns != {2}: probs.append('the negation is applied to %s, not to the right operand' % sorted(ns))
                a0 = ctx.S.slice_operand(b, adds[0].args[0]); a1 = ctx.S.slice_operand(b, adds[0].args[1])
                if not (1 in a0.params and 2 not in a0.params and neg_dst in a1.locals): probs.append('Add is not applied to (lhs, -rhs)')
        elif op == 'Neg':
            muls = [c for c in opcalls if c.trait.endswith('ops::Mul')]; negs = [c for c in opcalls if c.trait.endswith('ops::Neg')]
            if len(muls) == 1 and not negs:
                cs = [T.f64_const(a['v']) for a in muls[0].args if a['k'] == 'const']
                if cs != [-1.0]: probs.append('Neg multiplies by %s, not by -1' % cs)
                if 1 not in (ctx.S.slice_operand(b, muls[0].args[0]).params | ctx.S.slice_operand(b, muls[0].args[1]).params): probs.append('self is ignored')
            elif len(negs) == 1 and not muls:
                if 1 not in ctx.S.slice_operand(b, negs[0].args[0]).params: probs.append('self is ignored')
            else:
                probs.append('Neg is neither `self * -1` nor `-(converted self)`; calls %s' % kinds)
        ctx.check(not probs, rid, 'T-DELEG', b.name, '; '.join(probs), b.site(), calls=kinds)
    ctx.floor(R, 100)
    # conversions used by the delegations keep the id
    for ty in ('&v1::Parameter', '&v1::DecisionVariable'):
        fb = ctx.F.one('v1::Linear', 'from', trait='From', targs=[ty])
        if fb is None:
            ctx.lost('C02.from/' + ty, 'From<%s> for Linear' % ty); continue
        ctx.fn(fb)
        s = ctx.S.backslice(fb, [0])
        adt = ty.lstrip('&')
        ctx.check(s.has_field(adt, 'id') and (s.has_const(r'^1f64$') or s.has_call(r'From<u64> for v1::Linear')), 'C02.from/' + ty, 'T-CARRY', fb.name, 'Linear::from(%s) is not the single term 1.0 * x_id' % ty, fb.site())
    fb = ctx.F.one('v1::Linear', 'from', trait='From', targs=['u64'])
    if fb is not None:
        ex = [c for c in fb.calls if c.item == 'single_term']
        ok = len(ex) == 1 and T.strip_wrappers(T.expr(fb, ex[0].args[0])) == ('place', 1, []) and ex[0].args[1].get('v') == '1f64'
        ctx.check(ok, 'C02.from/u64', 'T-CONST', fb.name, 'Linear::from(id) is not single_term(id, 1.0)', fb.site())


def dispatch_rules(ctx):
    R = 'C02.dispatch'
    en = ctx.F.adt('v1::function::Function')
    variants = [v['name'] for v in en['variants']] if en else []
    for op in ('Add', 'Mul'):
        b = ctx.F.one('v1::Function', op.lower(), trait=op, targs=['v1::Function'])
        if b is None:
            bs = [x for x in ctx.F.method('v1::Function', op.lower(), trait=op) if not x.hdr.get('targs') or x.hdr['targs'] == ['v1::Function']]
            b = bs[0] if len(bs) == 1 else None
        if b is None:
            ctx.lost(R + '/' + op, '%s for Function' % op); continue
        ctx.fn(b)
        calls = [c for c in b.calls if is_ops_call(c)]
        wrong = [c for c in calls if not c.trait.endswith('ops::' + op)]
        ctx.check(not wrong, R + '/%s/same-operation' % op, 'T-CARRY', b.name, 'an arm of %s uses another operator: %s' % (op, [c.name[:50] for c in wrong]), b.site())
        covered = set()
        def sources(operand, depth=0):
            """{(side, variant)} the operand may come from: side 0 = self payload, 1 = rhs payload"""
            out = set()
            if operand['k'] not in ('copy', 'move') or depth > 4: return out
            pl = operand['pl']
            fs = fields_of_place(pl)
            side = [f for a, f in fs if a == 'tuple']; var = [a.split('::')[-1] for a, f in fs if 'function::Function::' in a]
            if side and var: return {(int(side[0]), var[0])}
            for k, bi, d in b.defs_of(pl['l']):
                if k == 'stmt' and d['rv']['k'] == 'use' and not d['dst']['p']: out |= sources(d['rv']['ops'][0], depth + 1)
            return out
        for c in calls:
            if not c.trait.endswith('ops::' + op): continue
            s0 = sources(c.args[0]); s1 = sources(c.args[1])
            pairs = {tuple(sorted([x, y])) for x in s0 for y in s1 if x[0] != y[0]}
            ctx.check(bool(pairs), R + '/%s/uses-both-payloads@%s' % (op, b.site(c.bb)), 'T-CARRY', b.name, 'operator call does not combine the lhs payload with the rhs payload (%s, %s)' % (sorted(s0), sorted(s1)), b.site(c.bb))
            for p in pairs:
                covered.add((p[0][1], p[1][1]))       # (variant of side 0, variant of side 1)
            # result wrapped and returned
            rs = ctx.S.backslice(b, [0])
            ctx.check(c in rs.call_objs, R + '/%s/result-returned@%s' % (op, b.site(c.bb)), 'T-CARRY', b.name, 'result of the arm is not returned', b.site(c.bb))
        # f64 payloads are combined by the built-in operator
        for bi, st in b.stmts():
            if st['rv']['k'] == 'bin' and st['rv'].get('ty') == 'f64':
                s0 = sources(st['rv']['ops'][0]); s1 = sources(st['rv']['ops'][1])
                pairs = {tuple(sorted([x, y])) for x in s0 for y in s1 if x[0] != y[0]}
                if pairs:
                    ctx.check(st['rv']['op'] == op, R + '/%s/same-operation-f64' % op, 'T-CARRY', b.name, 'the constant arm of %s computes %s' % (op, st['rv']['op']), b.site(bi))
                    for p in pairs: covered.add((p[0][1], p[1][1]))
        want = {(x, y) for x in variants for y in variants}
        ctx.check(covered == want, R + '/%s/all-variant-pairs' % op, 'T-BRANCHFX', b.name, 'variant pairs without an arm: %s' % sorted(want - covered)[:6], b.site(), pairs=len(covered))
    ctx.floor(R, 24)


def branches_rules(ctx):
    R = 'C02.branches'
    specs = [('v1::Quadratic', 'Add', 'v1::Linear'), ('v1::Quadratic', 'Add', 'f64'), ('v1::Quadratic', 'Mul', 'f64'), ('v1::Quadratic', 'Add', 'v1::Quadratic')]
    for lhs, op, rhs in specs:
        b = ctx.F.one(lhs, op.lower(), trait=op, targs=[rhs])
        if b is None:
            ctx.lost(R + '/%s_%s_%s' % (lhs, op, rhs), 'impl'); continue
        ctx.fn(b)
        rid = R + '/%s_%s_%s' % (lhs.split('::')[-1], op, rhs.split('::')[-1])
        ws = [(bi, st) for bi, st in b.stmts() if st['dst']['p'] and fields_of_place(st['dst'])[-1:] == [('v1::Quadratic', 'linear')]]
        if (lhs, op, rhs) == ('v1::Quadratic', 'Mul', 'f64'):
            # Some(l) => Some(l * rhs); None stays None; values scaled by rhs
            okv = any(T.ASSIGN_CALL.match(c.name) and 'Mul' in c.name and 2 in ctx.S.slice_operand(b, c.args[1]).params for c in b.calls) or \
                  any(st['rv']['k'] == 'bin' and st['rv']['op'] == 'Mul' and st['rv'].get('ty') == 'f64' for bi, st in b.stmts())
            okl = any(any(c.item == 'mul' and 2 in ctx.S.slice_operand(b, c.args[1]).params for c in ctx.S.slice_operand(b, st['rv']['ops'][0]).call_objs) for bi, st in ws)
            ctx.check(okv and okl, rid, 'T-BRANCHFX', b.name, 'scalar multiplication does not scale both the quadratic values and the linear part', b.site())
            continue
        tests = option_field_tests(b, 'v1::Quadratic', 'linear')
        if (lhs, op, rhs) == ('v1::Quadratic', 'Add', 'v1::Quadratic'):
            # result.linear depends on both operands' linear parts in every case
            ok = False
            for bi, st in ws:
                s = ctx.S.slice_operand(b, st['rv']['ops'][0])
                ok = {1, 2} <= s.params
            ctx.check(ok and len(ws) >= 1, rid, 'T-BRANCHFX', b.name, 'the linear part of the sum does not combine both operands\' linear parts', b.site())
            continue
        # Some / None regions: in both the resulting linear part depends on rhs
        ok = len(tests) == 1 and len(ws) == 2
        if ok:
            sb, sm, nn = tests[0]
            sr = b.reach([sm]) - b.reach([nn]); nr = b.reach([nn]) - b.reach([sm])
            for bi, st in ws:
                s = ctx.S.slice_operand(b, st['rv']['ops'][0])
                if bi in sr: ok = ok and 2 in s.params and 1 in s.params and any(c.item == 'add' for c in s.call_objs)
                elif bi in nr: ok = ok and 2 in s.params
                else: ok = False
        ctx.check(ok, rid, 'T-BRANCHFX', b.name, 'with and without an existing linear part the right operand must end up in the result\'s linear part', b.site())
    ctx.floor(R, 4)


def iter_rules(ctx):
    R = 'C02.iter'
    for ty, need in (('&v1::Linear', [('v1::linear::Term', 'id'), ('v1::linear::Term', 'coefficient'), ('v1::Linear', 'constant'), ('v1::Linear', 'terms')]),
                     ('&v1::Quadratic', [('v1::Quadratic', 'rows'), ('v1::Quadratic', 'columns'), ('v1::Quadratic', 'values'), ('v1::Quadratic', 'linear')]),
                     ('&v1::Polynomial', [('v1::Polynomial', 'terms'), ('v1::Monomial', 'ids'), ('v1::Monomial', 'coefficient')])):
        b = ctx.F.one(ty, 'into_iter', trait='IntoIterator')
        if b is None:
            ctx.lost(R + '/' + ty, 'IntoIterator for ' + ty); continue
        ctx.fn(b)
        bodies = cone_of(ctx, b)
        acc = field_access(bodies)
        for a, f in need:
            ctx.check((a, f) in acc or any(x[1] == f and x[0].endswith(a) for x in acc), R + '/%s/%s' % (ty.lstrip('&').split('::')[-1], f), 'T-COVER', b.name, 'term iterator never reads %s.%s' % (a, f), b.site())
        rs = ctx.S.backslice(b, [0])
        restr = sorted({x.item for x in rs.call_objs if x.item in ('take', 'skip', 'step_by', 'take_while', 'skip_while', 'nth')})
        ctx.check(not restr, R + '/%s/all-terms' % ty.lstrip('&').split('::')[-1], 'T-LOOPMUST', b.name, 'iterator drops terms: %s' % restr, b.site())
    b = ctx.F.one('&v1::Function', 'into_iter', trait='IntoIterator')
    if b is None: ctx.lost(R + '/Function', 'IntoIterator for &Function')
    else:
        ctx.fn(b)
        got = sorted({re.search(r'for &v1::(\w+)>::into_iter', c.name).group(1) for c in b.calls if re.search(r'IntoIterator for &v1::(\w+)>::into_iter', c.name)})
        ctx.check(got == ['Linear', 'Polynomial', 'Quadratic'], R + '/Function/arms', 'T-BRANCHFX', b.name, 'payload iterators used: %s' % got, b.site())
        once = [c for c in b.calls if c.item == 'once']; empty = [c for c in b.calls if c.item == 'empty' and 'iter' in c.name]
        okc = False
        for c in once:
            ex = T.expr(b, c.args[0])
            okc = any('Constant' in a for a, f in T.expr_fields(ex)) and any(x[0] == 'call' and x[1] == 'empty' for x in T.expr_walk(ex))
        ctx.check(okc and len(empty) == 1, R + '/Function/constant-and-unset', 'T-BRANCHFX', b.name, 'Constant must yield ((), c) once and an unset oneof nothing', b.site())
    # Linear's iterator drops only zero coefficients; ids of linear terms become singleton id lists in Function / Quadratic iterators
    ctx.floor(R, 12)


def keys_rules(ctx):
    R = 'C02.keys'
    # Linear * Linear: key = (min, max) of the two ids; value += a.c * b.c
    b = ctx.F.one('v1::Linear', 'mul', trait='Mul', targs=['v1::Linear'])
    if b is None: ctx.lost(R + '/Linear*Linear', 'Mul for Linear')
    else:
        ctx.fn(b)
        ent = [c for c in b.calls if c.item == 'entry' and 'BTreeMap' in c.name]
        ok = False
        for c in ent:
            ks = ctx.S.slice_operand(b, c.args[1])
            ok = {1, 2} <= ks.params and ks.has_field('v1::linear::Term', 'id')
        tup = [(bi, st) for bi, st in b.stmts() if st['rv']['k'] == 'agg' and st['rv']['adt'] == 'tuple' and len(st['rv']['ops']) == 2 and b.locals[st['dst']['l']] == '(u64, u64)']
        swapped = len({(T.expr_str(T.expr(b, st['rv']['ops'][0]), 6), T.expr_str(T.expr(b, st['rv']['ops'][1]), 6)) for bi, st in tup}) >= 2
        lt = any(st['rv']['k'] == 'bin' and st['rv']['op'] in ('Lt', 'Le', 'Gt', 'Ge') and st['rv'].get('ty') == 'u64' for bi, st in b.stmts())
        ctx.check(ok and swapped and lt, R + '/Linear*Linear/canonical-pair', 'T-CARRY', b.name, 'product keys are not the ordered pair of the two ids', b.site())
        # cross terms: c*rhs + r*self - r*c
        ws = [(bi, st) for bi, st in b.stmts() if st['dst']['p'] and fields_of_place(st['dst'])[-1:] == [('v1::Quadratic', 'linear')]]
        okl = False
        for bi, st in ws:
            s = ctx.S.slice_operand(b, st['rv']['ops'][0])
            kinds = sorted({re.search(r'ops::(\w+)$', c.trait).group(1) for c in s.call_objs if is_ops_call(c)})
            okl = {1, 2} <= s.params and 'Add' in kinds and 'Sub' in kinds and 'Mul' in kinds and s.has_field('v1::Linear', 'constant')
        ctx.check(okl, R + '/Linear*Linear/cross-terms', 'T-CARRY', b.name, 'linear part of the product is not self*r + c*rhs - r*c', b.site())
        # every pair of terms
        loops = T.for_loops(b)
        ok2 = len(loops) == 2 and ent and all(T.must_pass(b, lo[2], {lo[1]}, {ent[0].bb}) for lo in loops if ent[0].bb in lo[4] and len(lo[4]) == min(len(l[4]) for l in loops))
        ctx.check(bool(ok2), R + '/Linear*Linear/every-pair', 'T-LOOPMUST', b.name, 'not every pair of terms contributes', b.site())
    # FromIterator<((u64,u64),f64)> for Quadratic
    b = ctx.F.one('v1::Quadratic', 'from_iter', trait='FromIterator', targs=['((u64, u64), f64)'])
    if b is None: ctx.lost(R + '/Quadratic::from_iter', 'FromIterator for Quadratic')
    else:
        ctx.fn(b)
        lt = any(st['rv']['k'] == 'bin' and st['rv']['op'] in ('Lt', 'Le', 'Gt', 'Ge') and st['rv'].get('ty') == 'u64' for bi, st in b.stmts())
        adds = any(st['rv']['k'] == 'bin' and st['rv']['op'] == 'Add' and st['rv'].get('ty') == 'f64' and st['dst']['p'] for bi, st in b.stmts())
        ctx.check(lt and adds, R + '/Quadratic::from_iter/canonical-and-merged', 'T-CARRY', b.name, 'entries are not keyed by the ordered pair and merged by addition', b.site())
        aggs = find_aggregates(b, 'v1::Quadratic')
        okp = False
        for bi, st in aggs:
            d = dict(zip(st['rv']['fields'], st['rv']['ops']))
            roots = {f: T.access_path(b, d[f], transparent=T.TRANSPARENT_NOCLONE)[1] for f in ('rows', 'columns', 'values')}
            pushed = {}
            for c in b.calls:
                if c.item == 'push':
                    r = T.access_path(b, c.args[0], transparent=T.TRANSPARENT_NOCLONE)[1]
                    pushed[r] = [f for a, f in T.expr_fields(T.expr(b, c.args[1], depth=10)) if a == 'tuple']
            okp = pushed.get(roots['rows'], [None])[:2] != pushed.get(roots['columns'], [None])[:2] and len(pushed) == 3
        ctx.check(okp, R + '/Quadratic::from_iter/rows-columns', 'T-CARRY', b.name, 'rows and columns are not filled from the two components of the key', b.site())
    # Quadratic*Quadratic and Polynomial*Polynomial: ids = id_r + id_l, value_l*value_r, every pair
    for ty in ('v1::Quadratic', 'v1::Polynomial'):
        b = ctx.F.one(ty, 'mul', trait='Mul', targs=[ty])
        if b is None: ctx.lost(R + '/%s*%s' % (ty, ty), 'Mul'); continue
        ctx.fn(b)
        ent = [c for c in b.calls if c.item == 'entry' and 'BTreeMap' in c.name]
        ok = False
        for c in ent:
            ks = ctx.S.slice_operand(b, c.args[1])
            ok = {1, 2} <= ks.params and any(x.item == 'add' and 'SortedIds' in x.name for x in ks.call_objs)
        vals = [(bi, st) for bi, st in b.stmts() if st['rv']['k'] == 'bin' and st['rv']['op'] == 'Mul' and st['rv'].get('ty') == 'f64']
        okv = False
        for bi, st in vals:
            s0 = ctx.S.slice_operand(b, st['rv']['ops'][0]).params; s1 = ctx.S.slice_operand(b, st['rv']['ops'][1]).params
            okv = (1 in s0 and 2 in s1) or (2 in s0 and 1 in s1)
        ctx.check(ok and okv and len(vals) == 1, R + '/%s*%s/keys-and-values' % (ty.split('::')[-1], ty.split('::')[-1]), 'T-CARRY', b.name, 'product terms are not (ids_l + ids_r, c_l * c_r)', b.site())
    # SortedIds::add keeps both operands' ids sorted
    b = ctx.F.one('sorted_ids::SortedIds', 'add', trait='Add')
    if b is not None:
        ctx.fn(b)
        rs = ctx.S.backslice(b, [0])
        ctx.check({1, 2} <= rs.params and (rs.has_call(r'sort') or rs.has_call(r'SortedIds::new') or rs.has_call('merge')), R + '/SortedIds::add', 'T-CARRY', b.name, 'concatenated ids are not re-sorted / do not contain both operands', b.site())
    ctx.floor(R, 6)


def kernel_add_rules(ctx):
    """hand-written same-type additions: every term of both operands reaches the map; merged by +=; constant added"""
    R = 'C02.kernel'
    for ty, term_adt, keyf, valf in (('v1::Linear', 'v1::linear::Term', 'id', 'coefficient'), ('v1::Polynomial', 'v1::Monomial', 'ids', 'coefficient')):
        b = ctx.F.one(ty, 'add', trait='Add', targs=[ty])
        if b is None: ctx.lost(R + '/%s+%s' % (ty, ty), 'Add'); continue
        ctx.fn(b)
        loops = T.for_loops(b)
        ok = False
        for lo in loops:
            si = ctx.S.slice_operand(b, lo[0].args[0])
            both = {1, 2} <= si.params and any(c.item == 'chain' for c in si.call_objs)
            ent = [c for c in b.calls if c.bb in lo[4] and c.item == 'entry']
            adds = [(bi, st) for bi, st in b.stmts() if bi in lo[4] and st['rv']['k'] == 'bin' and st['rv']['op'] == 'Add' and st['rv'].get('ty') == 'f64' and st['dst']['p']]
            if both and len(ent) == 1 and len(adds) == 1:
                kx = ctx.S.slice_operand(b, ent[0].args[1]); vx = T.expr(b, [o for o in adds[0][1]['rv']['ops'] if not (o['k'] in ('copy', 'move') and o['pl'] == adds[0][1]['dst'])][0])
                ok = kx.has_field(term_adt, keyf) and (term_adt, valf) in T.expr_fields(vx) and T.must_pass(b, lo[2], {lo[1]}, {adds[0][0]})
        ctx.check(ok, R + '/%s+%s/merge' % (ty.split('::')[-1], ty.split('::')[-1]), 'T-BRANCHFX', b.name, 'terms of both operands are not merged by `map[key] += coefficient` for every term', b.site())
        if ty == 'v1::Linear':
            aggs = find_aggregates(b, 'v1::Linear')
            okc = False
            for bi, st in aggs:
                ex = T.arith(T.expr(b, agg_field_operand(st, 'constant')))
                okc = ex[0] == 'bin' and ex[1] == 'Add' and {T.expr_str(ex[2]), T.expr_str(ex[3])} == {'_1.constant', '_2.constant'}
            ctx.check(okc, R + '/Linear+Linear/constant', 'T-BRANCHFX', b.name, 'constant of the sum is not self.constant + rhs.constant', b.site())
    for ty in ('v1::Linear', 'v1::Polynomial', 'v1::Quadratic'):
        b = ctx.F.one(ty, 'mul', trait='Mul', targs=['f64'])
        if b is None: continue
        ctx.fn(b)
        # scaling: every coefficient (and the constant) multiplied by rhs; rhs == 0 => zero()
        muls = [c for c in b.calls if T.ASSIGN_CALL.match(c.name) and 'Mul' in c.name]
        ok = bool(muls) and all(T.strip_wrappers(T.expr(b, c.args[1])) == ('place', 2, []) for c in muls)
        inpl = [(bi, st) for bi, st in b.stmts() if st['rv']['k'] == 'bin' and st['rv']['op'] == 'Mul' and st['rv'].get('ty') == 'f64' and st['dst']['p']
                and any(o['k'] in ('copy', 'move') and o['pl'] == st['dst'] for o in st['rv']['ops'])]
        if not muls and inpl:
            ok = all(any(T.strip_wrappers(T.expr(b, o)) == ('place', 2, []) for o in st['rv']['ops']) for bi, st in inpl)
            # in a loop over every term / value (and the constant for Linear)
            inloop = [bi for bi, st in inpl if any(bi in bl for bl in b.loops().values())]
            ok = ok and bool(inloop) and (ty != 'v1::Linear' or any(fields_of_place(st['dst'])[-1:] == [('v1::Linear', 'constant')] for bi, st in inpl))
        ctx.check(ok, R + '/%s*f64/scales' % ty.split('::')[-1], 'T-BRANCHFX', b.name, 'coefficients are not multiplied by the scalar', b.site())
        # the only shortcut is for an exactly zero scalar (a tiny non-zero scalar must still scale the function)
        zs = [c for c in b.calls if c.item == 'zero' and c.bb in b.live]
        okz = True; why = ''
        for z in zs:
            guards = []
            for c in b.calls:
                if c.item == 'is_zero' and T.strip_wrappers(T.expr(b, c.args[0])) == ('place', 2, []):
                    for g in T.guards_from_call(b, c):
                        if z.bb in b.reach([g.true_bb]) and z.bb not in b.reach([g.false_bb]): guards.append('is_zero')
            for bi, st in float_cmp_sites(b, ('Eq', 'Ne', 'Lt', 'Le', 'Gt', 'Ge')):
                for g in T.guards_from_local(b, st['dst']['l'], bi):
                    side = [t for t in (g.true_bb, g.false_bb) if t is not None and z.bb in b.reach([t]) and z.bb not in b.reach([x for x in (g.true_bb, g.false_bb) if x is not None and x != t])]
                    if side:
                        cs = [o['v'] for o in st['rv']['ops'] if o['k'] == 'const']
                        exact = st['rv']['op'] in ('Eq', 'Ne') and cs == ['0f64']
                        guards.append('exact-zero' if exact else 'cmp %s %s' % (st['rv']['op'], cs))
            if not guards or any(g not in ('is_zero', 'exact-zero') for g in guards):
                okz = False; why = str(guards)
        ctx.check(okz, R + '/%s*f64/only-exact-zero-shortcut' % ty.split('::')[-1], 'T-GUARD', b.name, 'the function is replaced by zero under %s, not only for a scalar that is exactly 0' % why, b.site())
    ctx.floor(R, 5)


def check(ctx):
    impls = op_impls(ctx)
    table_rules(ctx, impls); deleg_rules(ctx, impls); dispatch_rules(ctx); branches_rules(ctx); iter_rules(ctx); keys_rules(ctx); kernel_add_rules(ctx)
