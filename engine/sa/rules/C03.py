"""C03 — partial evaluation commutes with evaluation (DESIGN §5 C03).

The rules are formulated on the normal form (sa.normalize, VIEW = 'norm') plus the local normal form
of rules/pe.py (Option / bool combinators as control flow), and in terms of dataflow facts:
which value is folded into which target in which case of the "is this id fixed?" probe, which
collection receives which ids, what reaches the result.  Equivalent idioms are enumerated in tables
in pe.py (probes, entry accumulation, element access, loop bounds)."""
from .common import *
from . import pe

VIEW = 'norm'
# 'reported variable values': a fixed variable is read back through SampleSet::get / Solution state, where
# the recorded substituted value has to win over a sampled one (seed C03-9); decided by C06's rule family
RELIES_ON = {'C06': ['C06.get'],
             # evaluate(rest) after partial_evaluate(fixed) goes through check_bound again: it must refuse nothing that evaluate(all) accepts (seed C03-20)
             'C05': ['C05.bound/check_bound']}

INST = 'v1::Instance'; DV = 'v1::DecisionVariable'

# id sets: `set.insert(id)` | `set.extend([a, b])` (normal form: one insert per element) | `set.extend(vec_of_ids)`
SET_SINK = re.compile(r'BTreeSet::<(u64|T)>::insert$|<std::collections::BTreeSet<u64> as std::iter::Extend<u64>>::extend')


def probes_in(body, blocks=None):
    return pe.probes_in(body, blocks)


def bound_rule(ctx, R, name, b, blocks, header, fields, adt, what):
    """the index loop runs until the end of self.<vec>.  Weaker, always decided: the exit condition derives
    from the vector's length; precise (undecided when the bound is cached in a local): it *is* the length."""
    k, sw = pe.index_loop_bound(ctx, b, blocks, header, fields, adt)
    ctx.check(k is not None, R + '/' + name, 'T-LOOPMUST', b.name, '%s is not bounded by the length of self.%s' % (what, '/'.join(fields)), b.site())
    X = 'C03.exact/%s/%s' % (R.split('.')[-1], name)        # own family without a floor: may be undecided after a refactoring
    if k == 'precise': ctx.ok(X, 'T-LOOPMUST', b.site())
    elif k == 'derived':
        ctx.undecided(X, 'T-LOOPMUST', b.site(), 'the loop bound is a local derived from %s.len() (cached bound); its updates are not decided' % '/'.join(fields))
    else:
        ctx.bad(X, 'T-LOOPMUST', b.name, '%s: no comparison of the index with self.%s.len() and no `.get(index)` decides the loop exit' % (what, '/'.join(fields)), b.site())
    ex = pe.early_exits(b, set(blocks), sw, header) if sw is not None else []
    ctx.check(sw is not None and not ex, R + '/' + name + '/no-early-exit', 'T-LOOPMUST', b.name, '%s can be left early on the way to an Ok-exit (bb%s)' % (what, ', bb'.join(str(u) for u, v in ex)), b.site())


def ret_is_used(ctx, R, b):
    """the returned set is the one the reports go to"""
    ins = [c for c in b.calls if SET_SINK.search(c.name)]
    roots = {pe.root_of(b, c.args[0]) for c in ins}
    okr = False
    for e, k, st in b.ret_assignments():
        if k == 'ok':
            r = pe.root_of(b, st['rv']['ops'][0])
            okr = len(roots) == 1 and r in roots
    ctx.check(okr, R + '/returns-reported-set', 'T-CARRY', b.name, 'the returned id set is not the set the fixed ids are inserted into', b.site())


def linear_rules(ctx):
    R = 'C03.linear'
    b = pe.lnorm(ctx, ctx.method(R + '/anchor', 'v1::Linear', 'partial_evaluate', trait='Evaluate'))
    if b is None: return
    pr = probes_in(b)
    ctx.check(len(pr) == 1, R + '/probe', 'T-BRANCHFX', b.name, 'expected one probe of the state, found %d' % len(pr), b.site())
    if len(pr) != 1: return
    ctx.check(pe.label(b, T.expr(b, pr[0].args[1])) == 'id' and T.access_path(b, pr[0].args[0])[1] == 2, R + '/probe-key', 'T-CARRY', b.name, 'probe is not state.get(term.id)', b.site(pr[0].bb))
    h, bl = pe.loop_with(b, pr[0])
    tab = pe.table(ctx, b, pr, h, 'v1::Linear')
    pe.check_table(ctx, R + '/case', b, tab, {
        'S': {('acc', 'self.constant', 'Add', ('coefficient', 'val[id]')), ('remove', 'terms'), ('report', 'id')},
        'N': {('inc', 'index')}})
    # the removed term is the probed one: one index expression for reading (`terms[i]` / `terms.get(i)`) and removing
    idx = pe.element_indices(b, bl, r'linear::Term')
    ctx.check(len(idx) == 1, R + '/same-index', 'T-CARRY', b.name, 'probe, fold and removal use different indices %s' % sorted(idx), b.site())
    ret_is_used(ctx, R, b)
    bound_rule(ctx, R, 'all-terms', b, bl, h, ('terms',), 'v1::Linear', 'the term loop')
    pe.every_iteration_passes(ctx, R + '/all-terms/every-term-probed', b, bl, h, pe.index_loop_bound(ctx, b, bl, h, ('terms',), 'v1::Linear')[1], {pr[0].bb}, 'the lookup of the term id')
    pe.no_bypass(ctx, R + '/all-terms/no-bypass', b, h, 'the term loop', ('v1::Linear', 'terms'))


def writes_to_self_field(b, adt, field):
    """(bb, stmt) of assignments to self.<field>, also through `let Self { field, .. } = self`"""
    out = []
    for bi, st in b.stmts():
        d = st['dst']
        if not d['p']: continue
        fs, root, calls = T.access_path(b, {'k': 'copy', 'pl': d}, transparent=T.TRANSPARENT_NOCLONE)
        if root == 1 and fs and fs[-1] == (adt, field) and [x for x in fs if 'v1::' in x[0]] == [(adt, field)]: out.append((bi, st))
    return out


def value_defs(b, operand, want_adt_suffix, depth=6):
    """blocks where the value of `operand` is built as an aggregate ending in want_adt_suffix (following plain moves)"""
    out = []
    if operand['k'] not in ('copy', 'move') or operand['pl']['p']: return out
    seen = set(); work = [operand['pl']['l']]
    while work:
        l = work.pop()
        if l in seen: continue
        seen.add(l)
        for k, bi, d in b.defs_of(l):
            if k != 'stmt' or d['dst']['p']: continue
            rv = d['rv']
            if rv['k'] == 'agg' and rv['adt'].endswith(want_adt_suffix): out.append(bi)
            elif rv['k'] == 'use' and rv['ops'][0]['k'] in ('copy', 'move') and not rv['ops'][0]['pl']['p']: work.append(rv['ops'][0]['pl']['l'])
    return out


def quadratic_rules(ctx):
    R = 'C03.quadratic'
    b = pe.lnorm(ctx, ctx.method(R + '/anchor', 'v1::Quadratic', 'partial_evaluate', trait='Evaluate'))
    if b is None: return
    pr = probes_in(b)
    ctx.check(len(pr) == 3, R + '/probes', 'T-BRANCHFX', b.name, 'expected three probes (linear term, row, column), found %d' % len(pr), b.site())
    if len(pr) != 3: return
    labs = [pe.label(b, T.expr(b, p.args[1])) for p in pr]
    ctx.check(sorted(labs) == ['columns', 'id', 'rows'], R + '/probe-keys', 'T-CARRY', b.name, 'probes are keyed by %s, expected linear term id, row, column' % labs, b.site())
    if sorted(labs) != ['columns', 'id', 'rows']: return
    p_id = pr[labs.index('id')]; p_row = pr[labs.index('rows')]; p_col = pr[labs.index('columns')]
    # which local is the folded constant? second argument of Linear::new
    news = [c for c in b.calls if c.item == 'new' and c.path.endswith('Linear>::new')]
    const_l = None; map_l = None
    for c in news:
        ex = T.expr(b, c.args[1]); const_l = ex[1] if ex[0] in ('local', 'place') else None
        map_l = pe.coll_root(b, c.args[0])
    ctx.check(len(news) == 1 and const_l is not None, R + '/result/linear-new', 'T-CARRY', b.name, 'the new linear part is not built by Linear::new(map, constant)', b.site())
    # the folded constant may be handed from one local to another (phase extracted into a helper that returns it)
    cls = pe.acc_class(b, const_l) if const_l is not None else set()
    ren = {'acc:_%d' % l: 'constant' for l in cls}
    maps = set()
    # ---- linear-part loop
    h1, bl1 = pe.loop_with(b, p_id)
    t1 = pe.table(ctx, b, [p_id], h1, 'v1::Quadratic', ren, maps)
    pe.check_table(ctx, R + '/linear-part', b, t1, {
        'S': {('acc', 'constant', 'Add', ('coefficient', 'val[id]')), ('report', 'id')},
        'N': {('acc', 'entry[id]', 'Add', ('coefficient',))}})
    # constant starts from the old linear part's constant (0 when absent):
    #   self.linear.as_ref().map_or(0.0, |l| l.constant)  ==  let mut c = 0.0; if let Some(l) = &self.linear { c = l.constant; .. }
    if const_l is not None:
        init = [(x, bi) for l in cls for x, bi in pe.acc_defs(b, l)[0]
                if not (T.strip_wrappers(x)[0] == 'local' and T.strip_wrappers(x)[1] in cls)]      # hand-overs inside the class are not initialisations
        zero = [bi for x, bi in init if pe._is_zero(x)]
        old = [bi for x, bi in init if ('v1::Linear', 'constant') in T.expr_fields(x) and pe.rooted_in_self_field(ctx, b, x, 'v1::Quadratic', 'linear')]
        other = [bi for x, bi in init if bi not in zero and bi not in old]
        okc = bool(old) and not other and not any(z in b.reach([o]) for z in zero for o in old) \
            and all(pe.only_on_some_side(ctx, b, o, 'v1::Quadratic', 'linear') for o in old)
        ctx.check(okc, R + '/constant-init', 'T-CARRY', b.name, 'folded constant does not start from the old linear part\'s constant (0 if absent)', b.site())
    # ---- main loop
    h2, bl2 = pe.loop_with(b, p_row)
    t2 = pe.table(ctx, b, [p_row, p_col], h2, 'v1::Quadratic', ren, maps)
    rm = {('remove', 'rows'), ('remove', 'columns'), ('remove', 'values')}
    pe.check_table(ctx, R + '/case', b, t2, {
        'SS': {('acc', 'constant', 'Add', ('val[columns]', 'val[rows]', 'values')), ('report', 'rows'), ('report', 'columns')} | rm,
        'SN': {('acc', 'entry[columns]', 'Add', ('val[rows]', 'values')), ('report', 'rows')} | rm,
        'NS': {('acc', 'entry[rows]', 'Add', ('val[columns]', 'values')), ('report', 'columns')} | rm,
        'NN': {('inc', 'index')}})
    idx = pe.element_indices(b, bl2, r'Vec<(u64|f64)>|Vec::<(u64|f64)>|\[(u64|f64)\]')
    ctx.check(len(idx) == 1, R + '/same-index', 'T-CARRY', b.name, 'probe, fold and removal use different indices %s' % sorted(idx), b.site())
    # both maps are one: the coefficients of the linear-part loop and of the main loop go to the map given to Linear::new
    ctx.check(len(maps) == 1 and map_l is not None and map_l in maps, R + '/result/one-map', 'T-CARRY', b.name, 'linear coefficients are collected in different maps', b.site())
    # self.linear is written on every success path, None only when nothing is left
    ws = writes_to_self_field(b, 'v1::Quadratic', 'linear')
    ctx.check(len(ws) >= 1 and pe.before_every_ok(b, {bi for bi, st in ws}), R + '/result/linear-written', 'T-MUSTCALL', b.name, 'self.linear is not rewritten on every success path', b.site())
    for bi, st in ws:
        for nb in value_defs(b, st['rv']['ops'][0], 'Option::None') if st['rv']['k'] == 'use' else []:
            # None only where map.is_empty() && constant == 0
            g1 = [g for c in b.calls if c.item == 'is_empty' and 'BTreeMap' in c.name and pe.root_of(b, c.args[0]) == map_l for g in T.guards_from_call(b, c)]
            g2 = []
            for b2, st2 in float_cmp_sites(b, ('Eq', 'Ne')):
                ops = st2['rv']['ops']
                if any(o['k'] == 'const' and o['v'] in ('0f64', '-0f64') for o in ops) and any(T.expr(b, o)[0] in ('local', 'place') and T.expr(b, o)[1] in cls and not (len(T.expr(b, o)) > 2 and T.expr(b, o)[2]) for o in ops):
                    # constant == 0.0 (true side = zero)  |  constant != 0.0 (false side = zero)
                    g2 += [g if st2['rv']['op'] == 'Eq' else pe.Swapped(g) for g in T.guards_from_local(b, st2['dst']['l'], b2)]
            def only_true(g): return g.true_bb is not None and nb in pe.walk(b, [g.true_bb])[0] and (g.false_bb is None or nb not in pe.walk(b, [g.false_bb])[0])
            ctx.check(any(only_true(g) for g in g1) and any(only_true(g) for g in g2), R + '/result/none-only-when-empty', 'T-GUARD', b.name, 'linear part is dropped although coefficients or a constant remain', b.site(nb))
    ret_is_used(ctx, R, b)
    bound_rule(ctx, R, 'all-entries', b, bl2, h2, ('rows', 'columns', 'values'), 'v1::Quadratic', 'the main loop')
    # an entry that is skipped before its ids are looked up stays in place with its (possibly fixed) ids
    pe.every_iteration_passes(ctx, R + '/all-entries/every-entry-probed', b, bl2, h2, pe.index_loop_bound(ctx, b, bl2, h2, ('rows', 'columns', 'values'), 'v1::Quadratic')[1], {p_row.bb}, 'the lookup of the row id')
    lin_loops = [lo for lo in T.for_loops(b) if p_id.bb in lo[4]]
    if lin_loops:
        m_ = min(len(l[4]) for l in lin_loops)
        cands_ = [l for l in lin_loops if len(l[4]) == m_]
        # nested `next` calls in one natural loop (flat_map normal form): the innermost one is the loop over the terms
        lo1 = next((l for l in cands_ if all(b.dominates(o[0].bb, l[0].bb) for o in cands_)), cands_[0])
        loop_must(ctx, R + '/linear-part/every-term-probed', b, lo1, lambda c: c is p_id, 'state.get(term.id)')
        pe.no_early_exit(ctx, R + '/linear-part/no-early-exit', b, lo1)
    else:
        ctx.bad(R + '/linear-part/every-term-probed', 'T-LOOPMUST', b.name, 'the terms of the linear part are not visited by a loop', b.site())
    pe.no_bypass(ctx, R + '/all-entries/no-bypass', b, h2, 'the main loop')


def polynomial_rules(ctx):
    R = 'C03.polynomial'
    b = pe.lnorm(ctx, ctx.method(R + '/anchor', 'v1::Polynomial', 'partial_evaluate', trait='Evaluate'))
    if b is None: return
    pr = probes_in(b)
    ctx.check(len(pr) == 1, R + '/probe', 'T-BRANCHFX', b.name, 'expected one probe, found %d' % len(pr), b.site())
    if len(pr) != 1: return
    ctx.check(pe.label(b, T.expr(b, pr[0].args[1])) == 'ids', R + '/probe-key', 'T-CARRY', b.name, 'probe is not keyed by an id of the monomial', b.site(pr[0].bb))
    h, bl = pe.loop_with(b, pr[0])
    inner = [lo for lo in T.for_loops(b) if pr[0].bb in lo[4]]
    inner = min(inner, key=lambda l: len(l[4])) if inner else None
    outer = [lo for lo in T.for_loops(b) if inner and set(inner[4]) < set(lo[4])]
    outer = min(outer, key=lambda l: len(l[4])) if outer else None
    ctx.check(inner is not None and outer is not None, R + '/loops', 'T-LOOPMUST', b.name, 'the probe is not inside a loop over the ids of a monomial inside a loop over the monomials', b.site())
    if inner is None or outer is None: return
    loop_must(ctx, R + '/every-id', b, inner, lambda c: c is pr[0], 'state.get(id)')
    pe.no_early_exit(ctx, R + '/every-id/no-early-exit', b, inner)
    pe.no_early_exit(ctx, R + '/collect/every-term/no-early-exit', b, outer)
    pe.no_bypass(ctx, R + '/collect/every-term/no-bypass', b, outer[1], 'the loop over the monomials', ('v1::Polynomial', 'terms'))
    # ---- what happens to an id in each case, including what is done later to the vector it was pushed to
    raw = pe.table(ctx, b, pr, h, 'v1::Polynomial')
    info = pe.PolyInfo(ctx, b, outer)
    tab = {case: info.resolve(eff) for case, eff in raw.items()}
    pe.check_table(ctx, R + '/case', b, tab, {
        'S': {('acc', 'value', 'Mul', ('val[ids]',)), ('report', 'ids')},
        'N': {('keep-id', 'ids')}})
    vl = info.value_local
    ctx.check(vl is not None and info.value_init == 'coefficient', R + '/value-init', 'T-CARRY', b.name, 'monomial value does not start from its coefficient', b.site())
    # ---- the monomial reaches the result map: key = the kept ids, value += monomial value
    ctx.check(info.key_vec is not None, R + '/collect/entry', 'T-LOOPMUST', b.name, 'no accumulation into the result map keyed by a vector of ids', b.site())
    ctx.check(info.key_vec is not None and info.key_vec in info.kept_vecs, R + '/collect/key-is-kept-ids', 'T-CARRY', b.name, 'the map key is not the vector of remaining ids', b.site())
    ctx.check(info.adds_value, R + '/collect/adds-value', 'T-BRANCHFX', b.name, 'monomial value is not added to the entry of its remaining ids', b.site())
    # skipping is allowed only for |coefficient| <= EPSILON; otherwise the entry is reached
    skips = set()
    for bi, st, small in pe.small_tests(b, set(outer[4])):
        oth = [o2 for o2 in st['rv']['ops'] if o2['k'] != 'const']
        ax = T.expr(b, oth[0]) if oth else ('local', -1)
        if oth and T.expr_has_call(ax, 'abs') and (('v1::Monomial', 'coefficient') in T.expr_fields(ax) or any(x[0] in ('local', 'place') and x[1] == vl for x in T.expr_walk(ax))):
            for g in T.guards_from_local(b, st['dst']['l'], bi): skips.add(g.true_bb if small else g.false_bb)
    ctx.check(bool(info.acc_blocks) and not pe.walk(b, [outer[2]], stop={outer[1]}, avoid=info.acc_blocks | skips)[1], R + '/collect/every-term', 'T-LOOPMUST', b.name, 'a monomial can bypass the result map', b.site())
    # ---- self.terms rebuilt from the map: Monomial { ids: key, coefficient: value } for every entry
    ws = writes_to_self_field(b, 'v1::Polynomial', 'terms')
    ok = False
    for bi, st in ws:
        s = ctx.S.slice_operand(b, st['rv']['ops'][0])
        ok = info.map_local is not None and info.map_local in s.locals and pe.before_every_ok(b, {bi})
    ctx.check(ok, R + '/rebuild/terms-from-map', 'T-CARRY', b.name, 'self.terms is not rebuilt from the collected map on every success path', b.site())
    aggs = find_aggregates(b, 'v1::Monomial')
    for cb in ctx.F.closures_of(b.orig):
        aggs2 = find_aggregates(cb, 'v1::Monomial')
        for b2, st2 in aggs2:
            d = dict(zip(st2['rv']['fields'], st2['rv']['ops']))
            ctx.check(T.expr_fields(T.expr(cb, d['ids']))[-1:] == [('tuple', '0')] and T.expr_fields(T.expr(cb, d['coefficient']))[-1:] == [('tuple', '1')], R + '/rebuild/monomial', 'T-CARRY', cb.name,
                      'Monomial is not {ids: key, coefficient: value} of the map entry', cb.site(b2))
    for b2, st2 in aggs:
        d = dict(zip(st2['rv']['fields'], st2['rv']['ops']))
        ctx.check(T.expr_fields(T.expr(b, d['ids']))[-1:] == [('tuple', '0')] and T.expr_fields(T.expr(b, d['coefficient']))[-1:] == [('tuple', '1')], R + '/rebuild/monomial', 'T-CARRY', b.name,
                  'Monomial is not {ids: key, coefficient: value} of the map entry', b.site(b2))
    ret_is_used(ctx, R, b)


def generic_self(c):
    """call of a trait method on a type parameter (`<T as Evaluate>::..` inside an inlined generic helper)"""
    return re.fullmatch(r'[A-Z]\w*', c.self_ty or '') is not None


def delegate_rules(ctx):
    R = 'C03.delegate'
    # Function: arm per variant
    b = pe.lnorm(ctx, ctx.method(R + '/Function/anchor', 'v1::Function', 'partial_evaluate', trait='Evaluate'))
    if b is not None:
        want = {'Linear': 'v1::Linear', 'Quadratic': 'v1::Quadratic', 'Polynomial': 'v1::Polynomial'}
        pes = [c for c in b.calls if c.item == 'partial_evaluate' and 'Evaluate' in (c.trait or '')]
        got = {}
        for c in pes:
            tys = [k for k, v in want.items() if re.search(r'<%s as evaluate::Evaluate>::partial_evaluate' % re.escape(v), c.name)]
            arm = [a.split('::')[-1] for a, f in T.access_path(b, c.args[0])[0] if 'function::Function::' in a]
            if tys and arm and tys[0] == arm[0] and T.access_path(b, c.args[1])[1] == 2: got[tys[0]] = c
        ctx.check(set(got) == set(want), R + '/Function/arms', 'T-BRANCHFX', b.name, 'arms delegating to their payload: %s, expected %s' % (sorted(got), sorted(want)), b.site())
        pe.errflow_calls(ctx, R + '/Function/errors', b, pes, 'payload partial_evaluate')
        # no success exit bypasses the payload's kernel: assuming self.function holds variant V, every path to an Ok-exit
        # passes V's partial_evaluate (a "constant fast path" in front of / inside the match would skip it)
        # the delegating level has no error of its own: every Err-exit lies behind a payload's partial_evaluate (an unset
        # oneof / a constant is the zero / constant function: success with the empty set, as for evaluate)
        own = pe.walk(b, [0], avoid={c.bb for c in pes})[0] & b.err_exits()
        ctx.check(bool(pes) and not own, R + '/Function/no-own-error', 'T-ERRFLOW', b.name, 'Function::partial_evaluate can fail without any payload kernel failing (e.g. on an unset or constant function)', b.site(min(own)) if own else b.site())
        fad = ctx.F.adt('v1::function::Function')
        names = [v['name'] for v in fad['variants']] if fad else []
        for V, c in sorted(got.items()):
            if V not in names:
                ctx.lost(R + '/Function/no-bypass/' + V, 'variant %s of v1::function::Function' % V); continue
            def assume(pl, V=V):
                fs, root, calls = T.access_path(b, {'k': 'copy', 'pl': pl}, transparent=pe.OPTION_VIEW)
                named = [x for x in fs if 'v1::' in x[0]]
                if root != 1 or named != [('v1::Function', 'function')]: return None
                if fs[-1] == ('v1::Function', 'function'): return 1                       # the Option is Some
                if fs[-1][0].endswith('Option::Some') and fs[-2:-1] == [('v1::Function', 'function')]: return names.index(V)
                return None
            r = pe.walk(b, [0], avoid={c.bb}, assume=assume)[0]
            ctx.check(not (r & b.strict_ok_exits()), R + '/Function/no-bypass/' + V, 'T-MUSTCALL', b.name,
                      'a %s function can return Ok without partially evaluating its payload (success exit that bypasses the kernel)' % V, b.site(c.bb))
        # on the arm of a variant the function returns what the payload returned: `Ok(match .. { V(x) => x.pe(state)?, .. })`
        # == `match .. { V(x) => x.pe(state), .. => Ok(empty) }`
        notret = sorted(k for k, c in got.items() if not pe.result_reaches_return(ctx, b, c))
        ctx.check(bool(got) and not notret, R + '/Function/returns-payload-set', 'T-CARRY', b.name, 'returned set does not come from the payload of %s' % notret, b.site())
    for ty, field in (('v1::Constraint', ('v1::Constraint', 'function')), ('v1::RemovedConstraint', ('v1::RemovedConstraint', 'constraint'))):
        b = pe.lnorm(ctx, ctx.method(R + '/%s/anchor' % ty.split('::')[-1], ty, 'partial_evaluate', trait='Evaluate'))
        if b is None: continue
        pes = [c for c in b.calls if c.item == 'partial_evaluate' and 'Evaluate' in (c.trait or '')]
        ok = len(pes) == 1 and pe.from_self_field(ctx, b, pes[0].args[0], field[0], field[1]) and ('param', 2) in pe.prov(ctx, b, pes[0].args[1])
        ctx.check(ok, R + '/%s/passes-state' % ty.split('::')[-1], 'T-CARRY', b.name, 'does not partially evaluate its %s with the given state' % field[1], b.site())
        for c in pes:
            res = pe.errflow(b, c.dst['l'])
            ctx.check(not [h for k, h in res if k == 'bad'], R + '/%s/returns-result' % ty.split('::')[-1], 'T-ERRFLOW', b.name, 'result of the inner partial_evaluate is not returned / propagated', b.site(c.bb))
        for c in pes[:1]:
            if ty.endswith('RemovedConstraint'):
                ctx.check(pe.before_every_ok(b, {c.bb}), R + '/RemovedConstraint/no-bypass', 'T-MUSTCALL', b.name, 'an Ok-exit is reachable without partially evaluating the constraint', b.site(c.bb))
            else:
                pe.must_pass_or_none(ctx, R + '/Constraint/no-bypass', b, c, 'v1::Constraint', 'function', 'partially evaluating the function')
                own = pe.walk(b, [0], avoid={c.bb})[0] & b.err_exits()
                ctx.check(not own, R + '/Constraint/no-own-error', 'T-ERRFLOW', b.name, 'Constraint::partial_evaluate can fail without its function failing (a constraint without function is the zero function)', b.site())
        if ty.endswith('RemovedConstraint'):
            # a removed constraint without constraint is an error: `.context(..)?` == `.ok_or_else(..)?` == `match { None => bail!() }` == let-else
            n, bad = pe.none_is_error(ctx, b, 'v1::RemovedConstraint', 'constraint')
            ctx.check(n > 0 and not bad, R + '/RemovedConstraint/missing-is-error', 'T-ERRFLOW', b.name, 'missing constraint: %s' % ('; '.join(sorted(set(bad))) or 'self.constraint is never tested'), b.site())


def instance_rules(ctx):
    R = 'C03.instance'
    b0 = ctx.method(R + '/anchor', INST, 'partial_evaluate', trait='Evaluate')
    if b0 is None: return
    cover(ctx, R + '/cover', b0, INST, exempt=('description', 'sense', 'parameters', 'constraint_hints'))
    b = pe.lnorm(ctx, b0)
    pes = [c for c in b.calls if c.item == 'partial_evaluate' and 'Evaluate' in (c.trait or '')]
    want = {'objective': r'v1::Function$', 'constraints': r'v1::Constraint$', 'removed_constraints': r'v1::RemovedConstraint$', 'decision_variable_dependency': r'v1::Function$'}
    found = {}
    for c in pes:
        # the receiver comes from self.<f> (precise provenance: not confused by helpers that take the whole `&mut self`);
        # its type is the element type, or the type parameter of an inlined generic helper (instantiable only with it)
        src = [f for f in want if pe.from_self_field(ctx, b, c.args[0], INST, f)]
        if len(src) != 1: continue
        f = src[0]
        if f not in found and (re.search(want[f], c.self_ty or '') or generic_self(c)): found[f] = c
    for f in want:
        c = found.get(f)
        ctx.check(c is not None, R + '/apply/' + f, 'T-MUSTCALL', b.name, 'self.%s is not partially evaluated' % f, b.site())
        if c is None: continue
        ctx.check(T.access_path(b, c.args[1])[1] == 2, R + '/apply/%s/state' % f, 'T-CARRY', b.name, 'not with the given state', b.site(c.bb))
        pe.errflow_calls(ctx, R + '/apply/%s/error' % f, b, [c], 'partial_evaluate')
        if f == 'objective':
            pe.must_pass_or_none(ctx, R + '/apply/objective/every-path', b, c, INST, 'objective', 'partially evaluating the objective')
        else:
            ls = [lo for lo in T.for_loops(b) if c.bb in lo[4]]
            ctx.check(len(ls) == 1, R + '/apply/%s/loop' % f, 'T-LOOPMUST', b.name, 'not inside a loop over self.%s' % f, b.site(c.bb))
            for lo in ls:
                loop_must(ctx, R + '/apply/%s/every-item' % f, b, lo, lambda x: x is c, 'partial_evaluate')
                pe.no_early_exit(ctx, R + '/apply/%s/every-item/no-early-exit' % f, b, lo)
                ctx.check(lo[0].dst['l'] in ctx.S.slice_operand(b, c.args[0]).locals, R + '/apply/%s/item' % f, 'T-CARRY', b.name, 'receiver is not the loop item', b.site(c.bb))
                ctx.check(pe.before_every_ok(b, {lo[1]}), R + '/apply/%s/dominates' % f, 'T-MUSTCALL', b.name, 'loop does not dominate the Ok-exit', b.site(c.bb))
    # returned set is the union of every call's result
    for e, k, st in b.ret_assignments():
        if k == 'ok':
            o = st['rv']['ops'][0]
            miss = [f for f, c in found.items() if not (o['k'] in ('copy', 'move') and o['pl']['l'] in pe.flows_from(b, c.dst['l']))]
            ctx.check(not miss and len(found) == 4, R + '/returns-union', 'T-CARRY', b.name, 'returned set misses the ids reported for %s' % miss, b.site(e))
    # ... and of nothing else: whatever is merged into the returned set comes from a partial_evaluate result
    # ("contains only fixed variables that actually occurred": an id taken from the state / the variable list did not)
    rets = [st['rv']['ops'][0] for e, k, st in b.ret_assignments() if k == 'ok' and st['rv']['ops'][0]['k'] in ('copy', 'move')]
    if rets and found:
        roots = {pe.root_of(b, o) for o in rets}
        flows = set()
        for c in found.values(): flows |= pe.flows_from(b, c.dst['l'])
        foreign = []
        for c in b.calls:
            if (pe.MERGE_CALL.search(c.name) or SET_SINK.search(c.name)) and len(c.args) >= 2 and pe.root_of(b, c.args[0]) in roots:
                a = c.args[1]
                if not (a['k'] in ('copy', 'move') and (a['pl']['l'] in flows or pe.root_of(b, a) in flows)): foreign.append(c)
        ctx.check(not foreign, R + '/returns-union/only-reported', 'T-CARRY', b.name, 'the returned set also receives ids that no partial_evaluate reported (%s)' % ', '.join(sorted({c.item + '@' + b.site(c.bb).split(':')[-1] for c in foreign})), b.site())
    # the instance keeps every constraint, removed constraint, variable and dependency: partial evaluation rewrites the
    # functions in place, it never removes an element (a dependent variable stays dependent even if the state fixes it)
    for f in ('constraints', 'removed_constraints', 'decision_variables', 'decision_variable_dependency'):
        sh = pe.shrinking_calls(ctx, b, INST, f)
        assigned = []          # `self.f = rebuilt;` after a take(): judged on what is assigned
        for bi, st in b.stmts():
            if st['dst']['p'] and st['rv']['k'] == 'use':
                fs = [x for x in T.access_path(b, {'k': 'copy', 'pl': st['dst']}, transparent=T.TRANSPARENT_NOCLONE)[0] if 'v1::' in x[0]]
                if fs and fs == [(fs[0][0], f)] and fs[0][0].endswith(INST): assigned.append(st['rv']['ops'][0])
        ok_ = not sh or (bool(assigned) and all(pe.complete_field_copy(ctx, b, o, INST, f) == 'yes' for o in assigned))
        ctx.check(ok_, R + '/unchanged/%s-elements' % f, 'T-ATOMIC', b.name, 'elements of self.%s can be removed (%s)' % (f, ', '.join(sorted({c.item for c in sh}))), b.site(sh[0].bb) if sh else b.site())
    # substituted_value <- the state's value for the variable's own id, for every variable with a value
    loops = [lo for lo in T.for_loops(b) if pe.from_self_field(ctx, b, lo[0].args[0], INST, 'decision_variables')]
    pr = probes_in(b)
    ws = [(bi, st) for bi, st in b.stmts() if st['dst']['p'] and fields_of_place(st['dst'])[-1:] == [(DV, 'substituted_value')]]
    ok = False
    if len(loops) == 1 and len(pr) == 1 and len(ws) >= 1:
        lo = loops[0]; p = pr[0]
        key_ok = (DV, 'id') in T.expr_fields(T.expr(b, p.args[1])) and lo[0].dst['l'] in ctx.S.slice_operand(b, p.args[1]).locals and p.bb in lo[4]
        def kind(st):
            """what a write to v.substituted_value stores:
                 Some(*value) / Some(state.entries[&v.id])            -> 'some'   (value of the variable's own id)
                 state.entries.get(&v.id).copied().or(v.substituted_value)  -> 'or'  (same when fixed, unchanged otherwise)"""
            ex = T.strip_wrappers(T.expr(b, st['rv']['ops'][0])) if st['rv'].get('ops') else ('local', -1)
            if ex[0] == 'agg' and ex[1].endswith('Option::Some') and ex[2] and pe.label(b, ex[2][0]) == 'val[id]': return 'some'
            if ex[0] == 'call' and ex[1] == 'or' and len(ex[3]) == 2:
                first = T.strip_wrappers(ex[3][0])
                if first[0] == 'call' and len(first) > 4 and first[4] == p.bb and (DV, 'substituted_value') in T.expr_fields(ex[3][1]): return 'or'
            return None
        kinds = {bi: kind(st) for bi, st in ws}
        same_var = all(lo[0].dst['l'] in ctx.S.backslice(b, [st['dst']['l']]).locals and bi in lo[4] for bi, st in ws)
        good = {bi for bi, k in kinds.items() if k is not None}
        # fixed: every path back to the loop header records the value; free: nothing but the `or` idiom touches the field
        fixed_ok = bool(good) and not pe.walk(b, [p.target], stop={lo[1]}, env0={(p.dst['l'], ()): 1}, avoid=good)[1] \
            and not (pe.walk(b, [p.target], stop={lo[1]}, env0={(p.dst['l'], ()): 1})[0] & {bi for bi, k in kinds.items() if k is None})
        free_reg = pe.walk(b, [p.target], stop={lo[1]}, env0={(p.dst['l'], ()): 0})[0]
        free_ok = not (free_reg & {bi for bi, k in kinds.items() if k != 'or'})
        ok = key_ok and fixed_ok and free_ok and same_var
        loop_must(ctx, R + '/record/every-variable', b, lo, lambda c: c is p, 'state.get(v.id)')
        pe.no_early_exit(ctx, R + '/record/every-variable/no-early-exit', b, lo)
    ctx.check(ok, R + '/record/substituted_value', 'T-BRANCHFX', b.name, 'a fixed value is not recorded as substituted_value of its own decision variable', b.site())


def check(ctx):
    linear_rules(ctx); quadratic_rules(ctx); polynomial_rules(ctx); delegate_rules(ctx); instance_rules(ctx)
    pe.unmark(ctx)
    ctx.floor('C03.linear', 10); ctx.floor('C03.quadratic', 22); ctx.floor('C03.polynomial', 18); ctx.floor('C03.delegate', 17); ctx.floor('C03.instance', 46)
