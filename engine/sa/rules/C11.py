"""C11 — QUBO / PUBO export (DESIGN §5 C11).

Written against the normal form (VIEW = 'norm'): extracted helpers are inlined and iterator chains with
closures are explicit `next` loops.  Every rule is a condition on dataflow / paths ("the value written
to the map derives from ...", "no Ok-exit is reachable when ... fails", "every path from the
accumulation back to the loop header passes ...") and every recognised idiom of a check is one entry of
a table below; nothing counts syntactic items.
"""
from .common import *

VIEW = 'norm'
INST = 'v1::Instance'


# =============================================================================================
# path-sensitive reachability (local; candidate for templates.py, see C11-NOTES.txt)
# =============================================================================================
# T.reach_cp follows constant bools only.  After normalisation a `?` inside a spliced closure and the
# `?` on the result of the rewritten `try_for_each` are two Try::branch switches in a row: the Err made
# by the first one must be known to be an Err at the second one, otherwise "the error reaches the
# Ok-exit".  reach_v additionally propagates which variant a Result / Option / ControlFlow local holds.
V_DISCR = {'Result::Ok': 0, 'Result::Err': 1, 'Option::None': 0, 'Option::Some': 1, 'ControlFlow::Continue': 0, 'ControlFlow::Break': 1}
V_BRANCH = {'Result::Ok': 'ControlFlow::Continue', 'Option::Some': 'ControlFlow::Continue', 'Result::Err': 'ControlFlow::Break', 'Option::None': 'ControlFlow::Break'}
# adaptors that keep "is the error variant": name-regex -> {variant in: variant out}
V_ADAPT = [
    (re.compile(r'Result::<.*>::(map_err|map|inspect_err|inspect)(::<.*>)?$'), {'Result::Ok': 'Result::Ok', 'Result::Err': 'Result::Err'}),
    (re.compile(r'anyhow::Context<.*>::(with_context|context)(::<.*>)?$'), {'Result::Ok': 'Result::Ok', 'Result::Err': 'Result::Err', 'Option::Some': 'Result::Ok', 'Option::None': 'Result::Err'}),
    (re.compile(r'Option::<.*>::ok_or(_else)?(::<.*>)?$'), {'Option::Some': 'Result::Ok', 'Option::None': 'Result::Err'}),
    (re.compile(r'Option::<.*>::(copied|cloned|map|as_ref|as_mut|inspect)(::<.*>)?$'), {'Option::Some': 'Option::Some', 'Option::None': 'Option::None'}),
]


def _variant_of(adt):
    for k in V_DISCR:
        if adt.endswith(k): return k
    return None


def _err_variant_of_type(ty, name=''):
    s = (ty or '').strip()
    if s.startswith('std::option::Option') or '<std::option::Option<' in name[:40]: return 'Option::None'
    return 'Result::Err'


# calls that re-encode a known branch condition as another value (bool <-> Option <-> Result):
#   b.then_some(v) / b.then(f): true -> Some, false -> None;  o.is_some() / is_none(), r.is_ok() / is_err();  r.ok() / r.err()
V_RECODE = [
    (re.compile(r'bool>::(then_some|then)(::<.*>)?$'), {True: 'Option::Some', False: 'Option::None'}),
    (re.compile(r'Option::<.*>::is_some$'), {'Option::Some': True, 'Option::None': False}),
    (re.compile(r'Option::<.*>::is_none$'), {'Option::Some': False, 'Option::None': True}),
    (re.compile(r'Result::<.*>::is_ok$'), {'Result::Ok': True, 'Result::Err': False}),
    (re.compile(r'Result::<.*>::is_err$'), {'Result::Ok': False, 'Result::Err': True}),
    (re.compile(r'Result::<.*>::ok$'), {'Result::Ok': 'Option::Some', 'Result::Err': 'Option::None'}),
    (re.compile(r'Result::<.*>::err$'), {'Result::Ok': 'Option::None', 'Result::Err': 'Option::Some'}),
]


# constructor FUNCTIONS (a variant built by a call instead of an aggregate): anyhow::Ok(x), Ok / Some / Err used as fn items
V_CTOR = [(re.compile(r'^anyhow::Ok(::<.*>)?$|Result::<.*>::Ok$'), 'Result::Ok'), (re.compile(r'Result::<.*>::Err$'), 'Result::Err'),
          (re.compile(r'Option::<.*>::Some$'), 'Option::Some')]


def undecided_weak(ctx, rule, template, site, why, weak_ok, fn='', weak_detail=''):
    """the precise instance is undecided; the weaker clause that still holds is DECIDED under <rule>/weak, so that the floor of the
    family counts one decided instance either way"""
    ctx.undecided(rule, template, site, why)
    ctx.check(weak_ok, rule + '/weak', template, fn, weak_detail or ('weaker clause of %s does not hold' % rule), site)


def reach_v(body, starts, env0=None, stop=(), forced=None, hits=None, fvals=None):
    """blocks reachable from `starts` (list of bb) when the locals in env0 hold the given values
    ({local: True/False | 'Result::Err' | ...}); switches on a known bool / a known discriminant follow
    the matching target only.  Blocks in `stop` are neither entered nor returned (the ones a feasible
    path arrives at are added to `hits`).  forced = {switch bb: target}: outcome of tests decided by an
    assumption of the caller ("the kind is Binary"); fvals = {(bb, local): value}: value a local gets when
    it is defined in that block under the same assumption (result of `kind == Binary`)."""
    start_env = frozenset((env0 or {}).items())
    mb = T._mut_borrowed(body)            # a value that can be written through a `&mut` is never assumed known
    seen = set(); out = set(); work = [(s, start_env) for s in starts if s not in stop]
    while work:
        bi, env = work.pop()
        if (bi, env) in seen: continue
        seen.add((bi, env)); out.add(bi)
        if len(seen) > 60000: return out | body.reach(starts, stop)        # give up: over-approximate
        e = dict(env); blk = body.blocks[bi]
        for st in blk['st']:
            if 'dst' not in st: continue
            d = st['dst']; dl = d['l']
            if d['p']:
                e.pop(dl, None); e.pop(('p', dl), None); continue
            rv = st['rv']; k = rv['k']; o = rv['ops'][0] if rv.get('ops') else None
            val = None; pay = None          # pay: the variant held by the PAYLOAD of dl (nested sum types: Ok(None), Ok(Some(x)), Continue(None) ..)
            if k == 'agg':
                val = _variant_of(rv['adt'])
                if val is not None and len(rv['ops']) == 1 and rv['ops'][0]['k'] in ('copy', 'move') and not rv['ops'][0]['pl']['p']:
                    pv = e.get(rv['ops'][0]['pl']['l'])
                    if isinstance(pv, str): pay = pv
            elif k == 'use' and o['k'] == 'const':
                if o['v'] in ('true', 'false') and body.locals[dl] == 'bool': val = (o['v'] == 'true')
            elif k == 'use' and o['k'] in ('copy', 'move') and not o['pl']['p']:
                val = e.get(o['pl']['l']); pay = e.get(('p', o['pl']['l']))
            elif k == 'use' and o['k'] in ('copy', 'move') and len(o['pl']['p']) == 2 and isinstance(o['pl']['p'][0], dict) and 'dc' in o['pl']['p'][0] \
                    and isinstance(o['pl']['p'][1], dict) and o['pl']['p'][1].get('f') == '0':
                # `(x as Variant).0`: the payload of x, whose variant may be known
                pv = e.get(('p', o['pl']['l']))
                if isinstance(pv, str): val = pv
            elif k == 'un' and rv['op'] == 'Not' and o['k'] in ('copy', 'move') and not o['pl']['p']:
                v0 = e.get(o['pl']['l'])
                if isinstance(v0, bool): val = not v0
            elif k == 'ref' and not rv.get('mut') and not rv['pl']['p']:
                val = e.get(rv['pl']['l'])               # a shared reference to a value of known variant (`opt.is_some()`, `match &res`)
                if not isinstance(val, str): val = None
                else: pay = e.get(('p', rv['pl']['l']))
            elif k == 'discr' and rv['pl']['p'] in ([], ['*']):
                v0 = e.get(rv['pl']['l'])
                if isinstance(v0, str): val = ('discr', V_DISCR[v0])
            if fvals and (bi, dl) in fvals: val = fvals[(bi, dl)]; pay = None
            if val is None or dl in mb: e.pop(dl, None); e.pop(('p', dl), None)
            else:
                e[dl] = val
                if isinstance(pay, str): e[('p', dl)] = pay
                else: e.pop(('p', dl), None)
        t = blk['term']; succs = body.succ(bi)
        if t['k'] == 'call':
            d = t['dst']; dl = d['l']; nm = t['r'] or t['f']; val = None; pay = None
            a0 = t['args'][0] if t['args'] else None
            v0 = e.get(a0['pl']['l']) if a0 and a0['k'] in ('copy', 'move') and not a0['pl']['p'] else None
            if not d['p']:
                if 'FromResidual' in nm and nm.endswith('from_residual'):
                    val = _err_variant_of_type(body.locals[dl], nm)
                elif T.TRY_BRANCH.search(nm):
                    if isinstance(v0, str):
                        val = V_BRANCH.get(v0)
                        if val == 'ControlFlow::Continue': pay = e.get(('p', a0['pl']['l']))      # `?` hands the success payload on
                elif T.NOT_CALL.search(nm):
                    if isinstance(v0, bool): val = not v0
                elif any(rx.search(nm) for rx, _ in V_CTOR):
                    val = [v for rx, v in V_CTOR if rx.search(nm)][0]
                    if isinstance(v0, str): pay = v0
                elif isinstance(v0, str):
                    for rx, m in V_ADAPT:
                        if rx.search(T.strip_generics_tail(nm)) or rx.search(nm):
                            val = m.get(v0); break
                if val is None and v0 is not None and not isinstance(v0, tuple):
                    for rx, m in V_RECODE:
                        if rx.search(T.strip_generics_tail(nm)) or rx.search(nm):
                            val = m.get(v0); break
                if fvals and (bi, dl) in fvals: val = fvals[(bi, dl)]; pay = None
            if val is None or dl in mb: e.pop(dl, None); e.pop(('p', dl), None)
            else:
                e[dl] = val
                if isinstance(pay, str): e[('p', dl)] = pay
                else: e.pop(('p', dl), None)
        elif t['k'] == 'switch' and t['d']['k'] != 'const' and not t['d']['pl']['p']:
            v0 = e.get(t['d']['pl']['l'])
            m = {val: tg for val, tg in t['ts']}
            if isinstance(v0, bool): succs = [m.get(1 if v0 else 0, t['else'])]
            elif isinstance(v0, tuple): succs = [m.get(v0[1], t['else'])]
        if forced and bi in forced: succs = [forced[bi]]
        fe = frozenset(e.items())
        for s in succs:
            if body.blocks[s]['cleanup']: continue
            if s in stop:
                if hits is not None: hits.add(s)
                continue
            work.append((s, fe))
    return out


def must_pass_v(body, start, targets, via):
    """every (feasible) path from `start` to a block of `targets` passes a block of `via`"""
    if start in via: return True
    return not (reach_v(body, [start], stop=set(via)) & set(targets))


def precedes(body, bb, targets):
    """every feasible path from the entry to a block of `targets` passes bb: dominance, or — when bb sits in an inlined helper whose Err /
    Ok results merge again before the caller's `?` — the same thing decided with the variant-tracking reachability"""
    targets = set(targets)
    return all(body.dominates(bb, e) for e in targets) or must_pass_v(body, 0, targets, {bb})


class Side:
    """what one target of a switch leads to"""
    def __init__(self, body, bb):
        self.bb = bb
        r = reach_v(body, [bb]) if bb is not None else set()
        self.blocks = r; self.ok = bool(r & body.strict_ok_exits()); self.err = bool(r & body.err_exits())


class Guard2:
    """a two-sided test at switch_bb: `good` targets (the polarity the property needs) and `bad` ones.
    holds(): Ok-exits are reachable from a good target, from no bad target, every bad target reaches an
    Err-exit, and the test dominates every Ok-exit."""
    def __init__(self, body, switch_bb, good, bad):
        self.body = body; self.switch_bb = switch_bb
        self.good = [Side(body, b) for b in good]; self.bad = [Side(body, b) for b in bad]

    def requires(self):
        return bool(self.good) and bool(self.bad) and any(s.ok for s in self.good) and not any(s.ok for s in self.bad) and all(s.err for s in self.bad)

    def dominates_ok_exits(self):
        return precedes(self.body, self.switch_bb, self.body.strict_ok_exits())

    def holds(self): return self.requires() and self.dominates_ok_exits()

    def describe(self):
        return 'switch bb%d: good->%s bad->%s' % (self.switch_bb, [(s.bb, s.ok, s.err) for s in self.good], [(s.bb, s.ok, s.err) for s in self.bad])


def bool_guards(body, local, polarity):
    """Guard2 for every switch the bool in `local` flows to (through copies, `!`, anyhow's `not`);
    `polarity` is the value the property needs"""
    out = []
    for sb, neg in T.bool_flow(body, local):
        t, f = T.switch_sides(body, sb, neg)
        good, bad = ([t], [f]) if polarity else ([f], [t])
        out.append(Guard2(body, sb, [b for b in good if b is not None], [b for b in bad if b is not None]))
    return out


# =============================================================================================
# idiom tables
# =============================================================================================
def single_def(body, l):
    """the only definition of the whole local (writes through a projection of it are not definitions)"""
    ds = [d for d in body.defs_of(l) if not (d[0] == 'stmt' and d[2]['dst']['p'])]
    return ds[0] if len(ds) == 1 else None


VALUE_THROUGH = re.compile(r'::(abs|copied|cloned|clone|unwrap_or|unwrap_or_default|unwrap|expect|deref|deref_mut|borrow|borrow_mut|as_ref|as_mut|into|from|get|get_mut|into_mut|or_insert|or_insert_with|or_default|and_modify|map|map_or|map_or_else|remove|take)(::<.*>)?$')


def rooted_in(body, o, is_root_call, depth=16):
    """does the value of operand `o` come out of a call satisfying is_root_call — following the unique
    definitions through copies, references, arithmetic and value-preserving calls (VALUE_THROUGH)?
    Unlike a slice this does not tie together values that merely were captured by the same closure."""
    if o['k'] not in ('copy', 'move') or depth == 0: return False
    l = o['pl']['l']
    if 1 <= l <= body.argc: return False
    d = single_def(body, l)
    if d is None: return False
    kind, bi, x = d
    if kind == 'call':
        c = [y for y in body.calls if y.bb == bi][0]
        if is_root_call(c): return True
        if VALUE_THROUGH.search(T.strip_generics_tail(c.name)) and c.args: return rooted_in(body, c.args[0], is_root_call, depth - 1)
        return False
    rv = x['rv']
    if rv['k'] in ('ref', 'discr'): return rooted_in(body, {'k': 'copy', 'pl': rv['pl']}, is_root_call, depth - 1)
    return any(rooted_in(body, q, is_root_call, depth - 1) for q in rv.get('ops', []))


def usize_const(o):
    if o['k'] != 'const': return None
    m = re.match(r'^(?:const )?(\d+)_usize$', o['v'].strip())
    return int(m.group(1)) if m else None


def const_operand(body, o):
    """an operand that is a constant, directly or as a single-definition temporary `_t = const ..`"""
    if o['k'] == 'const': return o
    if o['k'] in ('copy', 'move') and not o['pl']['p']:
        d = single_def(body, o['pl']['l'])
        if d and d[0] == 'stmt' and d[2]['rv']['k'] == 'use' and d[2]['rv']['ops'][0]['k'] == 'const': return d[2]['rv']['ops'][0]
    return None


FLIP = {'Lt': 'Gt', 'Gt': 'Lt', 'Le': 'Ge', 'Ge': 'Le', 'Eq': 'Eq', 'Ne': 'Ne'}


def emptiness_tests(body, recv_ok):
    """EMPTY idioms: bool locals that say whether a collection is empty.  Returns (bool local, bb,
    value meaning `empty`, receiver operand).
       c.is_empty()                      -> True
       c.len() == 0 | 0 == c.len()       -> True
       c.len() != 0 | c.len() > 0 | c.len() >= 1 | 0 < c.len() | 1 <= c.len()   -> False
       c.len() < 1 | 1 > c.len()         -> True"""
    out = []
    for c in body.calls:
        if c.item == 'is_empty' and c.args and recv_ok(c):
            out.append((c.dst['l'], c.bb, True, c.args[0]))
    lens = {c.dst['l']: c for c in body.calls if c.item == 'len' and c.args and recv_ok(c) and not c.dst['p']}
    for bi, st in body.stmts():
        rv = st['rv']
        if rv['k'] != 'bin' or rv['op'] not in FLIP or st['dst']['p']: continue
        a, b = rv['ops']; op = rv['op']
        def len_of(o):
            if o['k'] not in ('copy', 'move') or o['pl']['p']: return None
            l = o['pl']['l']
            for _ in range(4):
                if l in lens: return lens[l]
                d = single_def(body, l)
                if d and d[0] == 'stmt' and d[2]['rv']['k'] == 'use' and d[2]['rv']['ops'][0]['k'] in ('copy', 'move') and not d[2]['rv']['ops'][0]['pl']['p']:
                    l = d[2]['rv']['ops'][0]['pl']['l']
                else: return None
            return None
        ca, cb = const_operand(body, a), const_operand(body, b)
        if len_of(a) is not None and cb is not None: lc = len_of(a); k = usize_const(cb)
        elif len_of(b) is not None and ca is not None: lc = len_of(b); k = usize_const(ca); op = FLIP[op]
        else: continue
        # now: len <op> k
        empty_when = {('Eq', 0): True, ('Ne', 0): False, ('Gt', 0): False, ('Ge', 1): False, ('Lt', 1): True, ('Le', 0): True}.get((op, k))
        if empty_when is None: continue
        out.append((st['dst']['l'], bi, empty_when, lc.args[0]))
    return out


def enum_as_int(body, o, adt_suffix, names):
    """variant name when operand `o` is a constant integer standing for a variant of the enum: the literal discriminant, or
    `Enum::V as i32` (all constant leaves of its expression: one `<Enum>::V::{constant#0}`, the rest zeros), else None"""
    k = const_operand(body, o)
    if k is not None:
        mm = re.match(r'^(?:const )?(-?\d+)_i32$', k['v'].strip())
        return names.get(int(mm.group(1))) if mm else None
    if o['k'] not in ('copy', 'move'): return None
    e = T.expr(body, o, depth=10)
    w = T.strip_wrappers(e)                      # `Enum::V.into()` / `i32::from(Enum::V)`: the variant value itself under a conversion
    if w[0] == 'agg' and not w[2] and '::' in w[1]:
        owner, _, name = w[1].rpartition('::')
        if (owner == adt_suffix or owner.endswith('::' + adt_suffix) or adt_suffix.endswith('::' + owner)) and name in names.values(): return name
        return None
    leaves = [x for x in T.expr_walk(e) if x[0] in ('const', 'place', 'local', 'call')]
    if not leaves or any(x[0] != 'const' for x in leaves): return None
    hit = None
    for x in leaves:
        v = x[1].strip()
        mm = re.search(r'((?:\w+::)*\w+)::(\w+)::\{constant#\d+\}$', v)
        if mm and (mm.group(1) == adt_suffix or mm.group(1).endswith('::' + adt_suffix) or adt_suffix.endswith('::' + mm.group(1))):
            if hit is not None: return None
            hit = mm.group(2)
        elif not re.match(r'^(?:const )?0_i32$', v): return None
    return hit if hit in names.values() else None


class EnumProbes:
    """every inspection of one enum value in a body (ENUM-TEST idioms), usable as an assumption "the value is V":
       ('switch', bb, {V: target})         discriminant switch (matches! / match / if let)
       ('value',  bb, local, {V: bool})    x == K / x != K (PartialEq call) or raw i32 == discriminant: the bool it yields,
                                           whatever consumes it later (if, &&, then_some, filter closure result, ..)
    reach(V, ..) is the variant-tracking reachability under that assumption."""
    def __init__(self, ctx, body, adt_suffix, src_need=None, blocks=None):
        self.body = body; self.probes = []; self.variants = []
        adt = ctx.F.adt(adt_suffix); self.lost = adt is None
        if adt is None: return
        names = {v['discr']: v['name'] for v in adt['variants']}
        self.variants = allv = [v['name'] for v in adt['variants']]
        short = adt_suffix.split('::')[-1]
        ty_re = re.compile(r"^&?('\w+ )?(mut )?([\w:]*::)?" + re.escape(adt_suffix) + r"$")
        inb = lambda bb: blocks is None or bb in blocks
        for c in body.calls:
            if inb(c.bb) and c.item in ('eq', 'ne') and 'PartialEq' in (c.trait or '') and ty_re.match((c.self_ty or '').strip()) and not c.dst['p']:
                vs = [enum_variant_of_operand(ctx, body, a) for a in c.args]
                hit = [v for v in vs if v and v.split('::')[-1] in allv and short in v]
                if not hit: continue
                others = [a for a, v in zip(c.args, vs) if not (v and v.split('::')[-1] in allv)]
                if src_need is not None and (not others or not src_need(ctx.S.slice_operand(body, others[0]))): continue
                K = hit[0].split('::')[-1]
                self.probes.append(('value', c.bb, c.dst['l'], {n: ((n == K) == (c.item == 'eq')) for n in allv}))
        for bi in sorted(body.live):
            t = body.blocks[bi]['term']
            if not inb(bi) or t['k'] != 'switch' or t['d']['k'] == 'const' or t['d']['pl']['p']: continue
            d = single_def(body, t['d']['pl']['l'])
            if not d or d[0] != 'stmt' or d[2]['rv']['k'] != 'discr': continue
            pl = d[2]['rv']['pl']
            if any(p != '*' for p in pl['p']) or not ty_re.match(body.locals[pl['l']].strip()): continue
            if src_need is not None and not src_need(ctx.S.backslice(body, [pl['l']])): continue
            m = {v: tg for v, tg in t['ts']}
            self.probes.append(('switch', bi, {n: m.get(dv, t['else']) for dv, n in names.items()}))
        for bi, st in body.stmts():
            rv = st['rv']
            if inb(bi) and rv['k'] == 'bin' and rv['op'] in ('Eq', 'Ne') and rv.get('ty') == 'i32' and not st['dst']['p']:
                # RAW-FIELD idiom (prost keeps enums as i32): `c.equality == Equality::V as i32` / `== 1`; `V as i32` lowers to
                # cast((const <Enum>::V::{constant#0} + 0).0)
                ks = [enum_as_int(body, o, adt_suffix, names) for o in rv['ops']]
                for i in (0, 1):
                    if ks[i] is None or ks[1 - i] is not None: continue
                    if src_need is not None and not src_need(ctx.S.slice_operand(body, rv['ops'][1 - i])): continue
                    K = ks[i]
                    self.probes.append(('value', bi, st['dst']['l'], {n: ((n == K) == (rv['op'] == 'Eq')) for n in allv}))

    def __bool__(self): return bool(self.probes)

    def bbs(self): return {p[1] for p in self.probes}

    def site(self): return self.body.site(self.probes[0][1]) if self.probes else self.body.site()

    def assume(self, V):
        """(forced switch targets, forced values) that say "the value is V" """
        return ({p[1]: p[2][V] for p in self.probes if p[0] == 'switch'}, {(p[1], p[2]): p[3][V] for p in self.probes if p[0] == 'value'})

    def reach(self, V, starts, env0=None, stop=(), hits=None, more_vals=None):
        forced, fvals = self.assume(V)
        if more_vals: fvals.update(more_vals)
        return reach_v(self.body, starts, env0, stop, forced, hits, fvals)


def enum_guard(ctx, rule, body, adt_suffix, allowed, what, src_need=None):
    """T-GUARD, stated per variant: assume the enum value is V at every place the body inspects it; from the
    entry an Ok-exit is reachable iff V is allowed, and for the others an Err-exit is"""
    P = EnumProbes(ctx, body, adt_suffix, src_need)
    if P.lost:
        ctx.lost(rule, 'ADT ' + adt_suffix); return None
    if not P:
        ctx.bad(rule, 'T-GUARD', body.name, 'no test `%s` found' % what, body.site()); return None
    oks = body.strict_ok_exits(); errs = body.err_exits(); wrong = []
    for V in P.variants:
        ctx.counters['cfg_paths'] += 1
        r = P.reach(V, [0])
        if V in allowed and not (r & oks): wrong.append('%s never succeeds' % V)
        if V not in allowed and ((r & oks) or not (r & errs)): wrong.append('%s can reach an Ok-exit' % V)
    ctx.check(not wrong, rule, 'T-GUARD', body.name, 'test `%s` does not guard the Ok-exits: %s' % (what, '; '.join(wrong)), P.site(), guard=what)
    return P if not wrong else None


def local_guard(ctx, rule, body, cands, what):
    """T-GUARD over candidate (bool local, bb, required value): one of them must hold"""
    seen = []
    for local, bb, pol in cands:
        for g in bool_guards(body, local, pol):
            ctx.counters['cfg_paths'] += 1
            if g.holds():
                ctx.ok(rule, 'T-GUARD', body.site(bb), guard=what, shape=g.describe()); return (local, bb, g)
            seen.append(g.describe())
    if not cands: ctx.bad(rule, 'T-GUARD', body.name, 'no test `%s` found' % what, body.site())
    else: ctx.bad(rule, 'T-GUARD', body.name, 'test `%s` does not guard the Ok-exits with the required polarity' % what, body.site(cands[0][1]), seen='; '.join(seen)[:300])
    return None


def subset_guard(ctx, rule, body, a_need, b_need, what):
    """SUBSET idioms  A ⊆ B  (A, B: slices of the operands must satisfy a_need / b_need):
       A.is_subset(&B)                         must be true
       B.is_superset(&A)                       must be true
       A.difference(&B).next().is_none()       the `None` arm is the only way to the Ok-exits
       A.difference(&B).count() == 0           (EMPTY idioms on the count)
       A.iter().all(|x| B.contains(x))  /  for x in &A { if !B.contains(x) { bail } }
                                               in normal form one loop over A: every item passes
                                               B.contains(item), its `false` side reaches no Ok-exit,
                                               the loop dominates every Ok-exit"""
    sl = lambda o: ctx.S.slice_operand(body, o)
    cands = []; seen = []
    for c in body.calls:
        if 'BTreeSet' not in c.name and 'HashSet' not in c.name: continue
        if c.item == 'is_subset' and a_need(sl(c.args[0])) and b_need(sl(c.args[1])): cands.append((c.dst['l'], c.bb, True))
        if c.item == 'is_superset' and a_need(sl(c.args[1])) and b_need(sl(c.args[0])): cands.append((c.dst['l'], c.bb, True))
        if c.item == 'difference' and a_need(sl(c.args[0])) and b_need(sl(c.args[1])):
            for n in body.calls:
                if n.item == 'next' and c in ctx.S.slice_operand(body, n.args[0]).call_objs and T.loop_of_next(body, n) is None:
                    for sb, m, els in T.option_arms(body, n.dst['l']):
                        g = Guard2(body, sb, [m.get(0, els)], [m.get(1, els)]); ctx.counters['cfg_paths'] += 1
                        if g.holds():
                            ctx.ok(rule, 'T-GUARD', body.site(n.bb), guard=what, shape=g.describe()); return g
                        seen.append(g.describe())
                    for x in body.calls:
                        if x.item == 'is_none' and x.arg_local(0) is not None and n in ctx.S.slice_operand(body, x.args[0]).call_objs: cands.append((x.dst['l'], x.bb, True))
                        if x.item == 'is_some' and x.arg_local(0) is not None and n in ctx.S.slice_operand(body, x.args[0]).call_objs: cands.append((x.dst['l'], x.bb, False))
                if n.item == 'count' and c in ctx.S.slice_operand(body, n.args[0]).call_objs:
                    for bi, st in body.stmts():
                        rv = st['rv']
                        if rv['k'] == 'bin' and rv['op'] in ('Eq', 'Ne', 'Gt') and not st['dst']['p']:
                            ks = [const_operand(body, o) for o in rv['ops']]
                            if any(k is not None and usize_const(k) == 0 for k in ks) and any(o['k'] in ('copy', 'move') and n in ctx.S.slice_operand(body, o).call_objs for o in rv['ops']):
                                cands.append((st['dst']['l'], bi, rv['op'] == 'Eq'))
    for local, bb, pol in cands:
        for g in bool_guards(body, local, pol):
            ctx.counters['cfg_paths'] += 1
            if g.holds():
                ctx.ok(rule, 'T-GUARD', body.site(bb), guard=what, shape=g.describe()); return g
            seen.append(g.describe())
    # loop form
    oks = body.strict_ok_exits()
    for lo in T.for_loops(body):
        nextc, header, some_bb, none_bb, blocks = lo
        if not a_need(sl(nextc.args[0])): continue
        for c in body.calls:
            if c.bb not in blocks or c.item != 'contains' or not ('BTreeSet' in c.name or 'HashSet' in c.name): continue
            if not b_need(sl(c.args[0])) or nextc not in sl(c.args[1]).call_objs: continue
            ctx.counters['cfg_paths'] += 1
            gs = bool_guards(body, c.dst['l'], True)
            okg = [g for g in gs if g.requires()]
            every = must_pass_v(body, some_bb, {header}, {c.bb})
            dom = precedes(body, header, oks)
            if okg and every and dom:
                ctx.ok(rule, 'T-GUARD', body.site(c.bb), guard=what, shape='loop bb%d: ' % header + okg[0].describe()); return okg[0]
            seen.append('loop bb%d contains@bb%d: guard=%s every-item=%s dominates=%s' % (header, c.bb, [g.describe() for g in gs], every, dom))
    if not cands and not seen: ctx.bad(rule, 'T-GUARD', body.name, 'no test `%s` found' % what, body.site())
    else: ctx.bad(rule, 'T-GUARD', body.name, 'test `%s` does not guard the Ok-exits with the required polarity' % what, body.site(), seen='; '.join(seen)[:400])
    return None


def subset_assumptions(ctx, body, a_need, b_need):
    """{(bb, local): value} saying "A ⊆ B holds" at every place a SUBSET idiom inspects it (same table as subset_guard)"""
    sl = lambda o: ctx.S.slice_operand(body, o)
    out = {}
    for c in body.calls:
        if not ('BTreeSet' in c.name or 'HashSet' in c.name) or c.dst['p']: continue
        if c.item == 'is_subset' and a_need(sl(c.args[0])) and b_need(sl(c.args[1])): out[(c.bb, c.dst['l'])] = True
        if c.item == 'is_superset' and a_need(sl(c.args[1])) and b_need(sl(c.args[0])): out[(c.bb, c.dst['l'])] = True
        if c.item == 'difference' and a_need(sl(c.args[0])) and b_need(sl(c.args[1])):
            for n in body.calls:
                if n.item == 'next' and c in sl(n.args[0]).call_objs and T.loop_of_next(body, n) is None and not n.dst['p']: out[(n.bb, n.dst['l'])] = 'Option::None'
                if n.item == 'count' and c in sl(n.args[0]).call_objs:
                    for bi, st in body.stmts():
                        rv = st['rv']
                        if rv['k'] == 'bin' and rv['op'] in ('Eq', 'Ne', 'Gt') and not st['dst']['p']:
                            ks = [const_operand(body, o) for o in rv['ops']]
                            if any(k is not None and usize_const(k) == 0 for k in ks) and any(o['k'] in ('copy', 'move') and n in sl(o).call_objs for o in rv['ops']):
                                out[(bi, st['dst']['l'])] = (rv['op'] == 'Eq')
    for lo in T.for_loops(body):
        nextc, header, some_bb, none_bb, blocks = lo
        if not a_need(sl(nextc.args[0])): continue
        for c in body.calls:
            if c.bb in blocks and c.item == 'contains' and ('BTreeSet' in c.name or 'HashSet' in c.name) and not c.dst['p'] and b_need(sl(c.args[0])) and nextc in sl(c.args[1]).call_objs:
                out[(c.bb, c.dst['l'])] = True
    return out


# CONVERSION idioms: a conversion into T is reached through T's own impl or through the reciprocal blanket trait
#   T::try_from(x) == <T as TryFrom<S>>::try_from(x)   ==  x.try_into() == <S as TryInto<T>>::try_into(x)
#   T::from(x)     == <T as From<S>>::from(x)          ==  x.into()     == <S as Into<T>>::into(x)
PAIR_SRC = r'(std::vec::Vec<u64>|sorted_ids::SortedIds|sorted_ids::BinaryIds)'
CONV_PAIR = r'<sorted_ids::BinaryIdPair as std::convert::TryFrom<%s>>::try_from$|<%s as std::convert::TryInto<sorted_ids::BinaryIdPair>>::try_into$' % (PAIR_SRC, PAIR_SRC)
CONV_SET = r'<sorted_ids::BinaryIds as std::convert::From<sorted_ids::SortedIds>>::from$|<sorted_ids::SortedIds as std::convert::Into<sorted_ids::BinaryIds>>::into$'


def closure_of_operand(body, o):
    """the closure an operand holds (its aggregate statement, through plain copies): [def path] or []"""
    for l in (plain_source(body, o) or ()):
        d = single_def(body, l)
        if d and d[0] == 'stmt' and d[2]['rv']['k'] == 'agg' and d[2]['rv']['adt'].startswith('closure:'): return [d[2]['rv']['adt'][8:]]
    return []


def implies_small(ctx, cb, retval, depth=3):
    """Predicate bodies (closures / small fns returning bool) over a term's coefficient: whenever `cb` returns `retval`, a NEGLIGIBLE
    test on a value coming from its argument (param 2) says "negligible".  Shapes: the returned bool is such a test (or its copy /
    negation); constants assigned on paths that passed the small side of such a test (`a && b`, `!nan && big`); the result of another
    crate body called on a value from the argument (`let negligible = |c| ..; .filter(|(_, c)| !negligible(*c))`), negated or not."""
    if cb is None or cb.argc < 2 or depth == 0: return False
    tests = [t for t in negligible_tests(ctx, cb, cb.live) if 2 in ctx.S.slice_operand(cb, t[2]).params]
    small_true = {}         # bool local -> True if `true` means "negligible"
    tiny = set()
    for bi, st, x, st_small, kind in tests:
        small_true[st['dst']['l']] = st_small
        for sb, neg in T.bool_flow(cb, st['dst']['l']):
            t, f = T.switch_sides(cb, sb, neg)
            small = t if st_small else f
            if small is not None: tiny.add(small)
    def holds(l, val, d=6):
        """local l == val  =>  negligible ?"""
        if l in small_true: return small_true[l] == val
        df = single_def(cb, l) if l != 0 else None
        if l == 0:
            ds = [x for x in cb.defs_of(0) if not (x[0] == 'stmt' and x[2]['dst']['p'])]
            df = ds[0] if len(ds) == 1 else None
        if df is None or d == 0: return False
        if df[0] == 'call':
            c = [y for y in cb.calls if y.bb == df[1]][0]
            if T.NOT_CALL.search(c.name) and c.arg_local(0) is not None: return holds(c.arg_local(0), not val, d - 1)
            cb2 = ctx.F.bodies.get(c.path) or ctx.F.bodies.get(c.name)
            if cb2 is not None and cb2 is not cb and any(a['k'] in ('copy', 'move') and 2 in ctx.S.slice_operand(cb, a).params for a in c.args):
                return implies_small(ctx, cb2, val, depth - 1)
            return False
        rv = df[2]['rv']; o = rv['ops'][0] if rv.get('ops') else None
        if rv['k'] == 'use' and o['k'] in ('copy', 'move') and not o['pl']['p']: return holds(o['pl']['l'], val, d - 1)
        if rv['k'] == 'un' and rv['op'] == 'Not' and o['k'] in ('copy', 'move'): return holds(o['pl']['l'], not val, d - 1)
        return False
    defs = [d for d in cb.defs_of(0) if not (d[0] == 'stmt' and d[2]['dst']['p'])]
    if not defs: return False
    if len(defs) == 1: return holds(0, retval)
    for k, bi, d in defs:
        if k != 'stmt': return False
        rv = d['rv']; o = rv['ops'][0] if rv.get('ops') else None
        if rv['k'] == 'use' and o['k'] == 'const' and o['v'] in ('true', 'false'):
            if (o['v'] == 'true') != retval: continue
            if not must_pass_v(cb, 0, {bi}, tiny): return False          # returns `retval` on a path that no test on the coefficient justifies
            continue
        if rv['k'] == 'use' and o['k'] in ('copy', 'move') and not o['pl']['p'] and holds(o['pl']['l'], retval): continue
        if rv['k'] == 'un' and rv['op'] == 'Not' and o['k'] in ('copy', 'move') and holds(o['pl']['l'], not retval): continue
        if rv['k'] == 'bin' and d['dst']['l'] in small_true and small_true[d['dst']['l']] == retval: continue
        return False
    return True


def keeps_only_non_negligible(ctx, cb):
    """FILTER idiom on the term iterator: the predicate may drop an item (return false) only when the item's coefficient is negligible
    (then the adaptor is the skip test of the loop, moved into the pipeline)"""
    return implies_small(ctx, cb, False)


def empty_when(ctx, cb):
    """PARTITION / FILTER predicate over a term: returns the bool value that means "the term has no ids" when the closure's result is
    an EMPTY test (EMPTY table) on a value from its argument, directly or negated; else None"""
    tests = {l: emp for l, bb, emp, recv in emptiness_tests(cb, lambda c: 2 in ctx.S.slice_operand(cb, c.args[0]).params)}
    def val(l, d=6):
        if l in tests: return tests[l]
        ds = [x for x in cb.defs_of(l) if not (x[0] == 'stmt' and x[2]['dst']['p'])]
        if len(ds) != 1 or d == 0: return None
        df = ds[0]
        if df[0] == 'call':
            c = [y for y in cb.calls if y.bb == df[1]][0]
            if T.NOT_CALL.search(c.name) and c.arg_local(0) is not None:
                v = val(c.arg_local(0), d - 1); return None if v is None else not v
            return None
        rv = df[2]['rv']; o = rv['ops'][0] if rv.get('ops') else None
        if rv['k'] == 'use' and o['k'] in ('copy', 'move') and not o['pl']['p']: return val(o['pl']['l'], d - 1)
        if rv['k'] == 'un' and rv['op'] == 'Not' and o['k'] in ('copy', 'move'):
            v = val(o['pl']['l'], d - 1); return None if v is None else not v
        return None
    return val(0)


def partition_class(ctx, body, lo):
    """(partition call, 'empty' | 'nonempty') when the loop iterates one component of `it.partition(pred)` whose predicate is an
    EMPTY test on the term's ids: component 0 holds the items for which pred is true"""
    l = lo[0].arg_local(0)
    for _ in range(12):
        if l is None: return None
        d = single_def(body, l)
        if d is None: return None
        if d[0] == 'call':
            c = [y for y in body.calls if y.bb == d[1]][0]
            if c.item in ('into_iter', 'iter', 'iter_mut', 'deref', 'deref_mut', 'as_slice', 'drain') and c.args: l = c.arg_local(0); continue
            return None
        rv = d[2]['rv']
        pl = rv['ops'][0]['pl'] if rv['k'] == 'use' and rv['ops'][0]['k'] in ('copy', 'move') else (rv['pl'] if rv['k'] == 'ref' else None)
        if pl is None: return None
        fs = [q for q in pl['p'] if isinstance(q, dict) and 'f' in q]
        if fs and fs[0].get('of') == 'tuple' and fs[0]['f'] in ('0', '1'):
            dp = single_def(body, pl['l'])
            if dp and dp[0] == 'call':
                pc = [y for y in body.calls if y.bb == dp[1]][0]
                if pc.item == 'partition' and 'Iterator' in (pc.trait or '') and len(pc.args) == 2:
                    for cn in closure_of_operand(body, pc.args[1]):
                        ev = empty_when(ctx, ctx.F.bodies.get(cn)) if ctx.F.bodies.get(cn) is not None else None
                        if ev is None: return None
                        comp_true = fs[0]['f'] == '0'
                        return (pc, 'empty' if comp_true == ev else 'nonempty')
            return None
        l = pl['l']
    return None


def variant_discr(ctx, adt_variant):
    """discriminant of an enum variant given by its path ('std::option::Option::None', 'mod::Enum::Variant')"""
    v = _variant_of(adt_variant)
    if v is not None: return V_DISCR[v]
    owner, _, name = adt_variant.rpartition('::')
    a = ctx.F.adts.get(owner)
    if a is None: return None
    for x in a['variants']:
        if x['name'] == name: return x['discr']
    return None


def node_of_place(pl):
    from ..dataflow import node_of
    return node_of(pl)


def negligible_tests(ctx, body, blocks):
    """NEGLIGIBLE idioms: comparisons that decide whether an f64 is (numerically) zero.
       |x| <  EPSILON, |x| <= EPSILON, EPSILON > |x|, ... (any order / strictness; f64::EPSILON only)
       x == 0.0, x != 0.0
       x.is_nan()   (skip tests only: a NaN coefficient is "not > EPSILON" as well; never accepted as the zero filter)
    Returns (bb, stmt-like {'dst': bool place}, operand x, small_when_true, kind in 'eps' | 'zero' | 'nan')."""
    out = []
    for c in body.calls:
        if c.bb in blocks and c.item == 'is_nan' and re.search(r'f64>::is_nan$', c.name) and not c.dst['p']:
            out.append((c.bb, {'dst': c.dst}, c.args[0], True, 'nan'))
    for bi, st in float_cmp_sites(body):
        if bi not in blocks or st['dst']['p']: continue
        rv = st['rv']; ops = rv['ops']; op = rv['op']
        ci = [i for i, o in enumerate(ops) if o['k'] == 'const']
        if len(ci) != 1: continue
        k = ops[ci[0]]; x = ops[1 - ci[0]]
        if ci[0] == 0: op = FLIP[op]                      # now: x <op> K
        if 'EPSILON' in k['v'] and op in ('Lt', 'Le', 'Gt', 'Ge'):
            if not ctx.S.slice_operand(body, x).has_call(r'f64>::abs$'): continue
            out.append((bi, st, x, op in ('Lt', 'Le'), 'eps'))
        elif T.f64_const(k['v']) == 0.0 and op in ('Eq', 'Ne'):
            out.append((bi, st, x, op == 'Eq', 'zero'))
    return out


def resolve_ref_local(body, pl):
    """the local an assignment through `(*r)` writes to when r is a `&mut local` (captured accumulators
    of spliced closures): follows copies of the reference"""
    l = pl['l']
    if pl['p'] == []: return l
    if pl['p'] != ['*']: return None
    for _ in range(6):
        d = single_def(body, l)
        if not d or d[0] != 'stmt': return None
        rv = d[2]['rv']
        if rv['k'] == 'use' and rv['ops'][0]['k'] in ('copy', 'move') and not rv['ops'][0]['pl']['p']: l = rv['ops'][0]['pl']['l']; continue
        if rv['k'] == 'ref' and rv['pl']['p'] == []: return rv['pl']['l']
        if rv['k'] == 'ref' and rv['pl']['p'] == ['*']: l = rv['pl']['l']; continue
        return None
    return None


def used_of_objective(a):
    """slice of the set A in `A ⊆ binary ids`: the ids used by the OBJECTIVE and by nothing else (Instance::used_decision_variable_ids
    also collects the ids of active and removed constraints — a superset that refuses instances the property admits)"""
    return a.has_call(r'used_decision_variable_ids') and a.has_field(INST, 'objective') and not a.has_field(INST, 'constraints') and not a.has_field(INST, 'removed_constraints')


class BodyView:
    """a body with some Ok-exits left out of scope (everything else is the body itself)"""
    def __init__(self, body, drop_ok):
        self._b = body; self._drop = frozenset(drop_ok)

    def __getattr__(self, n): return getattr(self._b, n)

    def strict_ok_exits(self): return self._b.strict_ok_exits() - self._drop

    def ok_exits(self): return self._b.ok_exits() - self._drop

    def ret_assignments(self): return [x for x in self._b.ret_assignments() if x[0] not in self._drop]


def is_map_of(keyty):
    return lambda c: bool(re.search(r"(BTreeMap|btree_map::(Entry|OccupiedEntry|VacantEntry))::<('_, )?sorted_ids::%s, f64>" % keyty, c.name))


def option_field_sides(body, adt, field):
    """OPTION-TEST idioms on a field: `match x.f { None => .. }` / `let Some(v) = &x.f else { .. }` / `if x.f.is_none()` / `is_some()`.
    Returns [(bb, target when Some, target when None)]."""
    out = list(option_field_tests(body, adt, field))
    for c in body.calls:
        if c.item in ('is_none', 'is_some') and 'Option' in c.name and c.args and c.args[0]['k'] in ('copy', 'move') and not c.dst['p']:
            fs = T.access_path(body, c.args[0])[0]
            if not fs or fs[-1][1] != field or not (fs[-1][0] == adt or fs[-1][0].endswith('::' + adt)): continue
            for sb, neg in T.bool_flow(body, c.dst['l']):
                t, f = T.switch_sides(body, sb, neg)
                if t is None or f is None: continue
                out.append((sb, f, t) if c.item == 'is_none' else (sb, t, f))
    return out


def trivial_exits(ctx, body, is_map, qubo):
    """(Ok-exits that are the trivial case done right, all Ok-exits taken only when Instance.objective is None)"""
    cand = set(); good = set()
    oks = body.strict_ok_exits()
    for sb, some_t, none_t in option_field_sides(body, INST, 'objective'):
        rn = reach_v(body, [none_t]); rs = reach_v(body, [some_t])
        cand |= (rn & oks) - rs
    rets = {bi: st for bi, k, st in body.ret_assignments() if k == 'ok'}
    for e in cand:
        st = rets.get(e)
        if st is None: continue
        sl_ = ctx.S.slice_operand(body, st['rv']['ops'][0])
        calls = [c for c in sl_.call_objs]
        fresh = any(is_map(c) and c.item in ('new', 'default') for c in calls) and all((is_map(c) and c.item in ('new', 'default')) for c in calls)
        zero = True
        if qubo:
            zero = False                      # the pair built for this exit: (fresh map, 0.0)
            for l in sl_.locals:
                d = single_def(body, l)
                if d and d[0] == 'stmt' and d[2]['rv']['k'] == 'agg' and d[2]['rv']['adt'] == 'tuple' and len(d[2]['rv']['ops']) == 2:
                    k = const_operand(body, d[2]['rv']['ops'][1])
                    zero = k is not None and T.f64_const(k['v']) == 0.0
        if fresh and zero: good.add(e)
    return good, cand


# =============================================================================================
# the two exporters
# =============================================================================================
def export_rules(ctx, name, keyty, qubo):
    R = 'C11.%s' % name
    body = ctx.method(R + '/anchor', INST, name)
    if body is None: return
    S = ctx.S
    sl = lambda o: S.slice_operand(body, o)
    # ---- refusal guards
    def on_constraints(c): return re.search(r'Vec::<v1::Constraint>|\[v1::Constraint\]', c.name) and sl(c.args[0]).has_field(INST, 'constraints')
    local_guard(ctx, R + '/guard/no-active-constraints', body, [(l, bb, emp) for l, bb, emp, recv in emptiness_tests(body, on_constraints)], 'self.constraints is empty')
    sense = ctx.F.adt('v1::instance::Sense')
    allowed = {v['name'] for v in sense['variants']} - {'Maximize'} if sense else set()
    enum_guard(ctx, R + '/guard/not-maximize', body, 'v1::instance::Sense', allowed, 'sense() != Maximize', src_need=lambda s: s.has_field(INST, 'sense'))
    binary_ids_rules(ctx, R)
    # ---- TRIVIAL CASE short-cut: an Ok-exit taken only when Instance.objective is None (the zero function: no terms, no used ids)
    #      must hand back a fresh empty map (and a zero offset).  Such exits are then outside the scope of the clauses about the terms
    #      (non-binary guard, term loop, result = accumulated map); the constraints / sense guards above were decided with them included.
    triv, cand = trivial_exits(ctx, body, is_map_of(keyty), qubo)
    if cand:
        ctx.check(triv == cand, R + '/result/trivial-empty', 'T-CARRY', body.name, 'an Ok-exit for a missing objective does not return an empty result', body.site(min(cand - triv)) if cand - triv else body.site())
    if triv: body = BodyView(body, triv)
    # ---- no other refusal: assume NONE of the stated refusal conditions holds — constraints empty, sense = V for every V != Maximize,
    #      used ids ⊆ binary ids, (QUBO) every conversion of a term's ids into a pair succeeds — wherever the body inspects them
    #      (all idiom tables above).  Then no Err-exit may be reachable: the export must succeed on every such instance.
    vals = {(bb, l): emp for l, bb, emp, recv in emptiness_tests(body, on_constraints)}
    vals.update(subset_assumptions(ctx, body,
                                   used_of_objective,
                                   lambda b: b.has_call(r'impl v1::Instance>::binary_ids') and not b.has_field(INST, 'objective')))
    frags = inline_pair_fragments(ctx, body, keyty) if qubo else []
    inline_ok = bool(frags) and all(f[1] for f in frags)
    inline_sites = set().union(*[f[3] for f in frags]) if inline_ok else set()
    inline_bails = set().union(*[f[4] for f in frags]) if inline_ok else set()
    if inline_ok:
        if not hasattr(ctx, 'c11_inline_sites'): ctx.c11_inline_sites = set()
        ctx.c11_inline_sites |= {(body.name, bi) for bi in inline_sites}
    if qubo:
        for c in body.calls:
            if re.search(CONV_PAIR, c.name) and not c.dst['p']: vals[(c.bb, c.dst['l'])] = 'Result::Ok'
    SP = EnumProbes(ctx, body, 'v1::instance::Sense', src_need=lambda s: s.has_field(INST, 'sense'))
    extra = set()
    for V in sorted(allowed):
        ctx.counters['cfg_paths'] += 1
        extra |= SP.reach(V, [0], more_vals=vals) & body.err_exits()
    extra -= inline_bails          # "every term has at most two distinct variables": the in-place conversion takes one of its Ok arms
    ctx.check(not extra, R + '/guard/only-stated-refusals', 'T-GUARD', body.name,
              'the export is refused although no active constraint remains, the sense is not Maximize, only binary variables are used%s: Err-exit at %s'
              % (' and every term has at most two distinct variables' if qubo else '', [body.site(b) for b in sorted(extra)][:3]), body.site(min(extra)) if extra else body.site())
    subset_guard(ctx, R + '/guard/only-binaries', body,
                 used_of_objective,
                 lambda b: b.has_call(r'impl v1::Instance>::binary_ids') and not b.has_field(INST, 'objective'), 'used ids ⊆ binary ids')
    # ---- the term loop: a loop over the objective's (ids, coefficient) items that writes the map
    typed_map = is_map_of(keyty)
    map_ctors = [c for c in body.calls if typed_map(c) and c.item in ('new', 'default', 'from', 'from_iter')]
    generic_map = re.compile(r"(BTreeMap|btree_map::(Entry|OccupiedEntry|VacantEntry))::<('_, )?\w+, f64>")      # key = a type parameter (inlined generic helper)
    _ismap = {}
    def is_map(c):
        if c.bb not in _ismap:
            _ismap[c.bb] = bool(typed_map(c)) or (bool(generic_map.search(c.name)) and bool(c.args) and c.args[0]['k'] in ('copy', 'move')
                                                and any(k in sl(c.args[0]).call_objs for k in map_ctors))
        return _ismap[c.bb]
    def term_loop(lo):
        s = sl(lo[0].args[0])
        return s.has_field(INST, 'objective') and any(re.search(r'IntoIterator for &(\'\w+ )?v1::Function>::into_iter', c.name) for c in s.call_objs)
    loops = [lo for lo in T.for_loops(body) if term_loop(lo)]
    ctx.check(bool(loops), R + '/loop/term-iterator', 'T-CARRY', body.name, 'no loop over the terms of the objective', body.site())
    # MAP-WRITE idioms (key operand index): map.entry(k) | map.insert(k, v) | map.get_mut(&k)
    KEYED = {'entry': 1, 'insert': 1, 'get_mut': 1}
    def writes_in(lo): return [c for c in body.calls if c.bb in lo[4] and is_map(c) and 'BTreeMap::<' in c.name and c.item in KEYED]
    wloops = [lo for lo in loops if writes_in(lo)]
    ctx.check(len(wloops) == 1, R + '/loop/writes-map', 'T-LOOPMUST', body.name, 'the map is written in %d loops over the objective terms' % len(wloops), body.site())
    if len(wloops) != 1: return
    lo = wloops[0]; nextc, header, some_bb, none_bb, blocks = lo
    W = writes_in(lo)
    mapcalls = [c for c in body.calls if c.bb in blocks and is_map(c)]
    from_item = lambda s: nextc in s.call_objs
    map_rooted = lambda o: rooted_in(body, o, lambda c: c in mapcalls)
    ctx.check(precedes(body, header, body.strict_ok_exits()), R + '/loop/dominates', 'T-MUSTCALL', body.name, 'term loop does not dominate the Ok-exit', body.site(nextc.bb))
    # STAGED LOOPS (loop fission): the terms may reach the writer loop through a collection filled by an earlier loop over the terms
    # (`let terms = it.filter(..).map(..).collect::<..>(); for t in terms { .. }`).  A stage = (loop, calls that hand the item on).
    # Facts about a term (skip tests, emptiness of its ids, the key conversion and its error) may be established in any stage.
    def feeds(up, down):
        sd = sl(down[0].args[0])
        return [c for c in body.calls if c.bb in up[4] and c.item in ('push', 'push_back', 'insert', 'extend') and c in sd.call_objs and up[0] in sl(c.args[-1]).call_objs]
    stages = []; cur = lo
    for _ in range(4):
        ups = [(u, feeds(u, cur)) for u in loops if u is not cur and not (u[4] & cur[4]) and body.dominates(u[1], cur[1]) and feeds(u, cur)]
        if len(ups) != 1: break
        stages.insert(0, ups[0]); cur = ups[0][0]
    stage_loops = [u for u, f in stages] + [lo]
    any_item = lambda s: any(l[0] in s.call_objs for l in stage_loops)
    # adaptors that survive normalisation (pipeline kept in a local): only a `filter` that is the skip test itself may drop terms
    # GROUPED TERMS: `partition(|(ids, _)| ids.is_empty())` hands the constant terms and the variable terms to two loops
    pclass = partition_class(ctx, body, lo)
    siblings = [l2 for l2 in loops if l2 is not lo and pclass is not None and (partition_class(ctx, body, l2) or (None, None))[0] is pclass[0]]
    restr = []
    for l_ in stage_loops + siblings:
        for x in sl(l_[0].args[0]).call_objs:
            if x.item not in RESTRICTING or 'Iterator' not in (x.trait or ''): continue
            cbs = [ctx.F.bodies.get(cn) for cn in closure_of_operand(body, x.args[1])] if x.item == 'filter' and len(x.args) == 2 else []
            if cbs and all(cb is not None and cb.argc >= 2 and keeps_only_non_negligible(ctx, cb) for cb in cbs): continue
            if x.item not in restr: restr.append(x.item)
    ctx.check(not restr, R + '/loop/all-items', 'T-LOOPMUST', body.name, 'the term iterator is restricted by %s' % sorted(restr), body.site(nextc.bb))
    # keys only through the canonicalising constructors
    aggs = [bi for bi, st in body.stmts() if st['rv']['k'] == 'agg' and re.search(r'sorted_ids::Binary(Ids|IdPair)$', st['rv']['adt'])]
    aggs = [bi for bi in aggs if bi not in inline_sites]          # a construction in place that satisfies the canonical-pair clauses is a conversion
    badfr = [f for f in frags if not f[1]]
    ctx.check(not aggs, R + '/keys/no-direct-construction', 'T-CARRY', body.name, 'key constructed directly at %s%s' % ([body.site(b) for b in aggs],
              ('; the in-place conversion fails: ' + ', '.join(badfr[0][2])) if badfr else ''), body.site())
    conv = CONV_PAIR if qubo else CONV_SET
    inline_locals = {st['dst']['l'] for bi, st in body.stmts() if bi in inline_sites and st['rv']['k'] == 'agg' and st['rv']['adt'].endswith('sorted_ids::BinaryIdPair')}
    def key_ok(ks): return from_item(ks) and (ks.has_call(conv) or bool(inline_locals & ks.locals))
    badk = [c for c in W if not key_ok(sl(c.args[KEYED[c.item]]))]
    ctx.check(not badk, R + '/keys/from-term-ids', 'T-CARRY', body.name, 'map key is not the canonicalised id set of the term', body.site((badk or W)[0].bb), sites=len(W))
    if qubo:
        tf = [c for c in body.calls if re.search(CONV_PAIR, c.name) and any(c.bb in l_[4] for l_ in stage_loops) and any_item(sl(c.args[0]))]
        ctx.check(len(tf) >= 1 or inline_ok, R + '/guard/degree/try_from', 'T-GUARD', body.name, 'BinaryIdPair::try_from not called', body.site())
        if inline_ok and not tf:
            # the degree refusal is the bail of the in-place conversion: lengths other than 1 / 2 reach only Err-exits (decided by the fragment clauses)
            ctx.ok(R + '/guard/degree/propagates', 'T-ERRFLOW', body.site(min(inline_bails)), how='bail of the in-place conversion')
        # path formulation of `?` / match / let-else / map_err..: if try_from returns Err, no Ok-exit is reachable
        leaks = []
        for c in tf:
            ctx.counters['cfg_paths'] += 1
            r = reach_v(body, [c.target], {c.dst['l']: 'Result::Err'}) if c.target >= 0 and not c.dst['p'] else body.reach([c.target])
            if (r & body.strict_ok_exits()) or not (r & body.err_exits()): leaks.append(c)
        if tf:
            ctx.check(not leaks, R + '/guard/degree/propagates', 'T-ERRFLOW', body.name, 'an Err of BinaryIdPair::try_from can reach an Ok-exit', body.site((leaks or tf)[0].bb))
    # ---- accumulate: map[key] = (old value or 0) + c
    # INSERT idioms (value operand index): entry.or_insert(v) | entry.or_insert_with(f) | vacant.insert(v) | map.insert(k, v)
    ins = []
    for c in mapcalls:
        if c.item in ('or_insert', 'or_insert_with'): ins.append((c, c.args[1]))
        elif c.item == 'insert' and 'VacantEntry' in c.name: ins.append((c, c.args[1]))
        elif c.item == 'insert' and 'BTreeMap::<' in c.name: ins.append((c, c.args[2]))
        elif c.item == 'or_default': ins.append((c, None))
    ctx.check(bool(ins), R + '/accumulate/inserts', 'T-LOOPMUST', body.name, 'no insertion of a new entry in the loop', body.site(nextc.bb))
    # ADD idioms: `*slot += c` with slot a reference into the map (and_modify closure, get_mut, or_insert result, ..)
    #             | `map.insert(k, old + c)` | `slot.add_assign(c)`
    adds = []          # (bb of the accumulation, description)
    for bi, st in body.stmts():
        rv = st['rv']
        if bi in blocks and rv['k'] == 'bin' and rv['op'] == 'Add' and rv.get('ty') == 'f64':
            a, b_ = rv['ops']
            if not ((map_rooted(a) and not map_rooted(b_) and from_item(sl(b_))) or (map_rooted(b_) and not map_rooted(a) and from_item(sl(a)))): continue
            d = st['dst']
            into_map = (d['p'] and map_rooted({'k': 'copy', 'pl': d})) or any(v is not None and v['k'] in ('copy', 'move') and d['l'] in sl(v).locals for c, v in ins)
            if into_map: adds.append((bi, 'bin Add'))
    for c in mapcalls:
        if c.item == 'and_modify':
            for cn in sl(c.args[1]).closures:
                cb = ctx.F.bodies.get(cn)
                if cb is None or cb.argc < 2: continue
                for bi, st in cb.stmts():
                    rv = st['rv']
                    if rv['k'] == 'bin' and rv['op'] == 'Add' and rv.get('ty') == 'f64' and st['dst']['l'] == 2 and st['dst']['p']:
                        o = [x for x in rv['ops'] if x['k'] in ('copy', 'move')]
                        self_op = [x for x in o if x['pl']['l'] == 2]; other = [x for x in o if x['pl']['l'] != 2]
                        if self_op and other and 1 in S.slice_operand(cb, other[0]).params and from_item(sl(c.args[1])):
                            adds.append((c.bb, 'and_modify(+=)'))
    for c in body.calls:
        m = T.ASSIGN_CALL.match(c.name)
        if m and m.group(1) == 'Add' and c.bb in blocks and map_rooted(c.args[0]) and from_item(sl(c.args[1])): adds.append((c.bb, 'add_assign'))
        # TAKE-OUT / PUT-BACK: `map.remove(&k).map_or(c, |old| old + c)` / `.map(|old| old + c)`: the sum is formed in the closure of an
        # Option combinator whose receiver is the value taken out of (or read from) the map
        if c.bb in blocks and c.item in ('map', 'map_or', 'map_or_else') and re.search(r'Option::<.*>::(map|map_or|map_or_else)', c.name) and c.args and map_rooted(c.args[0]):
            for cn in closure_of_operand(body, c.args[-1]):
                cb = ctx.F.bodies.get(cn)
                if cb is None or cb.argc < 2: continue
                for bi, st in cb.stmts():
                    rv = st['rv']
                    if rv['k'] == 'bin' and rv['op'] == 'Add' and rv.get('ty') == 'f64':
                        srcs = [S.slice_operand(cb, o).params for o in rv['ops']]
                        if (2 in srcs[0] and 1 in srcs[1] and 2 not in srcs[1]) or (2 in srcs[1] and 1 in srcs[0] and 2 not in srcs[0]):
                            if from_item(sl(c.args[-1])): adds.append((c.bb, c.item + '(+)'))
    ctx.check(bool(adds), R + '/accumulate/add', 'T-BRANCHFX', body.name, 'existing entry is not updated with `+= c`', body.site(nextc.bb))
    zero_ins = []; badi = []
    for c, v in ins:
        k0 = const_operand(body, v) if v is not None else None
        if v is None or (k0 is not None and T.f64_const(k0['v']) == 0.0):
            # `*entry.or_insert(0.0) += c` / or_default: the addition must be applied to this slot on every path
            zero_ins.append(c)
            if not (c.target >= 0 and any(must_pass_v(body, c.target, {header}, {bi}) for bi, _ in adds)): badi.append((c, 'a zero entry is inserted without adding the coefficient'))
        elif not from_item(sl(v)): badi.append((c, 'inserted value is not the term coefficient'))
    if ins:
        ctx.check(not badi, R + '/accumulate/insert-coefficient', 'T-CARRY', body.name, badi[0][1] if badi else '', body.site((badi[0][0] if badi else ins[0][0]).bb), sites=len(ins))
    # ---- zero filter after accumulation
    tests = negligible_tests(ctx, body, blocks)
    post = []; pre = []
    for bi, st, x, small_true, kind in tests:
        if map_rooted(x):
            if kind != 'nan': post.append((bi, st, small_true))
        elif from_item(sl(x)): pre.append((bi, st, small_true, kind))
    ctx.check(bool(post), R + '/zero/filter-present', 'T-BRANCHFX', body.name, 'no |value| < EPSILON test on the accumulated entry', body.site(nextc.bb))
    # REMOVE idioms: map.remove(&key) with the term's key | occupied_entry.remove() / remove_entry() of the entry of the term's key
    def removals(region):
        out = []
        for c in mapcalls:
            if c.bb not in region or c.item not in ('remove', 'remove_entry'): continue
            if 'BTreeMap::<' in c.name and from_item(sl(c.args[1])): out.append(c)
            elif 'OccupiedEntry' in c.name and any(w in sl(c.args[0]).call_objs for w in W): out.append(c)
        return out
    filt_bbs = set(); rm_bbs = set(); big_sides = []; badp = []
    for bi, st, small_true in post:
        okk = False
        for sb, neg in T.bool_flow(body, st['dst']['l']):
            t, f = T.switch_sides(body, sb, neg)
            small, big = (t, f) if small_true else (f, t)
            if small is None: continue
            sreg = body.reach([small], stop={header}); breg = body.reach([big], stop={header}) if big is not None else set()
            rm = [c for c in removals(sreg) if c.bb not in breg]
            ctx.counters['cfg_paths'] += 1
            if rm and must_pass_v(body, small, {header}, {c.bb for c in rm}):
                okk = True; rm_bbs |= {c.bb for c in rm}; big_sides.append((sb, small))
            else:
                # take-out / put-back: the entry was removed under the term's key BEFORE the test (the removal dominates it) and the
                # small side puts nothing back
                pre_rm = [c for c in removals(blocks) if body.dominates(c.bb, bi) and c.bb != bi]
                puts = [c for c in mapcalls if c.bb in sreg and c.item in ('insert', 'entry', 'or_insert', 'or_insert_with', 'or_default', 'get_mut')]
                if pre_rm and not puts:
                    okk = True; rm_bbs |= {c.bb for c in pre_rm}; big_sides.append((sb, small))
        if okk: filt_bbs.add(bi)
        else: badp.append(bi)
    if post:
        ctx.check(not badp, R + '/zero/removes-key', 'T-BRANCHFX', body.name, 'a vanishing entry is not removed from the map under its key', body.site((badp or [post[0][0]])[0]), tests=len(post))
    bada = []
    for bi, how in adds:
        ctx.counters['cfg_paths'] += 1
        if not must_pass_v(body, bi, {header}, filt_bbs): bada.append((bi, how))
    if adds:
        ctx.check(not bada, R + '/zero/after-every-accumulation', 'T-LOOPMUST', body.name,
                  'a sum (%s) can stay in the map without the |value| < EPSILON test' % (bada[0][1] if bada else ''), body.site((bada or adds)[0][0]), sums=len(adds))
    # tests of the coefficient itself: on their "small" side the term is known to be negligible (or NaN), whatever the
    # code then does with it (skip it, `continue`, fall into an `|| c.is_nan()` alternative, ..)
    skips = []         # (bb of the switch, small target)   magnitude tests only: their other side proves |c| > EPSILON
    tiny = set()       # small targets of all of them
    wbbs = {c.bb for c in W}
    for bi, st, small_true, kind in pre:
        for sb, neg in T.bool_flow(body, st['dst']['l']):
            t, f = T.switch_sides(body, sb, neg)
            small = t if small_true else f
            if small is None: continue
            tiny.add(small)
            if kind != 'nan': skips.append((sb, small))
    # no zero can be stored: a fresh entry is either tested afterwards or known to be non-negligible
    badz = []
    for c, v in ins:
        if c in zero_ins: continue
        ctx.counters['cfg_paths'] += 1
        tested = c.target >= 0 and must_pass_v(body, c.target, {header}, filt_bbs)
        # .. by a skip test on the coefficient, or by the filter itself when the sum is stored only on its "big" side
        known_big = any(body.dominates(sb, c.bb) and c.bb not in body.reach([small], stop={header}) for sb, small in skips + big_sides)
        if not (tested or known_big): badz.append(c)
    if ins:
        ctx.check(not badz, R + '/zero/no-zero-inserted', 'T-BRANCHFX', body.name, 'a new entry is stored without any |.| vs EPSILON test', body.site((badz[0] if badz else ins[0][0]).bb))
    # a term is accounted for when it reaches a write of the map under its key (incl. the removal of a cancelled sum) or is negligible
    via = set(wbbs) | rm_bbs | tiny
    if qubo:
        # constant term: empty id list => added to the offset, which is returned unchanged
        def on_ids(c): return any_item(sl(c.args[0]))
        okc = []
        empties = []          # blocks of the writer loop entered exactly when the term has no ids
        for l, bb, emp, recv in emptiness_tests(body, on_ids):
            for sb, neg in T.bool_flow(body, l):
                t, f = T.switch_sides(body, sb, neg)
                e_bb, n_bb = (t, f) if emp else (f, t)
                if e_bb is None or n_bb is None: continue
                if bb in blocks: empties.append(e_bb); continue
                # EMPTY test in an earlier stage: its outcome travels as a MARKER — an enum variant (Option::None, ..) built only on
                # the empty side, another one only on the other side, inside the record handed on; the writer loop tests the marker
                st_ = [u for u, f_ in stages if bb in u[4]]
                if not st_: continue
                ereg = body.reach([e_bb], stop={st_[0][1]}); nreg = body.reach([n_bb], stop={st_[0][1]})
                mk = {}
                for bi, st in body.stmts():
                    rv = st['rv']
                    if rv['k'] == 'agg' and '::' in rv['adt'] and not st['dst']['p'] and ((bi in ereg) != (bi in nreg)):
                        mk.setdefault(st['dst']['l'], {})[bi in ereg] = rv['adt']
                for ml, sides in mk.items():
                    if set(sides) != {True, False} or sides[True] == sides[False]: continue
                    d_empty = variant_discr(ctx, sides[True]); d_other = variant_discr(ctx, sides[False])
                    if d_empty is None or d_other is None: continue
                    for bi2 in sorted(blocks):
                        t2 = body.blocks[bi2]['term']
                        if t2['k'] != 'switch' or t2['d']['k'] == 'const' or t2['d']['pl']['p']: continue
                        dd = single_def(body, t2['d']['pl']['l'])
                        if not dd or dd[0] != 'stmt' or dd[2]['rv']['k'] != 'discr': continue
                        ms = S.backslice(body, [node_of_place(dd[2]['rv']['pl'])])
                        if ml not in ms.locals or nextc not in ms.call_objs: continue
                        m2 = {v: tg for v, tg in t2['ts']}
                        te, to = m2.get(d_empty, t2['else']), m2.get(d_other, t2['else'])
                        if te != to: empties.append(te)
        def offset_adds(region, nx):
            """f64 additions in `region` with exactly one operand coming out of the loop item `nx` (the increment)"""
            out = []
            for bi, st in body.stmts():
                rv = st['rv']
                if bi in region and rv['k'] == 'bin' and rv['op'] == 'Add' and rv.get('ty') == 'f64':
                    if sum(1 for o in rv['ops'] if rooted_in(body, o, lambda c: c is nx)) == 1: out.append(bi)
            return out
        const_next = nextc
        # EMPTY idiom without a bool: `match ids.len() { 0 => .., _ => .. }` — a switch on the length itself
        for c in body.calls:
            if c.item == 'len' and c.args and c.bb in blocks and on_ids(c) and not c.dst['p']:
                lens = plain_copies_of(body, c.dst['l'])
                for bi2 in sorted(blocks):
                    t2 = body.blocks[bi2]['term']
                    if t2['k'] == 'switch' and t2['d']['k'] != 'const' and not t2['d']['pl']['p'] and t2['d']['pl']['l'] in lens:
                        m2 = {v: tg for v, tg in t2['ts']}
                        if 0 in m2 and m2[0] != t2['else']: empties.append(m2[0])
        for empty_bb in empties:
            treg = body.reach([empty_bb], stop={header})
            if treg & wbbs: continue
            for bi in offset_adds(treg, nextc):
                if not must_pass_v(body, empty_bb, {header}, {bi}): continue
                okc.append((None, bi)); via.add(empty_bb)
        if not okc and pclass is not None and pclass[1] == 'nonempty':
            # the constant terms are the other component of the partition: its loop adds every item's coefficient to the offset
            for l2 in siblings:
                if partition_class(ctx, body, l2)[1] != 'empty' or not precedes(body, l2[1], body.strict_ok_exits()): continue
                for bi in offset_adds(l2[4], l2[0]):
                    ctx.counters['cfg_paths'] += 1
                    if must_pass_v(body, l2[2], {l2[1]}, {bi}): okc.append((None, bi)); const_next = l2[0]
        if okc: constant_rules(ctx, R, body, okc[0][1], const_next)
        ctx.check(bool(okc), R + '/constant/empty-ids', 'T-BRANCHFX', body.name, 'terms with no ids are not accumulated into the offset', body.site())
    ctx.counters['cfg_paths'] += 1
    lost = None if must_pass_v(body, some_bb, {header}, via) else nextc.bb
    for u, fcalls in stages:
        # earlier stage: every term is handed on to the next stage or is negligible (an Err leaves the loop)
        ctx.counters['cfg_paths'] += 1
        utiny = set()
        for bi, st, x, small_true, kind in negligible_tests(ctx, body, u[4]):
            if u[0] not in sl(x).call_objs: continue
            for sb, neg in T.bool_flow(body, st['dst']['l']):
                t, f = T.switch_sides(body, sb, neg)
                small = t if small_true else f
                if small is not None: utiny.add(small)
        if lost is None and not must_pass_v(body, u[2], {u[1]}, {c.bb for c in fcalls} | utiny): lost = u[0].bb
    ctx.check(lost is None, R + '/loop/every-term', 'T-LOOPMUST', body.name, 'a term can bypass the map without being tiny', body.site(lost if lost is not None else nextc.bb), stages=len(stages) + 1)
    # result is the accumulated map
    rets = [(bi, st) for bi, k, st in body.ret_assignments() if k == 'ok']
    badr = [bi for bi, r in rets if not any(c in sl(r['rv']['ops'][0]).call_objs for c in W)]
    ctx.check(bool(rets) and not badr, R + '/result/is-the-map', 'T-CARRY', body.name, 'returned value is not the accumulated map', body.site(badr[0]) if badr else body.site())


def plain_copies_of(body, l):
    """locals that are plain copies of local l (forward)"""
    return T.copies_of(body, l, through_refs=False, through_deref=False)


def plain_source(body, o, depth=8):
    """the local an operand is a plain copy of (no arithmetic in between)"""
    if o['k'] not in ('copy', 'move') or o['pl']['p']: return None
    l = o['pl']['l']; chain = {l}
    for _ in range(depth):
        d = single_def(body, l)
        if d and d[0] == 'stmt' and d[2]['rv']['k'] == 'use' and d[2]['rv']['ops'][0]['k'] in ('copy', 'move') and not d[2]['rv']['ops'][0]['pl']['p']:
            l = d[2]['rv']['ops'][0]['pl']['l']; chain.add(l)
        else: break
    return chain


OKISH = ('Ok', 'Some', 'Continue')


def value_web(body, start_local, start_stack, is_increment, max_nodes=4000, origins=None):
    """Where does a scalar come from, following pure CARRIES backwards through every definition: copies, references, tuples and
    success variants built and taken apart again (`(a, b)` .. `.1`, `Ok(x)` .. `as Ok.0`, Try::branch, anyhow::Ok(..)), loop state
    threaded through a fold accumulator, writes through `&mut` captures — and through accumulating additions `x = x' + inc` whose
    increment satisfies is_increment (followed on the other operand).  Returns (consts, add sites, other origins); the locals whose
    definition is not a carry (the value is computed there) are appended to `origins` when given."""
    norm = lambda p: [('f', q['f']) if 'f' in q else ('dc', q['dc']) for q in p if isinstance(q, dict) and ('f' in q or 'dc' in q)]
    consts = set(); adds = set(); others = []
    seen = set(); work = [(start_local, tuple(start_stack))]
    def push(o, stack):
        if o['k'] == 'const':
            if not stack: consts.add(o['v'])
            else: others.append('const under projection')
        elif o['k'] in ('copy', 'move'): work.append((o['pl']['l'], tuple(norm(o['pl']['p'])) + tuple(stack)))
        else: others.append('?')
    # writes through references: (*r) = rv  counts as a definition of the local r points to
    ref_writes = {}
    for bi, st in body.stmts():
        d = st['dst']
        if d['p'] and d['p'][0] == '*':
            tgt = resolve_ref_local(body, {'l': d['l'], 'p': ['*']})
            if tgt is not None: ref_writes.setdefault(tgt, []).append((bi, st, norm(d['p'])))
    while work:
        l, stack = work.pop()
        if (l, stack) in seen: continue
        seen.add((l, stack))
        if len(seen) > max_nodes: others.append('too many nodes'); break
        if 1 <= l <= body.argc: others.append('parameter _%d' % l); continue
        defs = [(k, bi, d, norm(d['dst']['p']) if k == 'stmt' else []) for k, bi, d in body.defs_of(l)]
        defs += [('stmt', bi, st, dp) for bi, st, dp in ref_writes.get(l, [])]
        if not defs: others.append('undefined _%d' % l)
        for k, bi, d, dproj in defs:
            st_ = list(stack)
            if dproj:
                if st_[:len(dproj)] != dproj: continue          # a write to another part of the value
                st_ = st_[len(dproj):]
            if k == 'call':
                nm = d['r'] or d['f']; a0 = d['args'][0] if d['args'] else None
                if 'FromResidual' in nm and nm.endswith('from_residual'): continue                  # the error variant: not on a success projection
                if T.TRY_BRANCH.search(nm) and st_[:1] == [('dc', 'Continue')] and a0 is not None: push(a0, [('dc', 'OKISH')] + st_[1:]); continue
                if any(rx.search(nm) for rx, v in V_CTOR if v != 'Result::Err') and st_[:2] and st_[0][0] == 'dc' and st_[0][1] in OKISH + ('OKISH',) and a0 is not None:
                    push(a0, st_[2:]); continue
                if T.TRANSPARENT.search(T.strip_generics_tail(nm)) and a0 is not None and not st_: push(a0, st_); continue
                others.append('call ' + (d.get('ri') or {}).get('item', '?'))
                if origins is not None and not st_: origins.append(l)
                continue
            rv = d['rv']; kk = rv['k']
            if kk == 'use': push(rv['ops'][0], st_)
            elif kk == 'ref': push({'k': 'copy', 'pl': rv['pl']}, st_)
            elif kk == 'agg' and rv['adt'] == 'tuple':
                if st_ and st_[0][0] == 'f' and st_[0][1].isdigit() and int(st_[0][1]) < len(rv['ops']): push(rv['ops'][int(st_[0][1])], st_[1:])
                else: others.append('whole tuple')
            elif kk == 'agg' and rv['adt'].split('::')[-1] in OKISH + ('Err', 'None', 'Break'):
                name = rv['adt'].split('::')[-1]
                if st_[:1] and st_[0][0] == 'dc':
                    if name in OKISH and st_[0][1] in (name, 'OKISH') and len(st_) >= 2 and rv['ops']: push(rv['ops'][0], st_[2:])
                    # another variant than the one projected: not on this path
                else: others.append('whole ' + name)
            elif kk == 'bin' and rv['op'] == 'Add' and rv.get('ty') == 'f64' and not st_:
                a, b = rv['ops']
                ia, ib = is_increment(a), is_increment(b)
                if ia != ib:
                    adds.add(bi); push(b if ia else a, [])
                else:
                    others.append('Add of two %s operands' % ('increment' if ia else 'non-increment'))
                    if origins is not None: origins.append(l)
            elif kk == 'cast' and origins is None: push(rv['ops'][0], st_)
            else:
                others.append(kk + (' ' + rv.get('op', '') if kk in ('bin', 'un') else ''))
                if origins is not None and not st_: origins.append(l)
    return consts, adds, others


def constant_rules(ctx, R, body, add_bb, nextc):
    """the QUBO offset (component 1 of the returned pair), followed backwards from the Ok-result through every carry:
    it starts at 0, only grows by the coefficients of the constant terms, and is returned as it is"""
    consts, adds, others = value_web(body, 0, [('dc', 'Ok'), ('f', '0'), ('f', '1')], lambda o: rooted_in(body, o, lambda c: c is nextc))      # increment = comes out of the loop item by its unique definitions
    ctx.counters['slices'] += 1
    vals = sorted({T.f64_const(v) if T.f64_const(v) is not None else v for v in consts}, key=str)
    ctx.check(vals == [0.0], R + '/constant/starts-at-zero', 'T-CONST', body.name, 'the offset accumulator is initialised with %s' % vals, body.site(add_bb))
    ctx.check(add_bb in adds, R + '/constant/returned', 'T-CARRY', body.name, 'the accumulated constant is not part of the result', body.site(add_bb))
    ctx.check(not others, R + '/constant/returned-unchanged', 'T-CARRY', body.name, 'the returned offset is not the accumulator itself: %s' % sorted(set(others))[:4], body.site(add_bb))


def binary_ids_rules(ctx, R):
    """binary_ids(): exactly the ids of the decision variables whose kind is Binary"""
    bids = ctx.method(R + '/binary_ids/anchor', INST, 'binary_ids')
    if bids is None: return
    S = ctx.S
    ret = S.backslice(bids, [0])
    # COLLECT idioms (normal form): set.insert(id) | vec.push(id) inside a loop over decision_variables — whatever the
    # chain was (filter+map, filter_map with match / then_some, for + if): per kind V, assume every test of the item's
    # kind yields V and ask whether the item's id can reach the collection
    ok = False; detail = 'no loop over decision_variables that collects ids'
    for lo in T.for_loops(bids):
        nextc, header, some_bb, none_bb, blocks = lo
        if not S.slice_operand(bids, nextc.args[0]).has_field(INST, 'decision_variables'): continue
        sinks = [c for c in bids.calls if c.bb in blocks and c.item in ('insert', 'push') and c in ret.call_objs]
        sinks = [c for c in sinks if S.slice_operand(bids, c.args[-1]).has_field('v1::DecisionVariable', 'id') and nextc in S.slice_operand(bids, c.args[-1]).call_objs]
        if not sinks: detail = 'the loop over decision_variables does not collect the variable ids'; continue
        P = EnumProbes(ctx, bids, 'v1::decision_variable::Kind', src_need=lambda s: nextc in s.call_objs, blocks=blocks)
        if not P: detail = 'no test of kind() guards the collected ids'; continue
        sbbs = {c.bb for c in sinks}
        reaching = []
        for V in P.variants:
            ctx.counters['cfg_paths'] += 1
            if P.reach(V, [some_bb], stop={header}) & sbbs: reaching.append(V)
        detail = 'ids of kinds %s are collected' % sorted(reaching)
        if reaching == ['Binary']: ok = True
    ctx.check(ok, R + '/binary_ids/filter-binary', 'T-BRANCHFX', bids.name, 'binary_ids does not keep exactly the Binary variables (%s)' % detail, bids.site())


# =============================================================================================
# BinaryIdPair::try_from(Vec<u64>) — canonical pair
# =============================================================================================
DOM = frozenset(range(0, 8))          # abstract lengths 0..6 exact, 7 = "7 or more"
LEN_KEEPING = ('sort', 'sort_unstable', 'sort_by', 'sort_unstable_by', 'sort_by_key', 'sort_unstable_by_key', 'sort_by_cached_key',
               'deref_mut', 'as_mut_slice', 'as_mut', 'iter_mut', 'reverse', 'swap', 'borrow_mut', 'index_mut')
THROUGH = re.compile(r'::(deref|deref_mut|as_slice|as_mut_slice|as_ref|as_mut|borrow|borrow_mut|index|index_mut|copied|cloned|unwrap|expect|clone|iter|into_iter|as_deref)(::<.*>)?$')


class PairShape:
    """symbolic walk of the (loop-free) body of try_from(ids): which lengths of `ids` reach which exit,
    which element of `ids` an operand is, which order facts hold on the way"""
    def __init__(self, ctx, body, root=1, root_pred=None, start=0, ok_bbs=None, stop=()):
        """whole function (ids = parameter `root`), or a FRAGMENT of a body: ids = whatever satisfies root_pred(slice), walked from block
        `start`, "Ok" = reaching a block of ok_bbs, not continuing into `stop`"""
        self.ctx = ctx; self.b = body; self.root = root; self.root_pred = root_pred
        self.start = start; self.ok_bbs = ok_bbs; self.stop = set(stop)
        self.unknown_tests = set(); self.err_lens_by_bb = {}
        self._from_root = {}

    def from_root(self, l):
        if l is None: return False
        if l not in self._from_root:
            sl_ = self.ctx.S.backslice(self.b, [l])
            self._from_root[l] = self.root_pred(sl_) if self.root_pred is not None else (self.root in sl_.params)
        return self._from_root[l]

    # ---- what is this place?
    def resolve(self, pl, depth=24):
        """('elem', pos) element of ids, pos = ('s', k) k-th from the start | ('e', k) k-th from the end
           ('opt', pos)  Option of that element (first / last / get(k)): Some iff the element exists
           ('len',)      ids.len()
           ('call', Call) result of another call | None"""
        b = self.b; l = pl['l']; proj = list(pl['p'])
        for _ in range(depth):
            for p in proj:
                if isinstance(p, dict) and 'cix' in p:
                    return ('elem', ('e', p['cix'] - 1) if p.get('fe') else ('s', p['cix'])) if self.from_root(l) else None
                if isinstance(p, dict) and 'ix' in p: return None
            if 1 <= l <= b.argc: return ('param', l)
            d = single_def(b, l)
            if d is None: return None
            kind, bi, x = d
            if kind == 'call':
                c = [y for y in b.calls if y.bb == bi][0]
                a0 = c.args[0] if c.args else None
                recv_ok = a0 is not None and a0['k'] in ('copy', 'move') and self.from_root(a0['pl']['l'])
                # first()/last() of the id sequence: slice / Vec, or the BTreeSet the ids live in (iteration order = sorted order)
                if c.item in ('first', 'last') and recv_ok and re.search(r'slice::<impl \[|Vec::<|BTreeSet::<', c.name): return ('opt', ('s', 0) if c.item == 'first' else ('e', 0))
                if c.item == 'get' and recv_ok and len(c.args) == 2 and usize_const(const_operand(b, c.args[1]) or {'k': ''}) is not None:
                    return ('opt', ('s', usize_const(const_operand(b, c.args[1]))))
                if c.item == 'len' and recv_ok: return ('len',)
                # k-th `next()` of one iterator over the (sorted, duplicate-free) ids, taken in straight-line code: Option of element k
                if c.item == 'next' and 'Iterator' in (c.trait or '') and recv_ok and T.loop_of_next(b, c) is None:
                    it = self.iter_local(a0)
                    if it is not None:
                        before = [y for y in b.calls if y is not c and y.item == 'next' and 'Iterator' in (y.trait or '') and y.args and self.iter_local(y.args[0]) == it]
                        if all(b.dominates(y.bb, c.bb) or b.dominates(c.bb, y.bb) for y in before):
                            return ('opt', ('s', sum(1 for y in before if b.dominates(y.bb, c.bb))))
                    return None
                # ORDER idiom: a.min(b) / a.max(b) / std::cmp::min(a, b) of two elements
                if c.item in ('min', 'max') and len(c.args) == 2 and re.search(r'cmp::Ord>::(min|max)$|std::cmp::(min|max)(::<.*>)?$', c.name):
                    rs = [self.resolve(a['pl'], depth - 1) if a['k'] in ('copy', 'move') else None for a in c.args]
                    if all(r and r[0] in ('elem', 'opt') for r in rs): return ('minmax', c.item, frozenset([rs[0][1], rs[1][1]]))
                    return None
                if c.item in ('index', 'index_mut') and recv_ok and len(c.args) == 2:
                    k = const_operand(b, c.args[1])
                    if k is not None and usize_const(k) is not None: return ('elem', ('s', usize_const(k)))
                if THROUGH.search(T.strip_generics_tail(c.name)) and a0 is not None and a0['k'] in ('copy', 'move'):
                    l = a0['pl']['l']; proj = list(a0['pl']['p']) + proj; continue
                return ('call', c)
            rv = x['rv']; k = rv['k']
            if k == 'use' and rv['ops'][0]['k'] in ('copy', 'move'):
                p2 = rv['ops'][0]['pl']; l = p2['l']; proj = list(p2['p']) + proj; continue
            if k == 'ref':
                p2 = rv['pl']; l = p2['l']; proj = list(p2['p']) + [q for q in proj]; continue
            if k == 'agg' and rv['adt'] == 'tuple':
                fi = [i for i, q in enumerate(proj) if isinstance(q, dict) and 'f' in q]
                if not fi: return None
                q = proj[fi[0]]
                if not q['f'].isdigit() or int(q['f']) >= len(rv['ops']): return None
                o = rv['ops'][int(q['f'])]
                if o['k'] not in ('copy', 'move'): return None
                l = o['pl']['l']; proj = list(o['pl']['p']) + proj[fi[0] + 1:]; continue
            if k == 'un' and rv['op'] == 'PtrMetadata' or k == 'len':
                o = rv['ops'][0] if rv.get('ops') else {'k': 'copy', 'pl': rv['pl']}
                if o['k'] in ('copy', 'move') and self.from_root(o['pl']['l']): return ('len',)
                return None
            if k == 'cast' and rv['ops'][0]['k'] in ('copy', 'move'):
                p2 = rv['ops'][0]['pl']; l = p2['l']; proj = list(p2['p']) + proj; continue
            return None
        return None

    def iter_local(self, o):
        """the iterator variable a `&mut it` operand refers to"""
        if o['k'] not in ('copy', 'move'): return None
        l = o['pl']['l']
        for _ in range(4):
            d = single_def(self.b, l)
            if d and d[0] == 'stmt' and d[2]['rv']['k'] == 'ref' and d[2]['rv']['pl']['p'] in ([], ['*']): l = d[2]['rv']['pl']['l']; continue
            if d and d[0] == 'stmt' and d[2]['rv']['k'] == 'use' and d[2]['rv']['ops'][0]['k'] in ('copy', 'move') and not d[2]['rv']['ops'][0]['pl']['p']: l = d[2]['rv']['ops'][0]['pl']['l']; continue
            break
        return l

    def pred(self, l, depth=6):
        """predicate held by a bool / discriminant local: ('len', op, k) | ('some', pos) | ('empty',) |
        ('cmp', op, posA, posB) | ('not', p) | ('lenval',) | None"""
        b = self.b
        d = single_def(b, l)
        if d is None or depth == 0: return None
        kind, bi, x = d
        if kind == 'call':
            c = [y for y in b.calls if y.bb == bi][0]
            if T.NOT_CALL.search(c.name) and c.arg_local(0) is not None:
                p = self.pred(c.arg_local(0), depth - 1); return ('not', p) if p else None
            if c.item == 'is_empty' and c.arg_local(0) is not None and self.from_root(c.arg_local(0)): return ('empty',)
            if c.item in ('is_some', 'is_none') and c.args[0]['k'] in ('copy', 'move'):
                r = self.resolve(c.args[0]['pl'])
                if r and r[0] == 'opt': return ('some', r[1]) if c.item == 'is_some' else ('not', ('some', r[1]))
            if c.item in ('le', 'lt', 'ge', 'gt') and 'PartialOrd' in (c.trait or c.name) and len(c.args) == 2:
                ra = [self.resolve(a['pl']) if a['k'] in ('copy', 'move') else None for a in c.args]
                if all(r and r[0] in ('elem', 'opt') for r in ra): return ('cmp', c.item.capitalize(), ra[0][1], ra[1][1])
            if c.item == 'len' and c.arg_local(0) is not None and self.from_root(c.arg_local(0)): return ('lenval',)
            return None
        rv = x['rv']; k = rv['k']
        if k == 'use' and rv['ops'][0]['k'] in ('copy', 'move') and not rv['ops'][0]['pl']['p']: return self.pred(rv['ops'][0]['pl']['l'], depth - 1)
        if k == 'un' and rv['op'] == 'Not' and rv['ops'][0]['k'] in ('copy', 'move'):
            p = self.pred(rv['ops'][0]['pl']['l'], depth - 1); return ('not', p) if p else None
        if k == 'un' and rv['op'] == 'PtrMetadata':
            return ('lenval',) if self.resolve({'l': l, 'p': []}) == ('len',) else None
        if k == 'discr':
            r = self.resolve(rv['pl'])
            if r and r[0] == 'opt': return ('some', r[1])
            return None
        if k == 'bin' and rv['op'] in FLIP:
            a, c2 = rv['ops']; op = rv['op']
            ka, kb = const_operand(b, a), const_operand(b, c2)
            ra = self.resolve(a['pl']) if a['k'] in ('copy', 'move') and ka is None else None
            rb = self.resolve(c2['pl']) if c2['k'] in ('copy', 'move') and kb is None else None
            if ra == ('len',) and kb is not None and usize_const(kb) is not None: return ('len', op, usize_const(kb))
            if rb == ('len',) and ka is not None and usize_const(ka) is not None: return ('len', FLIP[op], usize_const(ka))
            if ra and rb and ra[0] in ('elem', 'opt') and rb[0] in ('elem', 'opt') and op in ('Le', 'Lt', 'Ge', 'Gt'): return ('cmp', op, ra[1], rb[1])
        return None

    @staticmethod
    def exists(pos, n): return n > pos[1]

    def apply(self, p, truth, lens, facts):
        """restrict (lens, facts) by predicate p having value `truth`"""
        if p[0] == 'not': return self.apply(p[1], not truth, lens, facts)
        if p[0] == 'len':
            op, k = p[1], p[2]
            if k > 5: return lens, facts
            f = {'Eq': lambda n: n == k, 'Ne': lambda n: n != k, 'Lt': lambda n: n < k, 'Le': lambda n: n <= k, 'Gt': lambda n: n > k, 'Ge': lambda n: n >= k}[op]
            return frozenset(n for n in lens if f(n) == truth), facts
        if p[0] == 'some': return frozenset(n for n in lens if self.exists(p[1], n) == truth), facts
        if p[0] == 'empty': return frozenset(n for n in lens if (n == 0) == truth), facts
        if p[0] == 'cmp':
            op, A, B = p[1], p[2], p[3]
            le = (A, B) if (op in ('Le', 'Lt')) == truth else (B, A)       # le[0] <= le[1]  (strictness is not needed)
            return lens, facts | {le}
        return lens, facts

    def walk(self):
        """returns (ok_lens, err_lens, pair sites [(bb, stmt, lens, facts)])"""
        b = self.b; oks = b.strict_ok_exits() if self.ok_bbs is None else set(self.ok_bbs); errs = b.err_exits()
        ok_lens = set(); err_lens = set(); pairs = []
        seen = set(); work = [(self.start, DOM, frozenset(), frozenset())]
        tracked = T._cp_tracked(b)
        while work:
            bi, lens, facts, env = work.pop()
            if (bi, lens, facts, env) in seen or len(seen) > 20000: continue
            seen.add((bi, lens, facts, env))
            e = dict(env); blk = b.blocks[bi]
            for st in blk['st']:
                if 'dst' not in st: continue
                rv = st['rv']; d = st['dst']
                if rv['k'] == 'agg' and rv['adt'].endswith('sorted_ids::BinaryIdPair'): pairs.append((bi, st, lens, facts))
                if d['p'] or d['l'] not in tracked: continue
                o = rv['ops'][0] if rv.get('ops') else None
                if rv['k'] == 'use' and o['k'] == 'const' and o['v'] in ('true', 'false'): e[d['l']] = (o['v'] == 'true')
                elif rv['k'] == 'use' and o['k'] in ('copy', 'move') and not o['pl']['p'] and o['pl']['l'] in e: e[d['l']] = e[o['pl']['l']]
                elif rv['k'] == 'un' and rv['op'] == 'Not' and o['k'] in ('copy', 'move') and o['pl']['l'] in e: e[d['l']] = not e[o['pl']['l']]
                else: e.pop(d['l'], None)
            if bi in oks: ok_lens |= lens
            if bi in errs:
                err_lens |= lens; self.err_lens_by_bb.setdefault(bi, set()).update(lens)
            if self.ok_bbs is not None and bi in oks: continue          # fragment: the key has reached its use
            t = blk['term']; nxt = []
            if t['k'] == 'call':
                c = [y for y in b.calls if y.bb == bi]
                if c and t['t'] >= 0:
                    c = c[0]
                    mut = [a for a in c.args if a['k'] in ('copy', 'move') and b.locals[a['pl']['l']].startswith('&mut') and self.from_root(a['pl']['l'])]
                    if mut and c.item not in LEN_KEEPING: lens, facts = DOM, frozenset()
                    elif mut: facts = frozenset()
                    e.pop(t['dst']['l'], None)
                    nxt.append((t['t'], lens, facts))
            elif t['k'] == 'switch' and t['d']['k'] != 'const' and not t['d']['pl']['p']:
                dl = t['d']['pl']['l']; m = [(v, tg) for v, tg in t['ts']]
                if dl in e:
                    v = 1 if e[dl] else 0
                    nxt.append((dict(m).get(v, t['else']), lens, facts))
                else:
                    p = self.pred(dl)
                    if p is None:
                        if self.from_root(dl): self.unknown_tests.add(bi)
                        for s in b.succ(bi): nxt.append((s, lens, facts))
                    elif p == ('lenval',):
                        listed = set()
                        for v, tg in m:
                            listed.add(v); nxt.append((tg, lens & {v}, facts))
                        nxt.append((t['else'], frozenset(lens - listed), facts))
                    elif b.locals[dl] == 'bool':
                        for v, tg in m: nxt.append((tg,) + self.apply(p, bool(v), lens, facts))
                        nxt.append((t['else'],) + self.apply(p, True, lens, facts) if all(v == 0 for v, _ in m) else (t['else'], lens, facts))
                    else:
                        # discriminant of an Option: 1 = Some, 0 = None; `else` = the values not listed
                        listed = {v for v, _ in m}
                        for v, tg in m: nxt.append((tg,) + self.apply(p, v == 1, lens, facts))
                        rest = {0, 1} - listed
                        if len(rest) == 1: nxt.append((t['else'],) + self.apply(p, rest == {1}, lens, facts))
                        elif rest: nxt.append((t['else'], lens, facts))
            else:
                for s in b.succ(bi): nxt.append((s, lens, facts))
            fe = frozenset(e.items())
            for s, ls, fs in nxt:
                if b.blocks[s]['cleanup'] or not ls or s in self.stop: continue
                work.append((s, frozenset(ls), fs, fe))
        return ok_lens, err_lens, pairs


# CANONICAL-SOURCE table: what the type of the conversion's argument already guarantees about the id sequence
SRC = [('std::vec::Vec<u64>', 'Vec', False, False),            # nothing
       ('sorted_ids::SortedIds', 'SortedIds', True, False),    # sorted by construction (verified by sorted_ids_invariant), may repeat ids
       ('sorted_ids::BinaryIds', 'BinaryIds', True, True)]     # a BTreeSet: strictly increasing
CONV_RE = CONV_PAIR


def sorted_ids_invariant(ctx):
    """SortedIds is sorted by construction: every body that builds a SortedIds value (or takes `&mut` of / assigns its
    field) is a derive, sorts the vector, or builds it from an empty Vec.  Returns a list of offending bodies."""
    bad = []
    for fb in ctx.F.bodies.values():
        touches = False
        for bi, st in fb.stmts():
            rv = st['rv']
            if rv['k'] == 'agg' and rv['adt'].endswith('sorted_ids::SortedIds'):
                o = rv['ops'][0] if rv['ops'] else None
                fresh = o is not None and o['k'] in ('copy', 'move') and any(re.search(r'Vec::<u64>::new$', c.name) for c in ctx.S.slice_operand(fb, o).call_objs) and \
                    not ctx.S.slice_operand(fb, o).params
                if not fresh: touches = True
            if ('sorted_ids::SortedIds', '0') in fields_of_place(st['dst']) or (rv['k'] in ('ref', 'rawptr') and rv.get('mut') and ('sorted_ids::SortedIds', '0') in fields_of_place(rv['pl'])):
                touches = True
        if not touches or is_derive_body(fb): continue
        oks = {bi for bi in fb.return_blocks()}
        sorts = [c for c in fb.calls if c.item in LEN_KEEPING[:7]]
        if not any(all(fb.dominates(c.bb, e) for e in oks) for c in sorts): bad.append(fb.name)
    return bad


def canonical_pair_clauses(ctx, b, src_sorted, src_dedup):
    """the clauses that make `b` (a conversion ids -> BinaryIdPair) canonical; list of (leaf, template, verdict, detail, site)
    with verdict in ok / bad / undecided"""
    out = []
    oks = b.strict_ok_exits()
    dominating = lambda pred: any(all(b.dominates(c.bb, e) for e in oks) for c in b.calls if pred(c))
    # CANONICALISE idioms: ids.sort*() and ids.dedup*()  |  collecting the ids into a BTreeSet (sorted and duplicate-free at once)
    #                      |  the argument's type guarantees it (CANONICAL-SOURCE table)
    into_set = lambda c: (c.item in ('collect', 'from_iter') and 'BTreeSet<u64>' in c.name) or (c.item == 'from' and 'BTreeSet<u64> as' in c.name)
    #                      |  the itertools adaptors `it.sorted*()` / `it.dedup*()` / `it.unique()` on the id stream (then collected)
    it_sorted = lambda c: c.item in ('sorted', 'sorted_unstable', 'sorted_by', 'sorted_unstable_by', 'sorted_by_key', 'sorted_unstable_by_key') and 'Itertools' in (c.trait or c.name)
    it_dedup = lambda c: c.item in ('dedup', 'dedup_by', 'unique') and 'Itertools' in (c.trait or c.name)
    by_type = False
    if src_sorted and not dominating(lambda c: c.item in LEN_KEEPING[:7] or into_set(c) or it_sorted(c)):
        viol = sorted_ids_invariant(ctx) if not src_dedup else []
        by_type = not viol
        out.append(('sorted', 'T-MUSTCALL', 'ok' if by_type else 'bad', 'relies on SortedIds being sorted, but %s build it without sorting' % viol[:3], b.site()))
    else:
        okk = dominating(lambda c: c.item in LEN_KEEPING[:7] or into_set(c) or it_sorted(c))
        out.append(('sorted', 'T-MUSTCALL', 'ok' if okk else 'bad', 'no call `ids.sort()` dominating every Ok-exit', b.site()))
    okk = src_dedup or dominating(lambda c: c.item in ('dedup', 'dedup_by', 'dedup_by_key') or into_set(c) or it_dedup(c))
    out.append(('dedup', 'T-MUSTCALL', 'ok' if okk else 'bad', 'no call `ids.dedup()` dominating every Ok-exit', b.site()))
    sh = PairShape(ctx, b)
    ok_lens, err_lens, pairs = sh.walk()
    ctx.counters['cfg_paths'] += 1
    # the pair is made of elements of ids
    okk = bool(pairs) and all(all(1 in ctx.S.slice_operand(b, o).params for o in st['rv']['ops']) for bi, st, ls, fs in pairs)
    out.append(('from-ids', 'T-CARRY', 'ok' if okk else 'bad', 'the returned pair is not made of the given ids', b.site()))
    # Ok exactly for one or two distinct ids
    exact = {n for n in ok_lens}
    if exact == {1, 2}: out.append(('lengths', 'T-TABLE', 'ok', '', b.site()))
    elif sh.unknown_tests and (exact - {1, 2}) and b.err_exits():
        # a test on ids that is not in the predicate table decides: the weaker clause "some test on ids separates Ok from Err" holds
        out.append(('lengths', 'T-TABLE', 'undecided', 'length tests not recognised at %s; lengths reaching Ok under the recognised ones: %s' % ([b.site(x) for x in sorted(sh.unknown_tests)], sorted(exact)), b.site()))
    else:
        out.append(('lengths', 'T-TABLE', 'bad', 'accepted lengths are %s, expected [1, 2]' % [('%d+' % n if n == 7 else n) for n in sorted(exact)], b.site()))
    out.append(('other-lengths-error', 'T-TABLE', 'ok' if b.err_exits() else 'bad', 'no Err-exit for other lengths', b.site()))
    # canonical order: (ids[i], ids[j]) with i <= j in the sorted vector, or an explicit comparison on the way
    bad = []; unres = []
    for bi, st, lens, facts in pairs:
        ops = st['rv']['ops']
        rs = [sh.resolve(o['pl']) if o['k'] in ('copy', 'move') else None for o in ops]
        if len(rs) == 2 and all(r and r[0] == 'minmax' for r in rs):
            # (min(x, y), max(x, y)) of the same two elements is ordered by construction
            if rs[0][1] == 'min' and rs[1][1] == 'max' and rs[0][2] == rs[1][2]: continue
            bad.append((bi, rs[0][1], rs[1][1], sorted(lens))); continue
        if len(rs) != 2 or not all(r and r[0] in ('elem', 'opt') for r in rs):
            unres.append(bi); continue
        A, B = rs[0][1], rs[1][1]
        val = lambda p, n: p[1] if p[0] == 's' else n - 1 - p[1]
        by_index = all(val(A, n) <= val(B, n) for n in lens if n < 7)
        if not (by_index or (A, B) in facts or A == B): bad.append((bi, A, B, sorted(lens)))
    if bad: out.append(('ordered', 'T-BRANCHFX', 'bad', 'pair built as (ids[%s], ids[%s]) for lengths %s without i <= j or a comparison' % (bad[0][1], bad[0][2], bad[0][3]), b.site(bad[0][0])))
    elif unres: out.append(('ordered', 'T-BRANCHFX', 'undecided', 'pair operands are not recognisable as elements of ids (weaker clauses /from-ids and /sorted hold)', b.site(unres[0])))
    else: out.append(('ordered', 'T-BRANCHFX', 'ok', '', b.site()))
    return out


def inline_pair_fragments(ctx, body, keyty):
    """KEY BUILT IN PLACE: a loop of the exporter that constructs BinaryIdPair values itself from the item's ids is one more member of
    the conversion family.  The canonical-pair clauses are decided on the loop-body fragment, rooted at the item's ids:
       sorted      a sort of the ids dominating every construction, or the ids come out of a SortedIds (into_inner / deref) and the
                   SortedIds invariant holds crate-wide
       dedup       a dedup* of the ids dominating every construction
       from-ids    both fields are elements of the ids
       lengths     the keyed writes are reached exactly for 1 or 2 (distinct) ids; an unrecognised test on the ids fails closed
       error       the other lengths end in an Err-exit (the degree refusal of this exporter)
       ordered     (ids[i], ids[j]) with i <= j, or a comparison on the way
    Returns [(loop, ok?, problems, construction bbs, bail Err-exits)]."""
    typed_map = is_map_of(keyty)
    out = []
    for lo in T.for_loops(body):
        nextc, header, some_bb, none_bb, blocks = lo
        sites = [bi for bi, st in body.stmts() if bi in blocks and st['rv']['k'] == 'agg' and st['rv']['adt'].endswith('sorted_ids::BinaryIdPair')]
        if not sites: continue
        wb = {c.bb for c in body.calls if c.bb in blocks and typed_map(c) and 'BTreeMap::<' in c.name and c.item in ('entry', 'insert', 'get_mut')}
        sh = PairShape(ctx, body, root_pred=lambda s_, nx=nextc: nx in s_.call_objs, start=some_bb, ok_bbs=wb, stop={header})
        ok_lens, err_lens, pairs = sh.walk(); ctx.counters['cfg_paths'] += 1
        pairs = [x for x in pairs if x[0] in blocks]
        pbbs = {x[0] for x in pairs}
        prob = []
        idcalls = [c for c in body.calls if c.bb in blocks and c.args and c.args[0]['k'] in ('copy', 'move') and sh.from_root(c.args[0]['pl']['l'])]
        dom_all = lambda c: all(body.dominates(c.bb, pb) for pb in pbbs)
        from_sorted = any(re.search(r'sorted_ids::SortedIds::into_inner$|<sorted_ids::SortedIds as std::ops::Deref>::deref$', c.name) and dom_all(c) for c in idcalls)
        if not any(c.item in LEN_KEEPING[:7] and dom_all(c) for c in idcalls) and not (from_sorted and not sorted_ids_invariant(ctx)): prob.append('sorted')
        if not any(c.item in ('dedup', 'dedup_by', 'dedup_by_key') and dom_all(c) for c in idcalls): prob.append('dedup')
        if not pairs or not all(all(o['k'] in ('copy', 'move') and sh.from_root(o['pl']['l']) for o in st['rv']['ops']) for bi, st, ls, fs in pairs): prob.append('from-ids')
        if set(ok_lens) != {1, 2}: prob.append('lengths %s%s' % (sorted(ok_lens), ' (unrecognised test)' if sh.unknown_tests else ''))
        bails = {bb for bb, ls in sh.err_lens_by_bb.items() if not (set(ls) & {1, 2})}
        if not bails: prob.append('other-lengths-error')
        for bi, st, lens, facts in pairs:
            rs = [sh.resolve(o['pl']) if o['k'] in ('copy', 'move') else None for o in st['rv']['ops']]
            if len(rs) == 2 and all(r and r[0] == 'minmax' for r in rs):
                if not (rs[0][1] == 'min' and rs[1][1] == 'max' and rs[0][2] == rs[1][2]): prob.append('ordered')
                continue
            if len(rs) != 2 or not all(r and r[0] in ('elem', 'opt') for r in rs): prob.append('ordered (operands not recognised)'); continue
            A, B = rs[0][1], rs[1][1]
            val = lambda p_, n: p_[1] if p_[0] == 's' else n - 1 - p_[1]
            if not (all(val(A, n) <= val(B, n) for n in lens if n < 7) or (A, B) in facts or A == B): prob.append('ordered')
        out.append((lo, not prob, sorted(set(prob)), set(sites), bails))
    return out


def pair_rules(ctx):
    """the three conversions into BinaryIdPair: each one either implements the canonicalisation itself (clauses above,
    relaxed by what its argument type guarantees) or hands a value derived from its argument to another conversion"""
    R = 'C11.pair'
    convs = []
    for ty, short, ssorted, sdedup in SRC:
        fb = ctx.method(R + ('/anchor' if short == 'Vec' else '/anchor/' + ty), 'sorted_ids::BinaryIdPair', 'try_from', trait='TryFrom', targs=[ty])
        if fb is not None: convs.append((short, fb, ssorted, sdedup))
    if not any(sh == 'Vec' for sh, _, _, _ in convs): return
    def delegate_of(fb):
        s = ctx.S.backslice(fb, [0])
        for c in s.call_objs:
            if re.search(CONV_RE, c.name) and c.name != fb.name and 1 in ctx.S.slice_operand(fb, c.args[0]).params: return c
        return None
    impl = [(short, fb, a, d) for short, fb, a, d in convs if delegate_of(fb) is None]
    primary = impl[0][0] if impl else None
    for short, fb, ssorted, sdedup in convs:
        dc = delegate_of(fb)
        if dc is not None:
            # a cycle of delegations implements nothing: some conversion must do the work
            ctx.check(bool(impl), R + '/delegates/' + short, 'T-DELEG', fb.name, 'the conversions only delegate to each other', fb.site(dc.bb))
            continue
        clauses = canonical_pair_clauses(ctx, fb, ssorted, sdedup)
        if short == primary:
            for leaf, tmpl, verdict, detail, site in clauses:
                if verdict == 'undecided' and leaf == 'ordered':
                    # order not recognisable: the weaker clauses (from-ids, sorted) are decided and cover it
                    undecided_weak(ctx, R + '/' + leaf, tmpl, site, detail, not any(v == 'bad' for l2, _, v, _, _ in clauses if l2 in ('from-ids', 'sorted')), fb.name, 'a weaker clause of the canonical pair fails')
                elif verdict == 'undecided':
                    # an unrecognised LENGTH test has no weaker clause that would catch "more than two ids accepted": no decided twin,
                    # the family floor reports it (fail closed)
                    ctx.undecided(R + '/' + leaf, tmpl, site, detail)
                else: ctx.check(verdict == 'ok', R + '/' + leaf, tmpl, fb.name, detail, site)
        else:
            badc = [(leaf, detail) for leaf, tmpl, verdict, detail, site in clauses if verdict == 'bad']
            und = [(leaf, detail) for leaf, tmpl, verdict, detail, site in clauses if verdict == 'undecided']
            if badc: ctx.bad(R + '/delegates/' + short, 'T-DELEG', fb.name, 'neither delegates to a canonical conversion nor is canonical itself: ' + '; '.join('%s: %s' % x for x in badc), fb.site())
            elif und and all(l2 == 'ordered' for l2, _ in und): undecided_weak(ctx, R + '/delegates/' + short, 'T-DELEG', fb.site(), '; '.join('%s: %s' % x for x in und), True, fb.name)
            elif und: ctx.undecided(R + '/delegates/' + short, 'T-DELEG', fb.site(), '; '.join('%s: %s' % x for x in und))      # lengths unknown: fail closed through the floor
            else: ctx.ok(R + '/delegates/' + short, 'T-DELEG', fb.site(), how='canonical by itself')
    # crate-wide: the pair / set keys are only constructed inside their own impls
    outside = []
    for fb in ctx.F.bodies.values():
        for bi, st in fb.stmts():
            if st['rv']['k'] == 'agg' and re.search(r'sorted_ids::Binary(Ids|IdPair)$', st['rv']['adt']):
                if not re.search(r'sorted_ids::Binary(Ids|IdPair)', fb.hdr.get('self') or '') and (fb.name, bi) not in getattr(ctx, 'c11_inline_sites', ()):
                    outside.append('%s@%s' % (fb.name, fb.site(bi)))
    ctx.check(not outside, R + '/constructed-only-in-impls', 'T-CARRY', 'crate', 'keys constructed outside their impls: %s' % outside[:4])
    fb = ctx.method(R + '/anchor/BinaryIds-from', 'sorted_ids::BinaryIds', 'from', trait='From', targs=['sorted_ids::SortedIds'])
    if fb is not None:
        s = ctx.S.backslice(fb, [0])
        # SET-BUILD idioms: iter.collect::<BTreeSet<u64>>() | BTreeSet::from_iter(..) | set.insert(id) / set.extend(ids) | BTreeSet::from(..)
        built = s.has_call(r'collect::<std::collections::BTreeSet<u64>>|BTreeSet<u64> as std::iter::FromIterator|BTreeSet::<(u64|T)>::(insert|extend|from)|BTreeSet<u64> as std::iter::Extend|BTreeSet<u64> as std::convert::From')
        ctx.check(1 in s.params and built, R + '/BinaryIds-from-set', 'T-CARRY', fb.name, 'BinaryIds::from does not collect the ids into a set', fb.site())


# the "only binary variables are used" refusal reads Function::used_decision_variable_ids: its kernels
# (every id field reaches the set on every path, also when the optional linear part is absent) are decided
# by the C08.used-kernel family — re-decided here (seed C11-5)
RELIES_ON = {'C08': ['C08.used-kernel'],
             # the exporters read the objective through `&Function: IntoIterator`: every stored term of Linear / Quadratic / Polynomial is yielded
             'C02': ['C02.iter']}


def check(ctx):
    export_rules(ctx, 'as_pubo_format', 'BinaryIds', False)
    export_rules(ctx, 'as_qubo_format', 'BinaryIdPair', True)
    pair_rules(ctx)
    ctx.floor('C11.as_pubo_format', 20); ctx.floor('C11.as_qubo_format', 26); ctx.floor('C11.pair', 10)
