"""C15 — sense-aware operations (DESIGN §5 C15).

Written against the normal form (`VIEW = 'norm'`): adaptor chains with closures are explicit loops, so
`filter_map(|(id, ok)| ok.then_some(*id))`, `filter(..).map(..)` and a `for` with an `if` are the same
thing, and so are `map(..).collect::<Result<Vec<_>>>()?` and a `for` loop that pushes.

Decisions that depend on *which way a test goes* are taken by probing: the rule names the reads /
comparisons that matter (the flag of a sample, the comparison of a candidate with the incumbent, the
test of the sense), assumes a value for them and asks a path-sensitive reachability (`reach_x`:
constants, `!`, `bool::then_some`, Ok/Err/Some/None through `?`) what can still be reached.  That is
independent of whether the test is written `if c {A} else {B}`, `if !c {B} else {A}`, an early
`return`, a `match`, or a `matches!`.
"""
from .common import *

VIEW = 'norm'

INST = 'v1::Instance'; SS = 'v1::SampleSet'
SENSE_RE = r'instance::Sense$'


# ------------------------------------------------------------------------- path-sensitive reachability
def _cv(o):
    return o['v'].replace('const ', '').strip() if o['k'] == 'const' else None


OK_LIKE = ('Result::Ok', 'Option::None', 'ControlFlow::Continue')       # variant index 0
ERR_LIKE = ('Result::Err', 'Option::Some', 'ControlFlow::Break')        # variant index 1


def reach_x(body, starts, stop=(), assume_stmt=None, assume_call=None, init=None, watch=None, seen_vals=None, assume_switch=None):
    """forward reachability that follows only the feasible side of a switch when the switched value is
    known on the path.  Known values: bool constants and their copies / negations; the variant of a
    Result / Option / ControlFlow built on the path (aggregate, `from_residual`, `Try::branch` of a
    known variant, `bool::then_some` of a known bool) and discriminants read from it; plus the assumed
    results of the given statements (assume_stmt: {id(stmt): value}) and calls (assume_call: {bb: value})."""
    assume_stmt = assume_stmt or {}; assume_call = assume_call or {}
    seen = set(); out = set(); work = [(s, frozenset((init or {}).items())) for s in starts if s not in stop]
    plain = lambda o: o is not None and o['k'] in ('copy', 'move') and not o['pl']['p']
    def kind_of(l):
        ty = body.locals[l].strip().lstrip('&').strip()
        return 'opt' if ty.startswith('std::option::Option<') else ('res' if ty.startswith('std::result::Result<') else None)
    while work:
        bi, env = work.pop()
        if (bi, env) in seen: continue
        seen.add((bi, env)); out.add(bi)
        if len(seen) > 60000: return body.reach(starts, stop)       # give up: plain over-approximation
        e = dict(env)
        blk = body.blocks[bi]
        for st in blk['st']:
            if 'dst' not in st: continue
            d = st['dst']; rv = st['rv']
            if rv['k'] == 'ref' and rv.get('mut') and not rv['pl']['p']: e.pop(rv['pl']['l'], None)
            if d['p']:
                if not (len(d['p']) >= 1 and d['p'][0] == '*'): e.pop(d['l'], None)     # partial overwrite of a tracked value
                continue
            o = (rv.get('ops') or [None])[0]
            kill_components(e, d['l'])
            if id(st) in assume_stmt: e[d['l']] = assume_stmt[id(st)]
            elif rv['k'] == 'use' and _cv(o) in ('true', 'false'): e[d['l']] = (_cv(o) == 'true')
            elif rv['k'] == 'use' and plain(o) and (o['pl']['l'] in e or any(isinstance(k, tuple) and k[0] == o['pl']['l'] for k in e)):
                if o['pl']['l'] in e: e[d['l']] = e[o['pl']['l']]
                else: e.pop(d['l'], None)
                for k in [k for k in e if isinstance(k, tuple) and k[0] == o['pl']['l']]: e[(d['l'], k[1])] = e[k]       # a tuple moved as a whole
            elif rv['k'] == 'agg' and rv['adt'] == 'tuple':
                # (kind, legacy): the components that are known stay known; `match` on the tuple tests them one by one
                e.pop(d['l'], None)
                for i, x in enumerate(rv['ops']):
                    if _cv(x) in ('true', 'false'): e[(d['l'], str(i))] = (_cv(x) == 'true')
                    elif plain(x) and x['pl']['l'] in e: e[(d['l'], str(i))] = e[x['pl']['l']]
            elif rv['k'] == 'agg' and not rv['ops'] and unit_variant(body, rv['adt']) is not None: e[d['l']] = ('V', unit_variant(body, rv['adt']))
            elif rv['k'] == 'un' and rv['op'] == 'Not' and plain(o) and isinstance(e.get(o['pl']['l']), bool): e[d['l']] = not e[o['pl']['l']]
            elif rv['k'] == 'agg' and rv['adt'].endswith(OK_LIKE): e[d['l']] = ('V', 0)
            elif rv['k'] == 'agg' and rv['adt'].endswith(ERR_LIKE): e[d['l']] = ('V', 1)
            elif rv['k'] == 'discr' and variant_at(e, rv['pl']) is not None: e[d['l']] = ('D', variant_at(e, rv['pl']))
            elif rv['k'] == 'ref' and not rv.get('mut') and not rv['pl']['p'] and rv['pl']['l'] in e: e[d['l']] = ('P', rv['pl']['l'])
            elif rv['k'] == 'agg' and rv['adt'].startswith('closure:'): e[d['l']] = ('F', rv['adt'][8:])
            elif rv['k'] == 'cast' and 'FnPointer' in (rv.get('ck') or ''):
                # a function item / closure turned into a `fn` pointer: the value is that function
                if o['k'] == 'const' and (o.get('fnp') or o.get('fn')): e[d['l']] = ('F', o.get('fnp') or o.get('fn'))
                elif plain(o) and isinstance(e.get(o['pl']['l']), tuple) and e[o['pl']['l']][0] == 'F': e[d['l']] = e[o['pl']['l']]
                else: e.pop(d['l'], None)
            else: e.pop(d['l'], None)
        t = blk['term']
        succs = body.succ(bi)
        if t['k'] == 'call':
            if watch and bi in watch and seen_vals is not None:
                def val(l):
                    v = e.get(l, 'unknown')
                    return e.get(v[1], 'unknown') if isinstance(v, tuple) and v[0] == 'P' else v        # through a shared reference
                w = watch[bi]
                seen_vals.setdefault(bi, set()).add(tuple(val(l) for l in w) if isinstance(w, tuple) else val(w))       # value(s) of local(s) when this call is reached
            if not t['dst']['p']:
                dl = t['dst']['l']
                kill_components(e, dl)
                nm = t['r'] or t['f']; a0 = t['args'][0] if t['args'] else None
                item = (t.get('ri') or {}).get('item')
                known = e.get(a0['pl']['l']) if plain(a0) else None
                is_opt = nm.lstrip('<').startswith('std::option::Option')
                if bi in assume_call: e[dl] = assume_call[bi]
                elif T.NOT_CALL.search(nm) and isinstance(known, bool): e[dl] = not known
                elif T.TRY_BRANCH.search(nm) and isinstance(known, tuple) and known[0] == 'V':
                    e[dl] = ('V', (1 - known[1]) if is_opt else known[1])          # Some -> Continue, None -> Break ; Ok -> Continue, Err -> Break
                elif item == 'from_residual' and T.FROM_RESIDUAL.search(nm): e[dl] = ('V', 0 if is_opt else 1)
                elif isinstance(known, tuple) and known[0] == 'V' and (T.ERR_ADAPTORS.search(nm) or ERR_KEEPING.search(nm)) and kind_of(a0['pl']['l']) and kind_of(dl):
                    # opt.with_context(..) / .ok_or(..) / .map(..) / .and_then(..): a failure stays a failure (None / Err of the result type);
                    # through the total ones (VARIANT_KEEPING) a success stays a success as well
                    failed = known[1] == (0 if kind_of(a0['pl']['l']) == 'opt' else 1)
                    if failed: e[dl] = ('V', 0 if kind_of(dl) == 'opt' else 1)
                    elif VARIANT_KEEPING.search(nm): e[dl] = ('V', 1 if kind_of(dl) == 'opt' else 0)
                    else: e.pop(dl, None)
                elif re.search(r'bool>::then_some(::<.*>)?$', nm) and isinstance(known, bool): e[dl] = ('V', 1 if known else 0)
                elif item in ('is_none', 'is_some') and re.search(r'Option::<.*>::is_(none|some)$', nm) and plain(a0) and variant_at(e, {'l': a0['pl']['l'], 'p': ['*']}) is not None:
                    e[dl] = (variant_at(e, {'l': a0['pl']['l'], 'p': ['*']}) == 1) == (item == 'is_some')
                else: e.pop(dl, None)
            else: e.pop(t['dst']['l'], None)
        elif t['k'] == 'switch' and assume_switch and bi in assume_switch:
            # a bool tested in place (`match *flag { true => .., false => .. }`): no statement carries its value
            m = {val: tg for val, tg in t['ts']}
            succs = [m.get(1 if assume_switch[bi] else 0, t['else'])]
        elif t['k'] == 'switch' and t['d']['k'] != 'const' and component_key(t['d']['pl']) in e:
            v = e[component_key(t['d']['pl'])]
            v = (1 if v else 0) if isinstance(v, bool) else (v[1] if v[0] == 'D' else None)
            if v is not None:
                m = {val: tg for val, tg in t['ts']}
                succs = [m.get(v, t['else'])]
        fe = frozenset(e.items())
        for s in succs:
            if s in stop or body.blocks[s]['cleanup']: continue
            work.append((s, fe))
    return out


# adaptors that map Some <-> Some/Ok and None/Err <-> None/Err (total: the closure / argument only changes the payload)
VARIANT_KEEPING = re.compile(r'::(with_context|context|ok_or|ok_or_else|map_err|map|copied|cloned|as_ref|as_mut|as_deref|inspect|inspect_err)(::<.*>)?$')


def component_key(pl):
    """key of the reach_x environment for a place: the local, or (local, i) for the component `x.i` of a tuple"""
    if not pl['p']: return pl['l']
    if len(pl['p']) == 1 and isinstance(pl['p'][0], dict) and pl['p'][0].get('of') == 'tuple' and 'f' in pl['p'][0]: return (pl['l'], pl['p'][0]['f'])
    return None


def kill_components(e, l):
    for k in [k for k in e if isinstance(k, tuple) and k[0] == l]: del e[k]


def unit_variant(body, adt):
    """discriminant of a field-less variant `path::Enum::Variant` of an enum of the crate (a key of a `match` table), else None"""
    F = getattr(body, 'facts', None)
    if F is None or '::' not in adt: return None
    en, var = adt.rsplit('::', 1)
    a = F.adts.get(en) if hasattr(F, 'adts') else None
    if a is None: return None
    for v in a.get('variants', []):
        if v.get('name') == var and not v.get('fields'): return v.get('discr')
    return None


def variant_at(e, pl):
    """known variant index of the enum at place `x`, `x.i` (tuple component) or `*p` (p a shared reference to a local of known variant)"""
    if pl['p'] and component_key(pl) is not None:
        v = e.get(component_key(pl))
        return v[1] if isinstance(v, tuple) and len(v) == 2 and v[0] == 'V' else None
    v = e.get(pl['l'])
    if not isinstance(v, tuple): return None
    if not pl['p'] and v[0] == 'V': return v[1]
    if pl['p'] == ['*'] and v[0] == 'P':
        w = e.get(v[1])
        if isinstance(w, tuple) and w[0] == 'V': return w[1]
    return None


# ------------------------------------------------------------------------------------ shared helpers
def sense_tests(ctx, body, src_pred=None):
    """tests of a `Sense` value against the variant Minimize, in every spelling:
         x == Sense::Minimize / x != Sense::Minimize     (PartialEq::eq / ne)
         match x { Sense::Minimize => .., .. } / matches!(x, Sense::Minimize)   (switch on the discriminant)
    returns [(site_bb, variant, [yes blocks], [no blocks], tested operand, switch_bb)]"""
    out = []
    for c in body.calls:
        if c.item in ('eq', 'ne') and 'PartialEq' in (c.trait or '') and re.search(SENSE_RE, c.self_ty or ''):
            vs = [enum_variant_of_operand(ctx, body, a) for a in c.args]
            v = [x.split('::')[-1] for x in vs if x and 'Sense::' in x]
            src = [a for a, x in zip(c.args, vs) if not (x and 'Sense::' in x)]
            if not v or not src: continue
            if src_pred is not None and not src_pred(ctx.S.slice_operand(body, src[0])): continue
            for g in T.guards_from_call(body, c):
                yes, no = (g.true_bb, g.false_bb) if c.item == 'eq' else (g.false_bb, g.true_bb)
                out.append((c.bb, v[0], [yes], [no], src[0], g.switch_bb))
    adt = ctx.F.adt('v1::instance::Sense')
    names = {v['discr']: v['name'] for v in adt['variants']} if adt else {}
    for bi, st in body.stmts():
        rv = st['rv']
        # self.sense == Sense::Minimize as i32   (the raw field against the variant's number)
        if rv['k'] == 'bin' and rv['op'] in ('Eq', 'Ne') and not st['dst']['p']:
            sl = [ctx.S.slice_operand(body, o) for o in rv['ops']]
            def variant_of(o, s_):
                if o['k'] == 'const':
                    m = re.fullmatch(r'(-?\d+)_i32', _cv(o) or '')
                    return names.get(int(m.group(1))) if m else None
                return sense_number_variant(ctx, body, o, s_)
            for (o, s_), (o2, s2) in ((list(zip(rv['ops'], sl))), list(zip(rv['ops'], sl))[::-1]):
                v = variant_of(o2, s2)
                if v is None or not any(f == 'sense' for a, f in s_.fields): continue
                if src_pred is not None and not src_pred(s_): continue
                for sb, neg in T.bool_flow(body, st['dst']['l']):
                    tt, ft = T.switch_sides(body, sb, neg)
                    yes, no = (tt, ft) if rv['op'] == 'Eq' else (ft, tt)
                    out.append((bi, v, [yes], [no], o, sb))
                break
        if rv['k'] == 'discr' and not st['dst']['p'] and re.search(SENSE_RE, body.locals[rv['pl']['l']].lstrip('&').strip()):
            op = {'k': 'copy', 'pl': rv['pl']}
            if src_pred is not None and not src_pred(ctx.S.slice_operand(body, op)): continue
            for k3, b3, sw in body.uses.get(st['dst']['l'], ()):
                if k3 != 'switch': continue
                tg = {val: t for val, t in sw['ts']}
                for val, t in sw['ts']:
                    if val in names:
                        others = [t2 for v2, t2 in sw['ts'] if v2 != val] + [sw['else']]
                        out.append((b3, names[val], [t], [x for x in others if not body.is_panic_block(x)], op, b3))
    return out


def sense_number_variant(ctx, body, o, s_=None):
    """variant whose number an i32 operand is:  `Sense::Minimize as i32` (the variant's constant in the slice),
    `i32::from(Sense::Minimize)` / `Sense::Minimize.into()` (the variant itself under transparent conversions); None otherwise"""
    s_ = s_ if s_ is not None else ctx.S.slice_operand(body, o)
    if s_.params or not all(a == 'tuple' for a, f in s_.fields): return None
    vs = {m.group(1) for c in s_.consts for m in [re.search(r'Sense::(\w+)', c)] if m}
    e = T.expr(body, o, depth=10)
    if not [x for x in T.expr_calls(e) if not T.TRANSPARENT.search(T.strip_generics_tail(x[2]))]:
        vs |= {m.group(1) for x in T.expr_walk(e) if x[0] == 'agg' for m in [re.search(r'Sense::(\w+)$', x[1])] if m}
    return vs.pop() if len(vs) == 1 else None


def regions(body, t):
    """blocks only reachable on the yes side / only on the no side of test `t` (until the test is taken
    again: inside a loop both sides meet at the next iteration)"""
    ry = T.reach_cp(body, t[2], stop={t[5]}); rn = T.reach_cp(body, t[3], stop={t[5]})
    return ry - rn, rn - ry


# The candidate record of `best`: the pair (id, objective) as a tuple (HEAD) or as a struct with named fields.  best_rules() finds
# the aggregate the candidates are built with and names its fields by *role* -- the field filled from the loop's id is '0', the
# field filled from objectives.get(id) is '1' -- so that every rule can keep speaking about `.0` / `.1`.
RECORD_ALIAS = {}


def pos_fields(fields):
    """positional names of the tuple / candidate-record fields in a list of (owner, field) projections"""
    return [RECORD_ALIAS.get((a, f), f) for a, f in fields if a == 'tuple' or (a, f) in RECORD_ALIAS]


def item_fields(body, lo, op, depth=14):
    """tuple components selected from the item of loop `lo` by an operand: [] = the item itself,
    ['1'] = item.1, ... ; None if the operand is not (a projection / reference / copy of) the item.
    `flag.then_some(v)` unwrapped is v."""
    e = T.expr(body, op, depth=depth)
    for _ in range(6):
        if e[0] == 'call' and T.TRANSPARENT.search(T.strip_generics_tail(e[2])) and e[3]: e = e[3][0]; continue
        if e[0] == 'proj' and e[1][0] == 'call' and e[1][1] == 'then_some' and len(e[1][3]) == 2 and all(T.WRAPPER_OWNER.search(a) for a, f in e[2]): e = e[1][3][1]; continue
        break
    if e[0] == 'call' and len(e) > 4 and e[4] == lo[0].bb: return []
    if e[0] == 'proj' and e[1][0] == 'call' and len(e[1]) > 4 and e[1][4] == lo[0].bb:
        return pos_fields(e[2])
    if e[0] == 'place' and e[1] > body.argc and e[2] and T.WRAPPER_OWNER.search(e[2][0][0]) and depth > 4:
        # `if flag { Some(id) } else { None }` unwrapped: the payload of an Option assigned in several branches is what the Some branches put in
        alts = []
        for k, bi, d in body.defs_of(e[1]):
            if k != 'stmt' or d['dst']['p']: return None
            rv = d['rv']
            if rv['k'] == 'agg' and rv['adt'].endswith('Option::None'): continue
            if rv['k'] == 'agg' and rv['adt'].endswith('Option::Some') and len(rv['ops']) == 1:
                f = item_fields(body, lo, rv['ops'][0], depth - 4)
                if f is None: return None
                alts.append(f + pos_fields(e[2][1:]))
            else: return None
        if alts and all(a == alts[0] for a in alts): return alts[0]
    return None


# adaptors through which a failure stays a failure (None => None / Err => Err, or None => Err), whatever they do to the success value.
# (templates.ERR_BAD lists and_then / filter because they can turn a success into a failure; for `failure ends in an Err-exit` that is irrelevant.)
ERR_KEEPING = re.compile(r'(Option|Result)::<.*>::(and_then|and|inspect|inspect_err|filter|zip|flatten|map|map_err|copied|cloned|as_ref|as_mut|as_deref|ok_or|ok_or_else)(::<.*>)?$')


def closure_of(body, op):
    """def path of the closure an operand *is* (followed through plain moves to its `closure` aggregate).  Not the
    `closures` of a slice: those also contain every closure used inside callees the value passed through."""
    if op['k'] not in ('copy', 'move') or op['pl']['p']: return None
    l = op['pl']['l']
    for _ in range(8):
        ds = body.defs_of(l)
        if len(ds) != 1 or ds[0][0] != 'stmt' or ds[0][2]['dst']['p']: return None
        rv = ds[0][2]['rv']
        if rv['k'] == 'agg' and rv['adt'].startswith('closure:'): return rv['adt'][8:]
        if rv['k'] in ('use',) and rv['ops'][0]['k'] in ('copy', 'move') and not rv['ops'][0]['pl']['p']: l = rv['ops'][0]['pl']['l']; continue
        if rv['k'] == 'ref' and not rv['pl']['p']: l = rv['pl']['l']; continue
        return None
    return None


def errflow_g(body, local, depth=0):
    """templates.errflow with (1) path-sensitive reachability, (2) the failure-keeping combinators of ERR_KEEPING as
    adaptors, (3) the failure variant of a `match` taken from the type (None = 0 for Option, Err = 1 for Result)."""
    res = []
    if depth > 8: return [('bad', 'adaptor chain too deep')]
    if local == 0: return [('ok', 'returned')]
    oks = body.strict_ok_exits()
    uses = body.uses.get(local, ())
    if not uses: return [('bad', 'result unused (dropped)')]
    fail = 1 if body.locals[local].strip().lstrip('&').strip().startswith('std::result::Result') else 0
    for kind, bi, x in uses:
        if kind == 'call':
            name = x.name
            if T.TRY_BRANCH.search(name):
                arms = T.try_arms(body, local)
                if arms:
                    if reach_x(body, [arms[1]]) & oks: res.append(('bad', 'Break arm of ? reaches an Ok-exit'))
                    else: res.append(('ok', '?'))
                else: res.append(('bad', 'Try::branch without switch'))
            elif T.ERR_ADAPTORS.search(name) or (ERR_KEEPING.search(name) and x.arg_local(0) == local):
                res += [(k, '%s -> %s' % (x.item, h)) for k, h in errflow_g(body, x.dst['l'], depth + 1)]
            elif T.ERR_BAD.search(name): res.append(('bad', 'consumed by ' + x.item))
            else: res.append(('bad', 'passed to ' + name[:60]))
        elif kind == 'stmt':
            rv = x['rv']
            if rv['k'] == 'discr':
                for k3, b3, sw in body.uses.get(x['dst']['l'], ()):
                    if k3 != 'switch': continue
                    m = {v: t for v, t in sw['ts']}
                    if reach_x(body, [m.get(fail, sw['else'])]) & oks: res.append(('bad', 'None/Err side of match reaches an Ok-exit'))
                    else: res.append(('ok', 'match: None/Err side reaches only Err-exits'))
            elif rv['k'] == 'use' and x['dst']['p'] == []:
                o = rv['ops'][0]
                if o['k'] in ('copy', 'move') and o['pl']['l'] == local and o['pl']['p'] == []:
                    res += errflow_g(body, x['dst']['l'], depth + 1)
                # payload extraction (`as Some.0`) is dominated by a discriminant test: ignore
            elif rv['k'] == 'ref':
                res += errflow_g(body, x['dst']['l'], depth + 1)
    if not res: res.append(('bad', 'no recognised consumer'))
    return res


def errflow_ps(ctx, rule, body, calls, what):
    for c in calls:
        out = errflow_g(body, c.dst['l']); ctx.counters['cfg_paths'] += 1
        bad = sorted({h for k, h in out if k == 'bad'})
        ctx.check(not bad, rule, 'T-ERRFLOW', body.name, '%s: %s' % (what, '; '.join(bad)), body.site(c.bb), consumers=[h for k, h in out])


# --------------------------------------------------------------------------------- as_minimization_problem
# Ways of writing a field of self (one comment per entry):
#   self.f = v                         assignment through a self-rooted place
#   self.set_f(v)                      a crate function on `&mut self` whose only write is `self.f = <its argument>` (prost setters)
#   self.f.replace(v) / .insert(v)     Option field: the field becomes Some(v)
def self_field_writes(ctx, b):
    out = []
    selfs = T.copies_of(b, 1)
    for bi, st in b.stmts():
        if st['dst']['p'] and st['dst']['l'] in selfs and fields_of_place(st['dst']):
            op = st['rv']['ops'][0] if st['rv'].get('ops') else None
            ex = T._rv_expr(b, st['rv']) if st['rv']['k'] != 'use' else T.expr(b, op, depth=12)
            out.append((bi, [f for a, f in fields_of_place(st['dst'])], op if st['rv']['k'] in ('use', 'cast') else None, ex))
    for c in b.calls:
        if not c.args: continue
        fs, root, _ = T.access_path(b, c.args[0])
        a0 = c.arg_local(0)
        if root != 1 or a0 is None or '&mut' not in b.locals[a0]: continue
        cb = ctx.F.bodies.get(c.path)
        if cb is not None and not fs and len(c.args) == 2 and cb.argc == 2:
            w = self_writes(ctx, cb)
            if len(w) == 1 and not any(x.startswith('*') for x in w):
                f = next(iter(w))
                # the field gets the argument (possibly converted), nothing else
                stores = [st for bi2, st in cb.stmts() if st['dst']['p'] and [x for a, x in fields_of_place(st['dst'])] == [f]]
                def from_arg(st):
                    o = (st['rv'].get('ops') or [None])[0]
                    return o is not None and o['k'] in ('copy', 'move') and 2 in ctx.S.slice_operand(cb, o).params
                if stores and all(from_arg(st) for st in stores):
                    ctx.fn(cb)
                    out.append((c.bb, [f], c.args[1], T.expr(b, c.args[1], depth=12)))
        elif cb is None and c.item in ('replace', 'insert') and re.search(r'Option::<.*>::(replace|insert)$', c.name) and len(fs) == 1 and len(c.args) == 2:
            out.append((c.bb, [fs[0][1]], None, ('agg', 'std::option::Option::Some', [T.expr(b, c.args[1], depth=12)])))
    return out



def min_rules(ctx):
    R = 'C15.min'
    b = ctx.method(R + '/anchor', INST, 'as_minimization_problem')
    if b is None: return
    writes = self_field_writes(ctx, b)           # (bb, field path, value operand or None, value expr)
    tests = [t for t in sense_tests(ctx, b, lambda s: s.has_field(INST, 'sense')) if t[1] == 'Minimize']
    # the test that decides: the one all writes are on the not-Minimize side of
    chosen = None
    for t in tests:
        minr, maxr = regions(b, t)
        if all(w[0] in maxr for w in writes) or chosen is None: chosen = (t, minr, maxr)
    ctx.check(chosen is not None, R + '/sense-test', 'T-GUARD', b.name, 'no test of self.sense() against Sense::Minimize', b.site())
    if chosen is None: return
    t, minr, maxr = chosen
    is_min, other = t[2], t[3]
    rets = set(b.return_blocks())
    mut_calls = [x for x in b.calls if any(a['k'] in ('copy', 'move') and '&mut' in b.locals[a['pl']['l']] for a in x.args)]
    ctx.check(not [w for w in writes if w[0] in minr] and not [x for x in mut_calls if x.bb in minr], R + '/minimize-is-untouched', 'T-BRANCHFX', b.name,
              'a minimisation problem is modified (the conversion must be idempotent)', b.site(is_min[0]))
    def every_other_path_passes(bbs):
        return bool(bbs) and not any(reach_x(b, [o], stop=set(bbs)) & rets for o in other)      # path-sensitive: `matches!` leaves a bool behind
    def at_most_once(bbs):
        return not any(b.reach(b.succ(x)) & set(bbs) for x in bbs)
    sw = [w for w in writes if w[1] == ['sense']]
    ow = [w for w in writes if w[1] == ['objective']]
    oks = bool(sw)
    for bi, fld, op, ex in sw:
        # the value written is Minimize: `Sense::Minimize as i32` (a constant in the slice) or the variant itself handed to a setter
        s = ctx.S.slice_operand(b, op) if op is not None else None
        v = enum_variant_of_operand(ctx, b, op) if op is not None else None
        is_min_val = s is not None and ((s.has_const(r'Sense::Minimize') and not s.has_const(r'Sense::Maximize')) or bool(v and v.endswith('Sense::Minimize'))
                                        or sense_number_variant(ctx, b, op, s) == 'Minimize')
        oks = oks and bi in maxr and is_min_val
    ctx.check(oks and every_other_path_passes([w[0] for w in sw]), R + '/sense-becomes-minimize', 'T-CONST', b.name, 'sense is not set to Minimize on every path of a maximisation problem', b.site())
    oko = bool(ow); neg_impls = set()
    def one_negation_of(e, source_ok):
        # exactly one negation, of the objective (owned, borrowed, cloned: the conversions are transparent), nothing else computed
        negs = function_negations(e)
        ok = len(negs) == 1 and source_ok(negs[0][1]) and not [x for x in T.expr_walk(e) if x[0] == 'call' and x[1] in ('neg', 'mul', 'sub', 'div', 'add') and x is not negs[0][0]]
        for n, arg in negs:
            c = [x for x in b.calls if x.bb == n[4]]
            if c and n[1] == 'neg': neg_impls.add(c[0].path)
        return ok
    via_getter = lambda a: T.expr_has_call(a, 'objective')
    via_field = lambda a: any(f == 'objective' and (o == INST or o.endswith('::' + INST)) for o, f in T.expr_fields(a)) and not T.expr_calls(T.strip_wrappers(a))
    is_zero = lambda a: a[0] == 'call' and a[1] == 'zero' and bool(re.search(r'Zero for v1::Function>::zero$|v1::Function>::zero$', a[2])) and not a[3]
    def branches_of(e):
        # a value assigned in several branches (`match` / `if let` as an expression): one expression per assignment
        if e[0] in ('local', 'place') and not (e[0] == 'place' and e[2]) and e[1] > b.argc and len(b.defs_of(e[1])) > 1:
            out = []
            for k, b2, d in b.defs_of(e[1]):
                if k == 'call':
                    c = [x for x in b.calls if x.bb == b2][0]
                    out.append((b2, ('call', c.item, c.name, [T.expr(b, a, depth=12) for a in c.args], b2)))
                elif not d['dst']['p']: out.append((b2, T._rv_expr(b, d['rv'])))
            return out
        return None
    for bi, fld, op, ex in ow:
        # the getter written out at the use site, the negation distributed over its arms:
        #   Some(match &self.objective { Some(o) => -o, None => -Function::zero() })  /  if let Some(o) = &self.objective { Some(-o) } else { Some(-Function::zero()) }
        tops = branches_of(ex) or [(bi, ex)]
        good = bi in maxr and all(e[0] == 'agg' and e[1].endswith('Option::Some') and len(e) > 2 and e[2] for _, e in tops)
        alts = None
        if good:
            expanded = []
            for b2, e in tops:
                inner = branches_of(e[2][0])
                expanded += inner if inner else [(b2, e[2][0])]
            if len(expanded) > 1: alts = expanded
        if alts is None:
            oko = oko and good and one_negation_of(ex, via_getter)
        else:
            tests = option_field_tests(b, INST, 'objective')
            some_only = set(); none_only = set()
            for sb, st_, nt_ in tests:
                rs_, rn_ = T.reach_cp(b, [st_], stop={sb}), T.reach_cp(b, [nt_], stop={sb})
                some_only |= rs_ - rn_; none_only |= rn_ - rs_
            kinds = set()
            for b2, e in alts:
                if b2 in some_only and one_negation_of(e, via_field): kinds.add('payload')
                elif b2 in none_only and one_negation_of(e, is_zero): kinds.add('zero')
                elif one_negation_of(e, via_getter): kinds.add('getter')
                else: kinds.add('other')
            oko = oko and good and 'other' not in kinds and (kinds == {'payload', 'zero'} or kinds == {'getter'})
    ctx.check(oko and every_other_path_passes([w[0] for w in ow]) and at_most_once([w[0] for w in ow]), R + '/objective-negated-once', 'T-BRANCHFX', b.name,
              'objective is not replaced by Some(-objective()) exactly once on the maximisation path', b.site())
    writes_only(ctx, R + '/only-sense-and-objective', b, {'sense', 'objective'})
    # the schema number behind Sense::Minimize
    adt = ctx.F.adt('v1::instance::Sense')
    if adt:
        d = {v['name']: v['discr'] for v in adt['variants']}
        ctx.check(d.get('Minimize') == 1 and d.get('Maximize') == 2, R + '/enum-numbers', 'T-CONST', 'v1::instance::Sense', 'Sense numbers are %s, schema says MINIMIZE=1, MAXIMIZE=2' % d)
    # Neg for Function really negates: delegates to `* -1` or per-variant negation.  Decided for the owned impl (anchor) and for
    # whichever impl (`Neg for Function` / `Neg for &Function`) the conversion actually calls.
    nb = ctx.F.one('v1::Function', 'neg', trait='Neg')
    impls = [nb] if nb is not None else []
    for pth in sorted(neg_impls):
        x = ctx.F.bodies.get(pth)
        if x is not None and x not in impls: impls.append(x)
        elif x is None: ctx.bad(R + '/function-neg', 'T-DELEG', b.name, 'the negation used (%s) has no body in the crate' % pth[:80], b.site())
    for nb in impls:
        ctx.fn(nb)
        s = ctx.S.backslice(nb, [0])
        ok = 1 in s.params and (s.has_const(r'^-1f64$') or s.has_call(r'ops::Neg'))
        ctx.check(ok, R + '/function-neg', 'T-DELEG', nb.name, 'Neg for Function neither multiplies by -1 nor negates its payload', nb.site())


# Ways of writing `minus a Function`  (what is negated = the non-constant operand)
#   -f            <Function as Neg>::neg(f)            impl for v1::Function
#   -&f           <&Function as Neg>::neg(&f)          impl for &v1::Function
#   f * -1.0      <Function as Mul<f64>>::mul(f, -1.0) / <&Function as Mul<f64>>  ;  -1.0 * f  <f64 as Mul<Function>>
FN_TY = r'&?\s*v1::Function'


def function_negations(ex):
    """[(call node, negated operand expr)] for every negation of a Function inside expression `ex`"""
    out = []
    for x in T.expr_walk(ex):
        if x[0] != 'call': continue
        if x[1] == 'neg' and re.search(r'ops::Neg for ' + FN_TY + r'>::neg$', x[2]) and x[3]:
            out.append((x, x[3][0]))
        elif x[1] == 'mul' and len(x[3]) == 2 and re.search(r'ops::Mul<.*> for .*>::mul$', x[2]) and re.search(FN_TY, x[2]):
            cs = [i for i, a in enumerate(x[3]) if a[0] == 'const' and T.f64_const(a[1]) == -1.0]
            if len(cs) == 1: out.append((x, x[3][1 - cs[0]]))
    return out


# ------------------------------------------------------------------------------------------------ best
# Who wins a comparison.  `smaller` = the candidate with the smaller objective is selected.
#   selection call     comparator cmp(first, second)          selected
#   min_by             cmp(a, b)   (natural)                  smaller
#   min_by             cmp(b, a)   (reversed)                 larger
#   max_by             cmp(a, b)                              larger
#   max_by             cmp(b, a)                              smaller
#   incumbent loop, replace the incumbent when
#     cmp(candidate, incumbent).is_lt() / is_le()  |  candidate < incumbent  |  cmp(incumbent, candidate).is_gt() / is_ge()  |  incumbent > candidate     smaller
#     the mirror images                                                                                                                                   larger
#   (ties are not part of C15: any best sample is acceptable)
CMP_ITEMS = ('total_cmp', 'partial_cmp', 'cmp')
ORD_TESTS = {'is_lt': '<', 'is_le': '<', 'is_gt': '>', 'is_ge': '>'}
BIN_TESTS = {'Lt': '<', 'Le': '<', 'Gt': '>', 'Ge': '>'}
FLIP = {'smaller': 'larger', 'larger': 'smaller'}


def by_sense(ctx, body, sites, tests):
    """sites: [(bb, verdict)] -> {'min': verdict, 'max': verdict} according to the side of the Minimize test each site is on;
    a site on neither side counts for both"""
    out = {}
    regs = [regions(body, t) for t in tests if t[1] == 'Minimize'] + [tuple(reversed(regions(body, t))) for t in tests if t[1] == 'Maximize']
    for bb, v in sites:
        sides = set()
        for minr, maxr in regs:
            if bb in minr: sides.add('min')
            if bb in maxr: sides.add('max')
        for s in (sides or {'min', 'max'}):
            out[s] = v if out.get(s, v) == v else 'conflict'
    return out


def ordering_expr(cb, e, flips=0, pa=2, pb=3, want=('1',)):
    """an Ordering-valued expression of a comparator closure -> 'natural' (cmp(a.1, b.1)) / 'reversed' (cmp(b.1, a.1)),
    seen through `.reverse()` and transparent wrappers"""
    for _ in range(6):
        e = T.strip_wrappers(e)
        if e[0] == 'call' and e[1] == 'reverse' and 'Ordering' in e[2] and e[3]: e = e[3][0]; flips += 1; continue
        break
    if not (e[0] == 'call' and e[1] in CMP_ITEMS and len(e[3]) == 2): return None
    def side(x):
        x = T.strip_wrappers(x)
        pl = [y for y in T.expr_walk(x) if y[0] == 'place' and y[1] in (pa, pb)]
        return (pl[0][1] if pl else None, pos_fields(T.expr_fields(x))[-1:])
    (i0, f0), (i1, f1) = side(e[3][0]), side(e[3][1])
    if not (f0 == list(want) and f1 == list(want) and {i0, i1} == {pa, pb}): return 'not-the-objective-values'
    nat = (i0, i1) == (pa, pb)
    return 'natural' if nat == (flips % 2 == 0) else 'reversed'


SENSES = ('Minimize', 'Maximize', 'Unspecified')


def sense_assumptions(ctx, body, S):
    """assumed results of every test of a Sense value in `body` when that value is the variant S:
    (assume_stmt, assume_call, tested operands)"""
    a_st = {}; a_call = {}; ops = []
    adt = ctx.F.adt('v1::instance::Sense')
    num = {v['name']: v['discr'] for v in adt['variants']} if adt else {}
    for c in body.calls:
        if c.item in ('eq', 'ne') and 'PartialEq' in (c.trait or '') and re.search(SENSE_RE, c.self_ty or ''):
            vs = [enum_variant_of_operand(ctx, body, a) for a in c.args]
            v = [x.split('::')[-1] for x in vs if x and 'Sense::' in x]
            src = [a for a, x in zip(c.args, vs) if not (x and 'Sense::' in x)]
            if v and src: a_call[c.bb] = (v[0] == S) == (c.item == 'eq'); ops.append(src[0])
    for bi, st in body.stmts():
        rv = st['rv']
        if rv['k'] == 'discr' and not st['dst']['p'] and re.search(SENSE_RE, body.locals[rv['pl']['l']].lstrip('&').strip()) and S in num:
            a_st[id(st)] = ('D', num[S]); ops.append({'k': 'copy', 'pl': rv['pl']})
    for t in sense_tests(ctx, body):
        # the integer form found by sense_tests (site = the `bin Eq` statement's block)
        for bi, st in body.stmts():
            if bi == t[0] and st['rv']['k'] == 'bin' and st['rv']['op'] in ('Eq', 'Ne') and not st['dst']['p'] and any(o is t[4] for o in st['rv']['ops']):
                a_st[id(st)] = (t[1] == S) == (st['rv']['op'] == 'Eq'); ops.append(t[4])
    return a_st, a_call, ops


def fn_pointer_callee(cb, call):
    """local holding the function an indirect call goes through.  The fact file does not export the callee operand of an
    indirect call (engine gap, see notes): it is the fn-pointer typed local of the body that has no recorded use."""
    cands = [l for l, ty in enumerate(cb.locals) if l > cb.argc and re.search(r'(^|> )fn\(', ty.strip()) and not cb.uses.get(l) and cb.defs_of(l)]
    indirect = [c for c in cb.calls if c.name.startswith('<indirect')]
    return cands[0] if len(cands) == 1 and len(indirect) == 1 and indirect[0] is call else None


def ordering_of_function(ctx, name, depth=0):
    """a two-argument function value returning an Ordering: 'natural' = cmp(first, second), 'reversed' = cmp(second, first)"""
    fb = ctx.F.bodies.get(name)
    if fb is None:
        return 'natural' if re.search(r'::(%s)$' % '|'.join(CMP_ITEMS), name) else None        # f64::total_cmp, Ord::cmp, PartialOrd::partial_cmp
    pa, pb = (2, 3) if fb.kind == 'closure' else (1, 2)
    out = set()
    for k, bi, d in fb.defs_of(0):
        if k == 'call':
            c = [x for x in fb.calls if x.bb == bi][0]
            e = ('call', c.item, c.name, [T.expr(fb, a) for a in c.args], bi)
        elif not d['dst']['p']: e = T._rv_expr(fb, d['rv'])
        else: continue
        out.add(ordering_expr(fb, e, pa=pa, pb=pb, want=[]) or 'unrecognised-ordering')
    return out.pop() if len(out) == 1 else 'unrecognised-ordering'


def comparator_under(ctx, b, sc, cb, S, parent_env):
    """what the comparator closure `cb` of selection call `sc` returns when the sense is S: set of 'natural' / 'reversed' / ...
    parent_env: values the closure's captures have when `sc` is reached (function values, flags computed from the sense)."""
    a_st, a_call, _ = sense_assumptions(ctx, cb, S)
    capture_seeds(cb, parent_env, a_st)
    indirect = {c.bb: fn_pointer_callee(cb, c) for c in cb.calls if c.name.startswith('<indirect')}
    seen = {}
    r = reach_x(cb, [0], assume_stmt=a_st, assume_call=a_call, watch={bb: l for bb, l in indirect.items() if l is not None}, seen_vals=seen)
    out = set()
    for k, bi, d in cb.defs_of(0):
        if bi not in r: continue
        if k == 'call':
            c = [x for x in cb.calls if x.bb == bi][0]
            args = [T.expr(cb, a) for a in c.args]
            if bi in indirect:
                # ranking(a, b) through a function value chosen outside: compose the argument order with what that function does
                vals = seen.get(bi, {'unknown'})
                order = ordering_expr(cb, ('call', 'cmp', '', args, bi))
                for v in vals:
                    f = ordering_of_function(ctx, v[1]) if isinstance(v, tuple) and v[0] == 'F' else None
                    if f in ('natural', 'reversed') and order in ('natural', 'reversed'): out.add('natural' if f == order else 'reversed')
                    else: out.add('unrecognised-function-value')
                continue
            e = ('call', c.item, c.name, args, bi)
        elif not d['dst']['p']: e = T._rv_expr(cb, d['rv'])
        else: continue
        out.add(ordering_expr(cb, e) or 'unrecognised-ordering')
    return out


def capture_seeds(cb, parent_env, a_st):
    """reads of captured variables whose value is known in the parent: assumed results for reach_x"""
    for bi, st in cb.stmts():
        if st['dst']['p'] or st['rv']['k'] not in ('use',) or st['rv']['ops'][0]['k'] not in ('copy', 'move'): continue
        e = T.expr(cb, st['rv']['ops'][0], depth=6)
        if e[0] == 'place' and e[1] == 1 and len(e[2]) == 1 and e[2][0][0] == 'closure' and e[2][0][1].isdigit():
            v = parent_env.get(int(e[2][0][1]), 'unknown')
            if v != 'unknown' and not cb.locals[st['dst']['l']].strip().startswith('&'): a_st.setdefault(id(st), v)


def reducer_under(ctx, b, cb, S, parent_env):
    """`it.reduce(|incumbent, challenger| if <challenger better> { challenger } else { incumbent })` (incumbent = _2, challenger = _3):
    which objective the reduction prefers when the sense is S.  One comparison of the two `.1` must be reachable; its Ordering test
    decides which of the two arguments is returned; `returned challenger  <=>  challenger.1 < incumbent.1` is `smaller`."""
    a_st, a_call, _ = sense_assumptions(ctx, cb, S)
    capture_seeds(cb, parent_env, a_st)
    r = reach_x(cb, [0], assume_stmt=a_st, assume_call=a_call)
    def who(op):
        e = T.expr(cb, op, depth=12)
        pl = [y for y in T.expr_walk(e) if y[0] == 'place' and y[1] in (2, 3)]
        opaque = [y for y in T.expr_calls(e) if not T.TRANSPARENT.search(T.strip_generics_tail(y[2]))]
        if len({y[1] for y in pl}) != 1 or opaque: return (None, ())
        return ('inc' if pl[0][1] == 2 else 'cand', tuple(pos_fields(T.expr_fields(e))))
    tests = []       # (bb of the bool-valued test, sides, relation that holds between them when the test is true)
    for c in cb.calls:
        if c.bb in r and c.item in CMP_ITEMS and len(c.args) == 2:
            x, y = who(c.args[0]), who(c.args[1])
            for kind, bi, u in [z for al in T.copies_of(cb, c.dst['l']) for z in cb.uses.get(al, ())]:
                if kind != 'call': continue
                if u.item in ORD_TESTS and 'Ordering' in u.name: tests.append((u.bb, x, y, ORD_TESTS[u.item]))
                elif u.item in ('eq', 'ne') and 'PartialEq' in (u.trait or '') and 'Ordering' in (u.self_ty or ''):
                    vs = [enum_variant_of_operand(ctx, cb, a) for a in u.args]
                    v = [z.split('::')[-1] for z in vs if z and 'Ordering::' in z]
                    rel = {('eq', 'Less'): '<', ('eq', 'Greater'): '>', ('ne', 'Greater'): '<', ('ne', 'Less'): '>'}.get((u.item, v[0])) if v else None
                    if rel: tests.append((u.bb, x, y, rel))
    for bi, st in cb.stmts():
        rv = st['rv']
        if bi in r and rv['k'] == 'bin' and rv['op'] in BIN_TESTS and rv.get('ty') == 'f64' and not st['dst']['p']:
            tests.append((('stmt', id(st)), who(rv['ops'][0]), who(rv['ops'][1]), BIN_TESTS[rv['op']]))
    tests = sorted(set(tests), key=str)
    if len({t[0] for t in tests}) != 1 or len(tests) != 1: return {'unrecognised-reduction:%d comparisons reachable' % len(tests)}
    site, x, y, rel = tests[0]
    if {x[0], y[0]} != {'inc', 'cand'} or x[1] != ('1',) or y[1] != ('1',): return {'not-the-objective-values'}
    returned = {}
    for val in (True, False):
        st2 = dict(a_st); call2 = dict(a_call)
        if isinstance(site, tuple): st2[site[1]] = val
        else: call2[site] = val
        r2 = reach_x(cb, [0], assume_stmt=st2, assume_call=call2)
        outs = set()
        for k, bi, d in cb.defs_of(0):
            if bi not in r2: continue
            if k == 'stmt' and not d['dst']['p'] and d['rv']['k'] == 'use':
                w = who(d['rv']['ops'][0]); outs.add(w[0] if w[1] == () else None)
            else: outs.add(None)
        returned[val] = outs.pop() if len(outs) == 1 else None
    if {returned[True], returned[False]} != {'inc', 'cand'}: return {'unrecognised-reduction:the closure does not return one of its two arguments per outcome'}
    cand_smaller = (rel == '<') == (x[0] == 'cand')            # what the relation says when the test is true
    replace_when_true = returned[True] == 'cand'
    return {'smaller' if cand_smaller == replace_when_true else 'larger'}


def selection_by_call(ctx, R, b, sel):
    """`candidates.min_by(cmp)` / `max_by(cmp)`: for each value of the sense, which selection call is reached and what its
    comparator returns -- wherever the test of the sense sits: inside the comparator, around the selection calls
    (`match sense { Minimize => min_by(..), _ => max_by(..) }`), or hoisted into a flag / a function value the comparator uses."""
    per = {}; closures = {}
    for sc in sel:
        cb = ctx.F.bodies.get(closure_of(b, sc.args[1]))
        if cb is None or cb.argc != 3:
            ctx.bad(R + '/comparator', 'T-BRANCHFX', b.name, 'comparator closure of %s not found' % sc.item, b.site(sc.bb)); continue
        closures[sc.bb] = ctx.fn(cb)
        ctx.ok(R + '/comparator', 'T-BRANCHFX', b.site(sc.bb))
    tested = []
    for S in SENSES:
        a_st, a_call, ops = sense_assumptions(ctx, b, S); tested += ops
        # the locals behind the closure's captures, watched at the selection call
        caps = {}
        for sc in sel:
            if sc.bb not in closures: continue
            ls = []
            l = sc.args[1]['pl']['l']
            for _ in range(6):
                ds = b.defs_of(l)
                if len(ds) == 1 and ds[0][0] == 'stmt' and ds[0][2]['rv']['k'] == 'agg' and ds[0][2]['rv']['adt'].startswith('closure:'):
                    ls = [o['pl']['l'] if o['k'] in ('copy', 'move') and not o['pl']['p'] else -1 for o in ds[0][2]['rv']['ops']]; break
                if len(ds) == 1 and ds[0][0] == 'stmt' and ds[0][2]['rv']['k'] == 'use' and ds[0][2]['rv']['ops'][0]['k'] in ('copy', 'move'): l = ds[0][2]['rv']['ops'][0]['pl']['l']; continue
                break
            caps[sc.bb] = tuple(ls)
        seen = {}
        r = reach_x(b, [0], assume_stmt=a_st, assume_call=a_call, watch={bb: ls for bb, ls in caps.items() if ls}, seen_vals=seen)
        verdicts = set()
        for sc in sel:
            if sc.bb not in r or sc.bb not in closures: continue
            sel_of = {'natural': 'smaller', 'reversed': 'larger'} if sc.item == 'min_by' else {'natural': 'larger', 'reversed': 'smaller'}
            envs = seen.get(sc.bb) or {tuple('unknown' for _ in caps.get(sc.bb, ()))}
            for vals in envs:
                env = {k: v for k, v in enumerate(vals) if v != 'unknown'}
                if sc.item == 'reduce': verdicts |= reducer_under(ctx, b, closures[sc.bb], S, env)
                else:
                    for o in comparator_under(ctx, b, sc, closures[sc.bb], S, env):
                        verdicts.add(sel_of.get(o, o))
        per[S] = verdicts.pop() if len(verdicts) == 1 else ('conflict:%s' % sorted(verdicts) if verdicts else 'no-selection-reached')
    rows = {'min': per['Minimize'], 'max': per['Maximize'] if per['Maximize'] == per['Unspecified'] else 'Maximize:%s/Unspecified:%s' % (per['Maximize'], per['Unspecified'])}
    # the sense compared is the sample set's own
    sense_ok = bool(sel)
    for sc in sel:
        s = ctx.S.slice_operand(b, sc.args[1])
        sense_ok = sense_ok and (s.has_field(SS, 'sense') or any(ctx.S.slice_operand(b, o).has_field(SS, 'sense') for o in tested))
    return rows, sense_ok, [sc.bb for sc in sel]


def incumbents(body, lo):
    """locals holding `the best candidate so far` of loop lo: None before the loop, Some(..) assigned inside"""
    blocks = lo[4]; out = []
    for l in range(body.argc + 1, len(body.locals)):
        ds = body.defs_of(l)
        if len(ds) < 2: continue
        nones = []; somes = []; ok = True
        for k, bi, d in ds:
            if k != 'stmt' or d['dst']['p']: ok = False; break
            rv = d['rv']
            if rv['k'] == 'use' and rv['ops'][0]['k'] in ('copy', 'move') and not rv['ops'][0]['pl']['p']:
                td = body.defs_of(rv['ops'][0]['pl']['l'])
                if len(td) == 1 and td[0][0] == 'stmt' and not td[0][2]['dst']['p']: rv = td[0][2]['rv']
            if rv['k'] == 'agg' and rv['adt'].endswith('Option::None'): nones.append(bi)
            elif rv['k'] == 'agg' and rv['adt'].endswith('Option::Some'): somes.append((bi, rv))
            else: ok = False; break
        if ok and nones and somes and all(bi not in blocks for bi in nones) and all(bi in blocks for bi, _ in somes):
            out.append((l, nones, somes))
    return out


def selection_by_loop(ctx, R, b, lo, inc, somes):
    """`for cand in candidates { if best.is_none() || better(cand, best) { best = Some(cand) } }`"""
    nxt, header, some_bb, none_bb, blocks = lo
    U = {bi for bi, rv in somes}
    site = b.site(nxt.bb)
    # what is stored is the candidate itself (id and objective of the same item)
    stored = True
    for bi, rv in somes:
        e = T.expr(b, rv['ops'][0], depth=8)
        if e[0] == 'agg' and e[1] == 'tuple' and len(rv['ops']) == 1:
            pd = [d for d in b.defs_of(rv['ops'][0]['pl']['l'])] if rv['ops'][0]['k'] in ('copy', 'move') else []
            comps = pd[0][2]['rv']['ops'] if len(pd) == 1 and pd[0][0] == 'stmt' and pd[0][2]['rv']['k'] == 'agg' else []
            stored = stored and [item_fields(b, lo, o) for o in comps] == [['0'], ['1']]
        else:
            stored = stored and item_fields(b, lo, rv['ops'][0]) == []
    ctx.check(stored, R + '/incumbent-is-candidate', 'T-CARRY', b.name, 'the incumbent is not replaced by the (id, objective) of the current candidate', site)
    # comparisons candidate.1 <-> incumbent.1 and the bool made of them
    def who(op):
        f = item_fields(b, lo, op)
        if f is not None: return ('cand', f)
        e = T.expr(b, op)
        # (best as Some).0.1, best.unwrap().1, best.as_ref().unwrap().1, ...: a projection of the incumbent through transparent calls
        roots = [y for y in T.expr_walk(e) if y[0] in ('place', 'local') and y[1] == inc]
        opaque = [y for y in T.expr_calls(e) if not T.TRANSPARENT.search(T.strip_generics_tail(y[2]))]
        if roots and not opaque: return ('inc', pos_fields(T.expr_fields(e)))
        return (None, [])
    sites = []; a_call = {}; a_stmt = {}
    def verdict(x, y, rel):
        if {x[0], y[0]} != {'cand', 'inc'} or x[1] != ['1'] or y[1] != ['1']: return 'not-the-objective-values'
        cand_first = x[0] == 'cand'
        return 'smaller' if (rel == '<') == cand_first else 'larger'
    for c in b.calls:
        if c.bb in blocks and c.item in CMP_ITEMS and len(c.args) == 2:
            x, y = who(c.args[0]), who(c.args[1])
            if x[0] is None and y[0] is None: continue
            used = False
            for kind, bi, u in [z for al in T.copies_of(b, c.dst['l']) for z in b.uses.get(al, ())]:
                if kind == 'call' and u.item in ORD_TESTS and 'Ordering' in u.name:
                    sites.append((u.bb, verdict(x, y, ORD_TESTS[u.item]))); a_call[u.bb] = None; used = True
                elif kind == 'call' and u.item in ('eq', 'ne') and 'PartialEq' in (u.trait or '') and 'Ordering' in (u.self_ty or ''):
                    # ord == Ordering::Less  (!= Greater is `<=`, ties are not part of C15)
                    vs = [enum_variant_of_operand(ctx, b, a) for a in u.args]
                    v = [z.split('::')[-1] for z in vs if z and 'Ordering::' in z]
                    rel = {('eq', 'Less'): '<', ('eq', 'Greater'): '>', ('ne', 'Greater'): '<', ('ne', 'Less'): '>'}.get((u.item, v[0])) if v else None
                    if rel: sites.append((u.bb, verdict(x, y, rel))); a_call[u.bb] = None; used = True
            if not used: sites.append((c.bb, 'unrecognised-use-of-the-ordering'))
    for bi, st in b.stmts():
        rv = st['rv']
        if bi in blocks and rv['k'] == 'bin' and rv['op'] in BIN_TESTS and rv.get('ty') == 'f64' and not st['dst']['p']:
            x, y = who(rv['ops'][0]), who(rv['ops'][1])
            if x[0] is None and y[0] is None: continue
            sites.append((bi, verdict(x, y, BIN_TESTS[rv['op']]))); a_stmt[id(st)] = None
    tests = sense_tests(ctx, b)
    rows = by_sense(ctx, b, sites, tests)
    sense_ok = bool(tests) and all(ctx.S.slice_operand(b, t[4]).has_field(SS, 'sense') for t in tests)
    # the incumbent is replaced exactly when it is empty or the comparison says so
    # probe with the incumbent known to be None / Some: `match best`, `if let`, `let-else`, `best.is_none() ||`, `best.is_some() &&`
    first = header not in reach_x(b, [some_bb], stop=U, init={inc: ('V', 0)})
    no = reach_x(b, [some_bb], stop={header}, assume_stmt={k: False for k in a_stmt}, assume_call={k: False for k in a_call}, init={inc: ('V', 1)})
    yes = reach_x(b, [some_bb], stop=U, assume_stmt={k: True for k in a_stmt}, assume_call={k: True for k in a_call}, init={inc: ('V', 1)})
    iff = bool(sites) and not (no & U) and header not in yes
    ctx.check(first, R + '/first-candidate-taken', 'T-BRANCHFX', b.name, 'an empty incumbent is not always replaced by the candidate', site)
    ctx.check(iff, R + '/replaced-iff-better', 'T-BRANCHFX', b.name, 'the incumbent is not replaced exactly when the comparison with the candidate says so', site)
    return rows, sense_ok


def best_rules(ctx):
    R = 'C15.best'
    b = ctx.method(R + '/anchor', SS, 'best')
    if b is None: return
    rs = ctx.S.backslice(b, [0])
    loops = T.for_loops(b)
    # ---- the candidate record: a struct whose one field is filled from the id and another from objectives.get(id) stands for the pair
    RECORD_ALIAS.clear()
    getcalls = [c for c in b.calls if c.item == 'get' and c.path.endswith('SampledValues>::get')]
    nexts = [lo[0] for lo in loops]
    for bi, st in b.stmts():
        rv = st['rv']
        if rv['k'] != 'agg' or rv['adt'] in ('tuple', 'array') or rv['adt'].startswith(('closure:', 'std::', 'core::')) or len(rv.get('fields', [])) != len(rv['ops']) or len(rv['ops']) < 2: continue
        roles = {}
        for f, o in zip(rv['fields'], rv['ops']):
            sl = ctx.S.slice_operand(b, o)
            if any(g in sl.call_objs for g in getcalls): roles[f] = '1'
            elif any(n in sl.call_objs for n in nexts) and 2 in sl.params: roles[f] = '0'
        if sorted(roles.values()) == ['0', '1']:
            for f, r_ in roles.items(): RECORD_ALIAS[(rv['adt'], f)] = r_
    # ---- the selection: a min_by / max_by call, or a loop with an incumbent
    sel = [c for c in b.calls if c.item in ('min_by', 'max_by', 'reduce') and 'Iterator' in (c.trait or '') and c in rs.call_objs]
    incs = [(lo, l, nones, somes) for lo in loops for l, nones, somes in incumbents(b, lo) if l in rs.locals]
    ctx.check(bool(sel) != bool(incs) and len(incs) <= 1, R + '/selection', 'T-BRANCHFX', b.name,
              'no selection of the best candidate recognised (min_by / max_by call, or loop keeping an incumbent): %d calls, %d loops' % (len(sel), len(incs)), b.site())
    if bool(sel) == bool(incs) or len(incs) > 1: return
    if sel:
        rows, sense_ok, sel_bbs = selection_by_call(ctx, R, b, sel)
        src_ops = [sc.args[0] for sc in sel]; results = [sc.dst['l'] for sc in sel]
        errflow_ps(ctx, R + '/none-is-error', b, [sc for sc in sel if b.locals[sc.dst['l']].startswith('std::option::Option')], 'no sample selected')
        sel_loop = None
    else:
        lo, inc, nones, somes = incs[0]
        rows, sense_ok = selection_by_loop(ctx, R, b, lo, inc, somes)
        src_ops = [lo[0].args[0]]; results = [inc]; sel_loop = lo
        # what happens to the incumbent after the loop: None must end in an Err-exit
        bad = []; seen_use = False
        for kind, bi, x in b.uses.get(inc, ()):
            if bi in lo[4]: continue
            if kind == 'stmt' and x['rv']['k'] == 'use':
                o = x['rv']['ops'][0]
                if o['k'] in ('copy', 'move') and o['pl']['l'] == inc and not o['pl']['p'] and not x['dst']['p']:       # moved as a whole: follow it
                    seen_use = True; bad += [h for k, h in errflow_g(b, x['dst']['l']) if k == 'bad']
                # else: payload extraction, dominated by a discriminant test
            elif kind == 'stmt' and x['rv']['k'] == 'discr':
                seen_use = True
                for k3, b3, sw in b.uses.get(x['dst']['l'], ()):
                    if k3 == 'switch' and reach_x(b, [{v: t for v, t in sw['ts']}.get(0, sw['else'])]) & b.strict_ok_exits(): bad.append('None side of match reaches an Ok-exit')
            elif kind == 'stmt' and x['rv']['k'] == 'ref' and not x['dst']['p']:
                seen_use = True; bad += [h for k, h in errflow_g(b, x['dst']['l']) if k == 'bad']
            elif kind == 'call':
                seen_use = True
                if T.ERR_ADAPTORS.search(x.name) or ERR_KEEPING.search(x.name): bad += [h for k, h in errflow_g(b, x.dst['l']) if k == 'bad']
                else: bad.append('passed to ' + x.name[:60])
        ctx.check(seen_use and not bad, R + '/none-is-error', 'T-ERRFLOW', b.name, 'no sample selected: %s' % ('; '.join(sorted(set(bad))) or 'the incumbent is not used after the loop'), b.site(lo[0].bb))
    ctx.check(rows == {'min': 'smaller', 'max': 'larger'}, R + '/order-per-sense', 'T-BRANCHFX', b.name,
              'the selection must prefer the smaller objective for Minimize and the larger one otherwise; found %s' % rows, b.site(), table=str(rows))
    ctx.check(sense_ok, R + '/sense-of-set', 'T-CARRY', b.name, 'the sense tested is not self.sense', b.site())
    ctx.check(all(l in rs.locals for l in results), R + '/returns-selected', 'T-CARRY', b.name, 'the selected sample is not returned', b.site())
    # ---- the id (first component) of the selected pair is what is returned
    ids = []; others = []
    for c in b.calls:
        # opt.map(|(id, _)| id)
        if c.item == 'map' and 'Option' in c.name and c in rs.call_objs and any(l in ctx.S.slice_operand(b, c.args[0]).locals for l in results):
            for cn in [closure_of(b, c.args[1])]:
                cb = ctx.F.bodies.get(cn)
                if cb is None: continue
                for k2, bi, d in cb.defs_of(0):
                    # what the closure returns: the id component itself; anything computed from the record (a call, arithmetic) is not the id
                    if k2 == 'call':
                        cc = [x for x in cb.calls if x.bb == bi][0]
                        e = ('call', cc.item, cc.name, [T.expr(cb, a) for a in cc.args], bi)
                    elif not d['dst']['p']: e = T._rv_expr(cb, d['rv'])
                    else: continue
                    fs = pos_fields(T.expr_fields(e))
                    computed = [y for y in T.expr_calls(e) if not T.TRANSPARENT.search(T.strip_generics_tail(y[2]))] or [y for y in T.expr_walk(e) if y[0] in ('bin', 'un', 'cast')]
                    (ids if fs[-1:] == ['0'] and not computed else others).append(c.bb)
    for bi, st in b.stmts():
        # let Some((id, _)) = best else ..  /  match best { Some((id, _)) => id, .. }
        rv = st['rv']
        if rv['k'] == 'use' and not st['dst']['p'] and st['dst']['l'] in rs.locals and rv['ops'][0]['k'] in ('copy', 'move') and rv['ops'][0]['pl']['l'] in results:
            fs = pos_fields(fields_of_place(rv['ops'][0]['pl']))
            if fs: (ids if fs[-1:] == ['0'] else others).append(bi)
    sel_bbs_ = {sc.bb for sc in sel}
    for k, bi, d in b.defs_of(0):
        # let (id, _) = <selection>.context(..)?; Ok(*id)   -- the value wrapped in the returned Ok, as an expression
        if k == 'stmt' and not d['dst']['p'] and d['rv']['k'] == 'agg' and d['rv']['adt'].endswith('Result::Ok') and len(d['rv']['ops']) == 1:
            e = T.expr(b, d['rv']['ops'][0], depth=18)
            for _ in range(6):
                if e[0] == 'call' and T.TRANSPARENT.search(T.strip_generics_tail(e[2])) and e[3]: e = e[3][0]; continue
                break
            involved = any(len(x) > 4 and x[4] in sel_bbs_ for x in T.expr_calls(e)) or any(y[0] in ('place', 'local') and y[1] in results for y in T.expr_walk(e))
            tf = pos_fields(T.own_fields(e))
            computed = any(y[0] in ('bin', 'un', 'cast') for y in T.expr_walk(e))       # Ok(f(id)) is not the id
            if involved and computed: others.append(bi)
            elif involved and tf: (ids if tf[-1:] == ['0'] else others).append(bi)
    if ids and not others: ctx.ok(R + '/returns-id', 'T-CARRY', b.site(ids[0]))
    elif others: ctx.bad(R + '/returns-id', 'T-CARRY', b.name, 'the id (first component) of the selected pair is not what is returned', b.site(others[0]))
    else: ctx.undecided(R + '/returns-id', 'T-CARRY', b.site(), 'how the id is taken out of the selected pair is not recognised; that the selected pair flows into the u64 result is decided (returns-selected)')
    # ---- objective lookup for every candidate id, missing => error; sense conversion error propagates
    gets = [c for c in b.calls if c.item == 'get' and c.path.endswith('SampledValues>::get')]
    # the table looked up is the sample set's own `objectives` field -- read through the private helper objectives() or directly
    own_table = all(ctx.S.slice_operand(b, g.args[0]).has_field(SS, 'objectives') for g in gets)
    ctx.check(bool(gets) and own_table, R + '/objective-lookup', 'T-ERRFLOW', b.name, 'no objectives.get(id)' if not gets else 'the table looked up is not self.objectives', b.site())
    id_loops = []
    for g in gets:
        inside = [lo for lo in loops if g.bb in lo[4]]
        lo = min(inside, key=lambda x: len(x[4])) if inside else None
        ok = lo is not None and 2 in ctx.S.slice_operand(b, lo[0].args[0]).params and lo[0] in ctx.S.slice_operand(b, g.args[1]).call_objs
        ctx.check(ok, R + '/objective-of-the-candidate', 'T-CARRY', b.name, 'the objective looked up is not that of the candidate id taken from the `ids` argument', b.site(g.bb))
        if ok:
            id_loops.append(lo)
            loop_must(ctx, R + '/every-candidate-looked-up', b, lo, lambda x, g=g: x is g, 'objectives.get(id)')
        errflow_ps(ctx, R + '/missing-objective-is-error', b, [g], 'missing objective')
    tf = [c for c in b.calls if c.item in ('try_from', 'try_into') and 'Sense' in c.name]
    errflow_ps(ctx, R + '/invalid-sense-is-error', b, tf, 'invalid sense')
    # an absent `objectives` field is an error: identified by the field, however it is read --
    #   self.objectives()?                                  the helper's Result (its own body reads the field)
    #   self.objectives.as_ref().context(..)? / ok_or..      a call taking the field: its Option result
    #   match &self.objectives { Some(o) => o, None => bail!(..) } / let-else      a test of the field: the None side
    oc = [c for c in b.calls if c.item == 'objectives' and c.path.endswith('SampleSet>::objectives')]
    def takes_the_field(c):
        fs, root, crossed = T.access_path(b, c.args[0])           # the field itself (borrowed / copied), not something computed from it
        return root == 1 and not crossed and [f for a, f in fs if a == SS or a.endswith('::' + SS)][-1:] == ['objectives'] and all(a == SS or a.endswith('::' + SS) for a, f in fs)
    direct = [c for c in b.calls if c not in oc and c.args and takes_the_field(c)]
    tests = option_field_tests(b, SS, 'objectives')
    if oc or direct:
        errflow_ps(ctx, R + '/missing-objectives-is-error', b, oc + direct, 'missing objectives')
    elif tests:
        badn = [sb for sb, st_, nt_ in tests if reach_x(b, [nt_]) & b.strict_ok_exits()]
        ctx.check(not badn, R + '/missing-objectives-is-error', 'T-ERRFLOW', b.name, 'missing objectives: the None side of the test of self.objectives reaches an Ok-exit', b.site(tests[0][0]))
    else:
        ctx.bad(R + '/missing-objectives-is-error', 'T-ERRFLOW', b.name, 'how the absence of self.objectives is handled is not recognised (no helper call, no adaptor on the field, no test of it)', b.site())
    # ---- all candidates take part: what is selected from is the ids loop itself, or a collection every id was pushed to
    probs = []
    for op in src_ops:
        s = ctx.S.slice_operand(b, op)
        restr = sorted({x.item for x in s.call_objs if x.item in RESTRICTING and 'Iterator' in (x.trait or '')})
        if restr: probs.append('restricted by %s' % restr)
        if 2 not in s.params: probs.append('does not derive from the `ids` argument')
        if sel_loop is not None and sel_loop in id_loops: continue
        feeders = [(lo, [c for c in b.calls if c.bb in lo[4] and c.item in ('push', 'insert', 'push_back') and c in s.call_objs]) for lo in id_loops]
        feeders = [(lo, pushes) for lo, pushes in feeders if pushes]
        if not feeders: probs.append('no collection filled from the candidate ids')
        for lo, pushes in feeders:
            if not T.must_pass(b, lo[2], {lo[1]}, {c.bb for c in pushes}): probs.append('a candidate can be skipped before it is collected')
            if not all(any(g in ctx.S.slice_operand(b, c.args[-1]).call_objs for g in gets) for c in pushes): probs.append('the collected value is not the looked-up objective')
    ctx.check(not probs, R + '/all-candidates', 'T-LOOPMUST', b.name, 'not every candidate id takes part in the selection: %s' % '; '.join(probs), b.site())


# ------------------------------------------------------------------------------------- feasible id sets
def keeps_true_flags(ctx, rule, b):
    found, why = keeps_true_flags_problems(ctx, b)
    ctx.check(found == [], rule, 'T-BRANCHFX', b.name, 'does not keep exactly the ids whose flag is true: %s' % ('; '.join(found) if found else why), b.site())


def keeps_true_flags_problems(ctx, b):
    """the returned set gets exactly the keys of the map whose flag is true:
    in the loop over the map, with every read of `item.1` assumed false no insertion is reachable, with
    every read assumed true every iteration inserts, and what is inserted is `item.0`"""
    found = None; why = 'no loop over (id, flag) pairs inserting into the result'
    for lo in T.for_loops(b):
        nxt, header, some_bb, none_bb, blocks = lo
        ins = [c for c in b.calls if c.bb in blocks and c.item in ('insert', 'push') and re.search(r'(BTreeSet|HashSet|Vec)::<.*>::(insert|push)$', c.name)]
        if not ins: continue
        flags = [st for bi, st in b.stmts() if bi in blocks and not st['dst']['p'] and st['rv']['k'] == 'use' and b.locals[st['dst']['l']].strip() == 'bool'
                 and st['rv']['ops'][0]['k'] in ('copy', 'move') and item_fields(b, lo, st['rv']['ops'][0]) == ['1']]
        # ... or tested in place: a switch directly on `*item.1`
        flag_switches = [bi for bi in sorted(blocks) if b.blocks[bi]['term']['k'] == 'switch' and b.blocks[bi]['term']['d']['k'] in ('copy', 'move')
                         and b.blocks[bi]['term']['d']['pl']['p'] and item_fields(b, lo, b.blocks[bi]['term']['d']) == ['1']]
        if not flags and not flag_switches: why = 'the flag of the pair is never read'; continue
        U = {c.bb for c in ins}
        no = reach_x(b, [some_bb], stop={header}, assume_stmt={id(st): False for st in flags}, assume_switch={bi: False for bi in flag_switches})
        yes = reach_x(b, [some_bb], stop=U, assume_stmt={id(st): True for st in flags}, assume_switch={bi: True for bi in flag_switches})
        probs = []
        if no & U: probs.append('an id whose flag is false can be inserted')
        if header in yes: probs.append('an id whose flag is true can be skipped')
        if not all(item_fields(b, lo, c.args[-1]) == ['0'] for c in ins): probs.append('what is inserted is not the id of the pair')
        s = ctx.S.slice_operand(b, nxt.args[0])
        restr = sorted({x.item for x in s.call_objs if x.item in RESTRICTING and 'Iterator' in (x.trait or '')})
        if restr: probs.append('the pairs are restricted by %s' % restr)
        rs = ctx.S.backslice(b, [0])
        if not all(c in rs.call_objs for c in ins): probs.append('the set inserted into is not the result')
        found = probs
    return found, why


def pair_rules(ctx):
    R = 'C15.pair'
    chain = {
        'best_feasible_id': ('best', 'feasible_ids'), 'best_feasible_unrelaxed_id': ('best', 'feasible_unrelaxed_ids'),
        'best_feasible': ('get', 'best_feasible_id'), 'best_feasible_unrelaxed': ('get', 'best_feasible_unrelaxed_id'),
        'feasible_ids': (None, 'feasible_relaxed'), 'feasible_unrelaxed_ids': (None, 'feasible_unrelaxed'),
    }
    for fn, (outer, inner) in chain.items():
        b = ctx.method(R + '/%s/anchor' % fn, SS, fn)
        if b is None: continue
        rs = ctx.S.backslice(b, [0], depth=0)
        names = [c.item for c in rs.call_objs if c.path.endswith('SampleSet>::' + c.item)]
        # `inner()?` then `outer(..)`  ==  `inner().and_then(|x| self.outer(x))` / `.map(..)`: calls made in this function's own closures that the result passes through
        for cn in sorted(rs.closures):
            cb = ctx.F.bodies.get(cn)
            if cb is None or not cn.startswith(b.name + '::'): continue
            crs = ctx.S.backslice(cb, [0], depth=0)
            names += [c.item for c in crs.call_objs if c.path.endswith('SampleSet>::' + c.item)]
        other = {'feasible_ids': 'feasible_unrelaxed_ids', 'feasible_unrelaxed_ids': 'feasible_ids', 'best_feasible_id': 'best_feasible_unrelaxed_id', 'best_feasible_unrelaxed_id': 'best_feasible_id',
                 'feasible_relaxed': 'feasible_unrelaxed', 'feasible_unrelaxed': 'feasible_relaxed'}[inner]
        # nothing of the other side may flow into the result, on any path: the relaxed family (remaining constraints) and the
        # unrelaxed family (all constraints) are not interchangeable (seed C15-18: early `return self.best_feasible_id()` in the unrelaxed twin)
        RELAXED = {'feasible_relaxed', 'feasible_ids', 'best_feasible_id', 'best_feasible'}
        UNRELAXED = {'feasible_unrelaxed', 'feasible_unrelaxed_ids', 'best_feasible_unrelaxed_id', 'best_feasible_unrelaxed'}
        wrong_side = sorted(set(names) & (UNRELAXED if fn in RELAXED else RELAXED) - {fn})
        ok = inner in names and other not in names and (outer is None or outer in names) and not wrong_side
        # ... and every success path delivers what `outer(inner())` delivers: each non-error definition of the result derives from both
        if ok and outer is not None:
            errs = b.err_exits()
            for k2, bi2, d2 in b.defs_of(0):
                if bi2 in errs: continue
                if k2 == 'call':
                    c2 = [x for x in b.calls if x.bb == bi2][0]
                    starts = [a['pl']['l'] for a in c2.args if a['k'] in ('copy', 'move')]
                    own = [c2.item] if c2.path.endswith('SampleSet>::' + c2.item) else []
                elif not d2['dst']['p']:
                    starts = [o['pl']['l'] for o in d2['rv'].get('ops', []) if o['k'] in ('copy', 'move')] + ([d2['rv']['pl']['l']] if 'pl' in d2['rv'] else [])
                    own = []
                else: continue
                sl = ctx.S.backslice(b, starts, depth=0)
                nd = own + [c.item for c in sl.call_objs if c.path.endswith('SampleSet>::' + c.item)]
                for cn in sorted(sl.closures):
                    cb = ctx.F.bodies.get(cn)
                    if cb is None or not cn.startswith(b.name + '::'): continue
                    nd += [c.item for c in ctx.S.backslice(cb, [0], depth=0).call_objs if c.path.endswith('SampleSet>::' + c.item)]
                acc_ok = outer == 'best' and chain[inner][1] in nd
                if not (outer in nd and (inner in nd or acc_ok)): ok = False; names = names + ['<a success path without %s(%s())>' % (outer, inner)]
        if not ok and outer == 'best' and outer in names and inner not in names and other not in names:
            # the id set is not taken from the public `<inner>()` but built here (a private helper, inlined): it must be built the way
            # `<inner>()` is -- from the same accessor, keeping exactly the ids whose flag is true -- and be what `best` gets
            acc = chain[inner][1]; other_acc = chain[other][1]
            if acc in names and other_acc not in names:
                ok = keeps_true_flags_problems(ctx, b)[0] == []
        ctx.check(ok, R + '/%s/uses-%s' % (fn, inner), 'T-CARRY', b.name, '%s must be built from %s%s (calls: %s)' % (fn, inner, ' through ' + outer if outer else '', sorted(set(names))), b.site())
        if outer == 'get':
            errflow_ps(ctx, R + '/%s/error' % fn, b, [c for c in b.calls if c.item == inner], 'no feasible sample')
        if outer is None:
            keeps_true_flags(ctx, R + '/%s/keeps-true-flags' % fn, b)


# ----------------------------------------------------------------------------- objective of one sample
# Membership of the sample id in an entry's id list.  NOT in the table: `binary_search(..).is_ok()` (only equivalent on a
# sorted list; nothing keeps `ids` sorted -- seed C15-6), `first() == Some(&id)`, `last()`, range tests.
#   ids.contains(&id)                      <[u64]>::contains / Vec::contains
#   ids.iter().any(|x| *x == id)           normal form: inner loop with `x == id`  (also position(..).is_some(), find(..).is_some())
MEMBER_CALLS = ('contains',)
SOME_KEEPING = re.compile(r'Option::<.*>::(map|copied|cloned|as_ref|as_deref|inspect)(::<.*>)?$')      # Some iff the receiver is Some


def lookup_rules(ctx):
    """SampledValues::get(id) = value of the (first) entry whose ids contain id, None if there is none.
    best() ranks samples by what this returns, SampleSet::get reports it."""
    R = 'C15.lookup'
    ENT = 'v1::sampled_values::SampledValuesEntry'
    b = ctx.method(R + '/anchor', 'v1::SampledValues', 'get')
    if b is None: return
    def over_entries(lo):
        e = T.expr(b, lo[0].args[0], depth=14)          # self.entries itself, not something reached through another loop's item
        return any(f == 'entries' for a, f in T.expr_fields(e)) and not any(x[1] == 'next' for x in T.expr_calls(e))
    loops = [lo for lo in T.for_loops(b) if over_entries(lo)]
    # the same relation {(id, e.value) | e in entries, id in e.ids} through the existing accessor: a loop over `self.iter()` pairs
    def over_pairs(lo):
        e = T.expr(b, lo[0].args[0], depth=14)
        return any(x[1] == 'iter' and x[2].endswith('SampledValues>::iter') for x in T.expr_calls(e)) and not any(x[1] == 'next' for x in T.expr_calls(e))
    pair_loops = [lo for lo in T.for_loops(b) if over_pairs(lo)] if not loops else []
    pairs = len(pair_loops) == 1
    ctx.check(len(loops) == 1 or pairs, R + '/entries-loop', 'T-LOOPMUST', b.name, 'no (single) loop over self.entries or over the (id, value) pairs of self.iter()', b.site())
    if len(loops) != 1 and not pairs: return
    lo = pair_loops[0] if pairs else loops[0]; nxt, header, some_bb, none_bb, blocks = lo
    site = b.site(nxt.bb)
    it = T.expr(b, nxt.args[0], depth=14)
    restr = sorted({x[1] for x in T.expr_calls(it) if x[1] in RESTRICTING or x[1] in ('rev',)})
    ctx.check(not restr, R + '/every-entry', 'T-LOOPMUST', b.name, 'the entries are restricted / reordered by %s' % restr, site)
    if pairs:
        # the accessor really yields (id, &entry.value) for every id of every entry
        ib = ctx.F.one('v1::SampledValues', 'iter')
        okp = False
        if ib is not None:
            ctx.fn(ib)
            irs = ctx.S.backslice(ib, [0])
            shape = irs.has_field('v1::SampledValues', 'entries') and irs.has_field(ENT, 'ids') and not {x for x in irs.calls if re.search(r'Iterator>::(%s)(::<.*>)?$' % '|'.join(RESTRICTING + ('rev',)), x)}
            tup = False
            for cb in cone_of(ctx, ib):
                for k, bi, d in cb.defs_of(0):
                    if k == 'stmt' and not d['dst']['p'] and d['rv']['k'] == 'agg' and d['rv']['adt'] == 'tuple' and len(d['rv']['ops']) == 2:
                        e0 = T.strip_wrappers(T.expr(cb, d['rv']['ops'][0])); e1 = T.expr(cb, d['rv']['ops'][1])
                        tup = tup or (e0[0] == 'place' and e0[1] == 2 and not e0[2] and [f for a, f in T.expr_fields(e1) if a.endswith('SampledValuesEntry')][-1:] == ['value'])
            okp = shape and tup
        ctx.check(okp, R + '/pairs-accessor', 'T-CARRY', b.name, 'SampledValues::iter does not yield (id, &entry.value) for every id of every entry', site)
    # ---- membership tests of the id in *this* entry's ids
    def of_item_ids(op):
        e = T.expr(b, op, depth=14)
        return any(f == 'ids' for a, f in T.expr_fields(e)) and any(x[0] == 'call' and len(x) > 4 and x[4] == nxt.bb for x in T.expr_walk(e))
    def is_key(op):
        s_ = ctx.S.slice_operand(b, op)
        return 2 in s_.params and not s_.has_field(ENT, 'ids') and nxt not in s_.call_objs
    a_call = {}; a_stmt = {}
    for c in b.calls:
        if not pairs and c.item in MEMBER_CALLS and len(c.args) == 2 and re.search(r'(\[u64\]|Vec::<u64>|Vec<u64>)', c.name) and of_item_ids(c.args[0]) and is_key(c.args[1]):
            a_call[c.bb] = None
    for bi, st in b.stmts():
        rv = st['rv']
        if rv['k'] == 'bin' and rv['op'] in ('Eq', 'Ne') and not st['dst']['p']:
            if pairs:
                # pair.0 == id
                for ox, oy in ((rv['ops'][0], rv['ops'][1]), (rv['ops'][1], rv['ops'][0])):
                    if item_fields(b, lo, ox) == ['0'] and is_key(oy): a_stmt[id(st)] = (rv['op'] == 'Ne'); break
                continue
            sl = [ctx.S.slice_operand(b, o) for o in rv['ops']]
            for x, y, oy in ((sl[0], sl[1], rv['ops'][1]), (sl[1], sl[0], rv['ops'][0])):
                if x.has_field(ENT, 'ids') and nxt in x.call_objs and is_key(oy): a_stmt[id(st)] = (rv['op'] == 'Ne'); break
    ctx.check(bool(a_call) or bool(a_stmt), R + '/membership', 'T-GUARD', b.name,
              'no test whether the sample id is among the ids of the entry (ids.contains(&id) or an equivalent element-wise comparison)', site)
    if not a_call and not a_stmt: return
    # ---- where the result can become Some(..)
    some_sites = set(); cond_sites = {}; unknown = []; result_locals = set()
    def walk(l, depth=0):
        result_locals.add(l)
        for k, bi, d in b.defs_of(l):
            if k == 'stmt':
                if d['dst']['p']: unknown.append(bi); continue
                rv = d['rv']
                if rv['k'] == 'agg' and rv['adt'].endswith('Option::Some'): some_sites.add(bi)
                elif rv['k'] == 'agg' and rv['adt'].endswith('Option::None'): pass
                elif rv['k'] == 'use' and rv['ops'][0]['k'] in ('copy', 'move') and not rv['ops'][0]['pl']['p'] and depth < 8: walk(rv['ops'][0]['pl']['l'], depth + 1)
                else: unknown.append(bi)
            else:
                nm = d['r'] or d['f']; a0 = d['args'][0] if d['args'] else None
                if SOME_KEEPING.search(nm) and a0 and a0['k'] in ('copy', 'move') and not a0['pl']['p'] and depth < 8: walk(a0['pl']['l'], depth + 1)
                elif re.search(r'bool>::then_some(::<.*>)?$', nm) and a0 and a0['k'] in ('copy', 'move') and not a0['pl']['p']: cond_sites[bi] = a0['pl']['l']
                else: unknown.append(bi)
    walk(0)
    ctx.check(not unknown and (some_sites or cond_sites), R + '/result-shape', 'T-CARRY', b.name, 'how the result becomes Some(..) is not recognised (bb%s)' % sorted(set(unknown)), site)
    if unknown or not (some_sites or cond_sites): return
    def neg(member):
        # assumed results of all membership tests when the id is / is not in the entry (a_stmt holds the value for `not in`)
        return {k: member for k in a_call}, {k: (x if not member else not x) for k, x in a_stmt.items()}
    # id in no entry  =>  never Some
    ac, as_ = neg(False); seen = {}
    r = reach_x(b, [0], assume_call=ac, assume_stmt=as_, watch=cond_sites, seen_vals=seen)
    probs = []
    if r & some_sites: probs.append('Some(..) is reachable although no membership test succeeded (bb%s)' % sorted(r & some_sites))
    if any(v is not False for bi in cond_sites if bi in r for v in seen.get(bi, ())): probs.append('then_some(..) can yield Some although no membership test succeeded')
    ctx.check(not probs, R + '/absent-is-none', 'T-BRANCHFX', b.name, '; '.join(probs), site)
    # id in this entry  =>  Some, without looking further
    ac, as_ = neg(True); seen = {}
    hits = some_sites | {bi for bi in cond_sites}
    nothing_yet = {l: ('V', 0) for l in result_locals}      # `if found.is_none() && ..`: an entry may be passed over once the result is there
    # element-wise membership (`ids.iter().any(|x| *x == id)`): with every comparison true the inner loop can only be left
    # unsuccessfully when `ids` is empty, i.e. when the id is not in it -- not a path of this probe
    inner_exhausted = {lo2[3] for lo2 in T.for_loops(b) if lo2[0].bb in blocks and lo2[0] is not nxt} if a_stmt else set()
    r = reach_x(b, [some_bb], stop=hits | inner_exhausted, assume_call=ac, assume_stmt=as_, init=nothing_yet)
    r2 = reach_x(b, [some_bb], assume_call=ac, assume_stmt=as_, init=nothing_yet, watch=cond_sites, seen_vals=seen)
    probs = []
    if header in r: probs.append('an entry containing the id can be passed over')
    if any(v is not True for bi in cond_sites if bi in r2 for v in seen.get(bi, ())): probs.append('then_some(..) can yield None for an entry containing the id')
    ctx.check(not probs, R + '/present-is-found', 'T-BRANCHFX', b.name, '; '.join(probs), site)
    # ---- what is returned is that entry's value
    rs = ctx.S.backslice(b, [0])
    if pairs:
        # pair.1; the id (pair.0) may only come in through the flag of `flag.then_some(*value)`
        then_vals = [c.args[1] for c in b.calls if c.bb in cond_sites]
        is_value = ('tuple', '1') in rs.fields and (all(item_fields(b, lo, o) == ['1'] for o in then_vals) if then_vals else ('tuple', '0') not in rs.fields)
    else:
        is_value = rs.has_field(ENT, 'value')
    ctx.check(is_value and nxt in rs.call_objs, R + '/returns-value', 'T-CARRY', b.name,
              'the result is not the `value` of the entry found', site)


# --------------------------------------------------------------------------------- legacy field fallback
def legacy_rules(ctx):
    R = 'C15.legacy'
    want = {'feasible_relaxed': ('feasible', 'feasible_relaxed'), 'feasible_unrelaxed': ('feasible_unrelaxed', 'feasible')}
    for fn, (when_empty, otherwise) in want.items():
        b = ctx.method(R + '/%s/anchor' % fn, SS, fn)
        if b is None: continue
        emp = [c for c in b.calls if c.item == 'is_empty' and (SS, 'feasible_relaxed') in T.access_path(b, c.args[0])[0]]
        # which field is returned when `self.feasible_relaxed.is_empty()` is true / false: probe both values
        def field_of(pl, r, pend=(), depth=12):
            # field of self a reference points into.  A local assigned in several branches (`match` / `if` as an expression, an
            # inlined helper's result) is resolved through the assignments reachable under the probe; a tuple built on the way
            # (`(relaxed, unrelaxed)` returned by a shared helper) is taken apart again: `pend` = tuple components still to select
            flds = fields_of_place(pl)
            named = [(a, f) for a, f in flds if a != 'tuple' and not T.WRAPPER_OWNER.search(a)]
            if named: return {named[-1][1]} if (named[-1][0] == SS or named[-1][0].endswith('::' + SS)) and not pend else {None}
            pend = tuple(f for a, f in flds if a == 'tuple') + tuple(pend)
            l = pl['l']
            if depth == 0 or 1 <= l <= b.argc: return {None}
            out = set()
            for k, bi, d in b.defs_of(l):
                if bi not in r: continue
                if k != 'stmt' or d['dst']['p']: out.add(None); continue
                rv = d['rv']
                if rv['k'] == 'ref': out |= field_of(rv['pl'], r, pend, depth - 1)
                elif rv['k'] == 'use' and rv['ops'][0]['k'] in ('copy', 'move'): out |= field_of(rv['ops'][0]['pl'], r, pend, depth - 1)
                elif rv['k'] == 'agg' and rv['adt'] == 'tuple' and pend and pend[0].isdigit() and int(pend[0]) < len(rv['ops']) and rv['ops'][int(pend[0])]['k'] in ('copy', 'move'):
                    out |= field_of(rv['ops'][int(pend[0])]['pl'], r, pend[1:], depth - 1)
                else: out.add(None)
            return out or {None}
        def ret_fields(value):
            r = reach_x(b, [0], assume_call={c.bb: value for c in emp})
            out = set()
            for bi, st in b.stmts():
                if bi in r and st['dst']['l'] == 0 and not st['dst']['p'] and st['rv']['k'] in ('ref', 'use'):
                    pl = st['rv'].get('pl') or st['rv']['ops'][0].get('pl')
                    out |= field_of(pl, r) if pl else {None}
            return sorted(out, key=str)
        got = (ret_fields(True), ret_fields(False)) if emp else None
        ok = got == ([when_empty], [otherwise])
        ctx.check(ok, R + '/%s/fallback-table' % fn, 'T-BRANCHFX', b.name, 'must return &%s when feasible_relaxed is empty and &%s otherwise; found %s' % (when_empty, otherwise, got), b.site(), table=str(got))


# "sample sets decoded from messages written by older releases": the field numbers of SampleSet (and of
# what it contains) are decided by the C07 schema tables — re-decided here for those messages
RELIES_ON = {'C07': ['C07.history/field/ommx.v1.SampleSet#', 'C07.history/name/ommx.v1.SampleSet', 'C07.rust/field/ommx.v1.SampleSet', 'C07.python/field/ommx.v1.SampleSet',
                     'C07.history/name/ommx.v1.SampledValues', 'C07.history/name/ommx.v1.SampledConstraint', 'C07.history/name/ommx.v1.SampledDecisionVariable'],
             # objectives and feasibility flags are read through the compressed-value lookup (seed C15-6 broke it)
             # the Solution returned by best_feasible* takes its two flags through the accessors with the legacy fallback (seed C15-13 read the raw field)
             'C06': ['C06.compress', 'C06.get/flags'],
             # the negation of the objective goes through the scaling kernels (`f * -1.0`): Neg / Mul<f64> of Function and of the three
             # polynomial types (seed C15-11 broke Linear * f64; the rule for it belongs to C02's kernel family)
             'C02': ['C02.kernel/Linear*f64', 'C02.kernel/Quadratic*f64', 'C02.kernel/Polynomial*f64', 'C02.branches/Quadratic_Mul_f64']
                    + ['C02.%s/%s%s' % (fam, ty, op) for fam in ('deleg', 'table') for ty in ('v1::Function', 'v1::Linear', 'v1::Quadratic', 'v1::Polynomial') for op in ('_Neg_', '_Mul_f64')]
                    + ['C02.%s/&%s_Neg_' % (fam, ty) for fam in ('deleg', 'table') for ty in ('v1::Function', 'v1::Linear', 'v1::Quadratic', 'v1::Polynomial')]}


def check(ctx):
    min_rules(ctx); best_rules(ctx); pair_rules(ctx); legacy_rules(ctx); lookup_rules(ctx)
    ctx.floor('C15.min', 7); ctx.floor('C15.best', 15); ctx.floor('C15.pair', 10); ctx.floor('C15.legacy', 2); ctx.floor('C15.lookup', 7)
