"""C20 — artifacts return what was stored in them (DESIGN §5 C20)."""
import os
from .common import *

KINDS = {
    # kind: (builder fn, reader fn, media type fn, message type, annotation type)
    'instance': ('add_instance', 'get_instance', 'v1_instance', 'v1::Instance', 'InstanceAnnotations'),
    'parametric-instance': ('add_parametric_instance', 'get_parametric_instance', 'v1_parametric_instance', 'v1::ParametricInstance', 'ParametricInstanceAnnotations'),
    'solution': ('add_solution', 'get_solution', 'v1_solution', 'v1::State', 'SolutionAnnotations'),
    'sample-set': ('add_sample_set', 'get_sample_set', 'v1_sample_set', 'v1::SampleSet', 'SampleSetAnnotations'),
}
BUILDER = 'artifact::builder::Builder<Base>'; ART = 'artifact::Artifact<Base>'


def media_type_calls(b):
    return [c for c in b.calls if re.match(r'^artifact::media_types::v1_\w+$', c.path)]


def kinds_rules(ctx):
    R = 'C20.kinds'
    for kind, (addf, getf, mt, msg, ann) in KINDS.items():
        b = ctx.method(R + '/%s/add/anchor' % kind, BUILDER, addf)
        if b is not None:
            enc = [c for c in b.calls if c.item in ('encode_to_vec', 'encode') and 'prost::Message' in (c.trait or c.name)]
            al = [c for c in b.calls if c.item == 'add_layer']
            ok = len(enc) == 1 and re.search(r'<%s as prost::Message>' % re.escape(msg), enc[0].name) and T.access_path(b, enc[0].args[0])[1] == 2
            ctx.check(bool(ok), R + '/%s/add/encodes-message' % kind, 'T-SIBLING', b.name, 'the stored blob is not the encoding of the given %s' % msg, b.site())
            okl = False
            for c in al:
                mts = [x for x in T.expr_walk(T.expr(b, c.args[1])) if x[0] == 'call' and x[1].startswith('v1_')]
                blob = ctx.S.slice_operand(b, c.args[2]); an = ctx.S.slice_operand(b, c.args[3])
                okl = len(mts) == 1 and mts[0][1] == mt and bool(enc) and enc[0] in blob.call_objs and 3 in an.params and all(b.dominates(c.bb, e) for e in b.strict_ok_exits())
                errflow_calls(ctx, R + '/%s/add/error' % kind, b, [c], 'add_layer')
            ctx.check(len(al) == 1 and okl, R + '/%s/add/layer' % kind, 'T-SIBLING', b.name, 'add_layer is not called with (media_types::%s(), encoded blob, given annotations) on every success path' % mt, b.site())
        g = ctx.method(R + '/%s/get/anchor' % kind, ART, getf)
        if g is not None:
            gl = [c for c in g.calls if c.item == 'get_layer' and c.path.endswith('get_layer')]
            ctx.check(len(gl) == 1 and T.access_path(g, gl[0].args[1])[1] == 2, R + '/%s/get/by-digest' % kind, 'T-CARRY', g.name, 'layer is not looked up by the given digest', g.site())
            errflow_calls(ctx, R + '/%s/get/unknown-digest-error' % kind, g, gl, 'get_layer')
            # media type guard
            okg = False
            for c in g.calls:
                if c.item in ('eq', 'ne') and 'PartialEq' in (c.trait or '') and 'MediaType' in c.name:
                    exs = [T.expr(g, a) for a in c.args]
                    mts = [x[1] for e in exs for x in T.expr_walk(e) if x[0] == 'call' and x[1].startswith('v1_')]
                    descs = [x for e in exs for x in T.expr_walk(e) if x[0] == 'call' and x[1] == 'media_type']
                    if mts == [mt] and descs:
                        for gd in T.guards_from_call(g, c):
                            if gd.requires(c.item == 'eq') and gd.dominates_ok_exits(): okg = True
            ctx.check(okg, R + '/%s/get/media-type-guard' % kind, 'T-GUARD', g.name, 'a layer of another media type is not rejected (expected desc.media_type() == media_types::%s())' % mt, g.site())
            dec = [c for c in g.calls if c.item == 'decode' and 'prost::Message' in (c.trait or c.name)]
            okd = len(dec) == 1 and re.search(r'<%s as prost::Message>' % re.escape(msg), dec[0].name) and bool(gl) and gl[0] in ctx.S.slice_operand(g, dec[0].args[0]).call_objs
            ctx.check(bool(okd), R + '/%s/get/decodes-message' % kind, 'T-SIBLING', g.name, 'the blob of the layer is not decoded as %s' % msg, g.site())
            errflow_calls(ctx, R + '/%s/get/decode-error' % kind, g, dec, 'decode')
            fd = [c for c in g.calls if c.item == 'from_descriptor' and ann in c.path]
            okf = len(fd) == 1 and bool(gl) and gl[0] in ctx.S.slice_operand(g, fd[0].args[0]).call_objs
            ctx.check(okf, R + '/%s/get/annotations' % kind, 'T-SIBLING', g.name, 'annotations are not read from the layer\'s descriptor as %s' % ann, g.site())
    # list readers filter on the same media type
    for fn, mt, msg in (('get_instances', 'v1_instance', 'v1::Instance'), ('get_solutions', 'v1_solution', 'v1::State')):
        g = ctx.method(R + '/%s/anchor' % fn, ART, fn)
        if g is None: continue
        mts = [c.item for c in media_type_calls(g)]
        dec = [c for c in g.calls if c.item == 'decode' and re.search(r'<%s as prost::Message>' % re.escape(msg), c.name)]
        okg = False
        for c in g.calls:
            if c.item in ('eq', 'ne') and 'MediaType' in c.name:
                for gd in T.guards_from_call(g, c):
                    # layers of other types are skipped, matching ones decoded
                    yes, no = (gd.true_bb, gd.false_bb) if c.item == 'eq' else (gd.false_bb, gd.true_bb)
                    yr = g.reach([yes], stop=set(g.loops())); nr = g.reach([no], stop=set(g.loops()))
                    if dec and dec[0].bb in yr and dec[0].bb not in nr: okg = True
        ctx.check(mts == [mt] and len(dec) == 1 and okg, R + '/%s/filter' % fn, 'T-SIBLING', g.name, 'does not decode exactly the layers of media type %s as %s' % (mt, msg), g.site())
        errflow_calls(ctx, R + '/%s/decode-error' % fn, g, dec, 'decode')
        pushes = [c for c in g.calls if c.item == 'push']
        loops = T.for_loops(g)
        if loops and pushes and dec:
            yes_via = {pushes[0].bb}
            ctx.check(T.must_pass(g, dec[0].bb, {loops[0][1]}, yes_via), R + '/%s/every-match-kept' % fn, 'T-LOOPMUST', g.name, 'a decoded layer can be dropped', g.site())


def types_rules(ctx, repo):
    R = 'C20.types'
    vals = {}
    for b in ctx.F.bodies.values():
        m = re.match(r'^artifact::media_types::(v1_\w+)$', b.name)
        if m and b.kind == 'fn':
            ctx.fn(b)
            lits = [c.args[0]['v'].strip('"') for c in b.calls if c.item == 'to_string' and c.args and c.args[0]['k'] == 'const'] + \
                   [st['rv']['ops'][0]['v'].strip('"') for bi, st in b.stmts() if st['rv']['k'] == 'use' and st['rv']['ops'][0]['k'] == 'const' and st['rv']['ops'][0]['v'].startswith('"')]
            vals[m.group(1)] = lits[0] if lits else None
    want = {'v1_artifact': 'application/org.ommx.v1.artifact', 'v1_config': 'application/org.ommx.v1.config+json', 'v1_instance': 'application/org.ommx.v1.instance',
            'v1_parametric_instance': 'application/org.ommx.v1.parametric-instance', 'v1_solution': 'application/org.ommx.v1.solution', 'v1_sample_set': 'application/org.ommx.v1.sample-set'}
    ctx.check(set(vals) == set(want), R + '/function-set', 'T-CONST', 'artifact::media_types', 'media type functions: %s' % sorted(vals))
    ctx.check(len(set(vals.values())) == len(vals) and None not in vals.values(), R + '/pairwise-distinct', 'T-CONST', 'artifact::media_types', 'media types are not pairwise distinct: %s' % vals)
    for k, v in vals.items():
        ctx.check(bool(v) and re.fullmatch(r'application/org\.ommx\.v1\.[a-z-]+(\+json)?', v) is not None and v == want.get(k, v), R + '/value/' + k, 'T-CONST', 'artifact::media_types::' + k,
                  'media type is %r, expected %r' % (v, want.get(k)))
    try:
        doc = open(os.path.join(repo, 'ARTIFACT.md')).read()
        documented = set(re.findall(r'application/org\.ommx\.v1\.[a-z-]+(?:\+json)?', doc))
        for k in ('v1_artifact', 'v1_config', 'v1_solution', 'v1_instance'):
            ctx.check(vals.get(k) in documented, R + '/documented/' + k, 'T-CONST', 'ARTIFACT.md', '%s = %r is not a media type documented in ARTIFACT.md (%s)' % (k, vals.get(k), sorted(documented)))
    except OSError:
        ctx.lost(R + '/documented', 'ARTIFACT.md')
    # every builder constructor passes v1_artifact(); get_manifest checks it
    ctors = [b for b in ctx.F.bodies.values() if b.kind == 'fn' and re.search(r'artifact::builder::Builder<', b.hdr.get('self') or '') and any(c.item == 'new' and 'OciArtifactBuilder' in c.name for c in b.calls)]
    ctx.check(len(ctors) >= 3, R + '/constructors', 'T-CONST', 'artifact::builder', 'expected >= 3 constructors creating an OciArtifactBuilder, found %d' % len(ctors))
    for b in ctors:
        ctx.fn(b)
        for c in b.calls:
            if c.item == 'new' and 'OciArtifactBuilder' in c.name:
                mts = [x[1] for x in T.expr_walk(T.expr(b, c.args[1])) if x[0] == 'call' and x[1].startswith('v1_')]
                ctx.check(mts == ['v1_artifact'], R + '/constructor/' + b.hdr.get('item', '?'), 'T-CONST', b.name, 'artifact type passed to OciArtifactBuilder::new is %s' % mts, b.site(c.bb))
    g = ctx.method(R + '/get_manifest/anchor', ART, 'get_manifest')
    if g is not None:
        at = [c for c in g.calls if c.item in ('as_ref',) and 'MediaType' in c.name]
        errflow_calls(ctx, R + '/get_manifest/missing-type-is-error', g, at, 'missing artifact type')
        okg = False
        for c in g.calls:
            if c.item in ('eq', 'ne') and 'MediaType' in c.name:
                mts = [x[1] for a in c.args for x in T.expr_walk(T.expr(g, a)) if x[0] == 'call' and x[1].startswith('v1_')]
                for gd in T.guards_from_call(g, c):
                    if mts == ['v1_artifact'] and gd.requires(c.item == 'eq') and gd.dominates_ok_exits(): okg = True
        ctx.check(okg, R + '/get_manifest/type-guard', 'T-GUARD', g.name, 'a manifest whose artifact type is not v1_artifact() is accepted', g.site())
    gl = ctx.method('C20.digest/get_layer/anchor', ART, 'get_layer')
    if gl is not None:
        loops = T.for_loops(gl)
        ok = False
        for lo in loops:
            none_bb = lo[3]
            r = gl.reach([none_bb])
            ok = bool(r & gl.err_exits()) and not (r & gl.strict_ok_exits())
        ctx.check(ok, 'C20.digest/unknown-is-error', 'T-ERRFLOW', gl.name, 'an unknown digest does not end in an error', gl.site())
        cmp_ok = False
        for c in gl.calls:
            if c.item in ('eq', 'ne') and 'PartialEq' in (c.trait or ''):
                exs = [T.expr(gl, a) for a in c.args]
                if any(T.expr_has_call(e, 'digest') for e in exs) and any(any(x[0] == 'place' and x[1] == 2 for x in T.expr_walk(e)) for e in exs):
                    for gd in T.guards_from_call(gl, c):
                        yes = gd.true_bb if c.item == 'eq' else gd.false_bb
                        if gl.reach([yes], stop=set(gl.loops())) & gl.strict_ok_exits(): cmp_ok = True
        ctx.check(cmp_ok, 'C20.digest/compares-digest', 'T-GUARD', gl.name, 'layers are not selected by comparing their digest with the argument', gl.site())


def annotation_rules(ctx, repo):
    R = 'C20.annotations'
    prefixes = {'InstanceAnnotations': 'org.ommx.v1.instance.', 'ParametricInstanceAnnotations': 'org.ommx.v1.parametric-instance.', 'SolutionAnnotations': 'org.ommx.v1.solution.', 'SampleSetAnnotations': 'org.ommx.v1.sample-set.'}
    try: doc = open(os.path.join(repo, 'ARTIFACT.md')).read()
    except OSError: doc = ''
    pairs = 0
    for ty, prefix in prefixes.items():
        full = 'artifact::annotations::' + ty
        meths = {b.hdr['item']: b for b in ctx.F.bodies.values() if b.kind == 'fn' and b.hdr.get('self') == full and b.hdr.get('trait') is None}
        def key_of(b):
            ks = []
            for c in b.calls:
                for a in c.args:
                    if a['k'] == 'const' and a['v'].startswith('"org.ommx.'): ks.append(a['v'].strip('"'))
            for bi, st in b.stmts():
                for o in st['rv'].get('ops', []):
                    if o['k'] == 'const' and o['v'].startswith('"org.ommx.'): ks.append(o['v'].strip('"'))
            return sorted(set(ks))
        for name, sb in sorted(meths.items()):
            if not name.startswith('set_') or name in ('set_created_now', 'set_other', 'set_user_annotation', 'set_user_annotations'): continue
            gname = name[4:]
            gb = meths.get(gname)
            if gb is None:
                ctx.bad(R + '/%s/%s/getter' % (ty, gname), 'T-CONST', sb.name, 'setter has no getter `%s`' % gname, sb.site()); continue
            ctx.fn(sb); ctx.fn(gb)
            sk = key_of(sb); gk = key_of(gb)
            pairs += 1
            ok = len(sk) == 1 and sk == gk and sk[0].startswith(prefix) and sk[0] == prefix + gname.replace('_', '_')
            ctx.check(ok, R + '/%s/%s/same-key' % (ty, gname), 'T-CONST', sb.name, 'setter key %s, getter key %s, expected one key %s%s in both' % (sk, gk, prefix, gname), sb.site())
            if ty in ('InstanceAnnotations', 'SolutionAnnotations') and sk and doc:
                ctx.check(sk[0] in doc, R + '/%s/%s/documented' % (ty, gname), 'T-CONST', 'ARTIFACT.md', 'annotation key %s is not documented in ARTIFACT.md' % sk[0])
            # the setter inserts the given value under that key; the getter reads through self.get / the map
            ins = [c for c in sb.calls if c.item == 'insert' and 'HashMap' in c.name]
            okv = len(ins) == 1 and 2 in ctx.S.slice_operand(sb, ins[0].args[2]).params
            ctx.check(okv, R + '/%s/%s/stores-value' % (ty, gname), 'T-CARRY', sb.name, 'setter does not insert the given value', sb.site())
            if gname == 'authors':
                js = [T.strip_wrappers(T.expr(sb, c.args[1]))[1] for c in sb.calls if c.item == 'join' and len(c.args) > 1 and T.strip_wrappers(T.expr(sb, c.args[1]))[0] == 'const']
                sp = []
                for c in gb.calls:
                    if c.item == 'split':
                        for a in c.args:
                            if a['k'] == 'const': sp.append(a['v'])
                okj = len(js) == 1 and len(sp) == 1 and js[0].strip('"') == sp[0].strip("'").strip('"')
                ctx.check(okj, R + '/%s/authors/separator' % ty, 'T-CONST', sb.name, 'authors are joined with %s but split with %s' % (js, sp), sb.site())
        # from_descriptor reads the descriptor's annotations
        fd = meths.get('from_descriptor')
        if fd is not None:
            s = ctx.S.backslice(fd, [0])
            ctx.check(s.has_call(r'Descriptor::annotations') and 1 in s.params, R + '/%s/from_descriptor' % ty, 'T-CARRY', fd.name, 'annotations are not taken from the descriptor', fd.site())
    ctx.extra_pairs = pairs
    ctx.floor('C20.annotations', 40)


def check(ctx):
    repo = getattr(ctx, 'repo', '/repo')
    kinds_rules(ctx); types_rules(ctx, repo); annotation_rules(ctx, repo)
    ctx.floor('C20.kinds', 30); ctx.floor('C20.types', 15); ctx.floor('C20.digest', 2)
