"""C07 — wire format matches the schema (DESIGN §5 C07): .proto  <->  prost-derived MIR  <->  pb2 descriptors."""
import os, re, json, tarfile, io
from .common import *
from ..schema import protoparse as PP, wire as W

# "artifacts written by earlier releases remain readable" also needs the layer media types to stay the
# published ones (ARTIFACT.md) and the layer bytes to be exactly the message's encoding, read back by the
# plain decoder with no extra rejection (seeds C07-4, C07-7, C07-8): decided by the C20.types / C20.kinds rules
# a field kept only for messages of earlier releases (SampleSet.feasible_unrelaxed, tag 6) is readable only while
# its accessor still falls back to it (seed C07-10): decided by the C15.legacy table
RELIES_ON = {'C20': ['C20.types', 'C20.kinds'], 'C15': ['C15.legacy']}
RELEASE_TWIN = False      # derive output is profile independent; the schema tables are not MIR-shape rules


def snake(s):
    s = re.sub(r'([a-z0-9])([A-Z])', r'\1_\2', s)
    s = re.sub(r'([A-Z]+)([A-Z][a-z])', r'\1_\2', s)
    return s.lower()


def upper_camel(s):
    # prost (heck): SOS1 -> Sos1, OneHot -> OneHot
    parts = re.findall(r'[A-Z]+(?=[A-Z][a-z])|[A-Z]?[a-z0-9]+|[A-Z0-9]+', s)
    return ''.join(p[0].upper() + p[1:].lower() for p in parts)


def rust_path(full):
    parts = full.split('.')[2:]
    return 'v1::' + '::'.join([snake(p) for p in parts[:-1]] + [upper_camel(parts[-1])])


RUST_KW = {'type', 'match', 'ref', 'move', 'self', 'struct', 'enum', 'fn', 'impl', 'trait', 'use', 'mod', 'pub', 'in', 'as', 'loop', 'for', 'while', 'if', 'else', 'let', 'static', 'const', 'where', 'yield', 'async', 'await', 'box', 'dyn', 'abstract', 'final', 'override', 'macro', 'try', 'typeof', 'unsized', 'virtual', 'become', 'do', 'priv', 'super', 'crate', 'extern', 'return', 'break', 'continue', 'true', 'false', 'unsafe', 'mut'}


def rust_field(name):
    n = snake(name)
    return n


ENC_RE = re.compile(r'^prost::encoding::([\w:]+?)::(encode\w*)(?:::<(.*)>)?$')
MRG_RE = re.compile(r'^prost::encoding::([\w:]+?)::(merge\w*)(?:::<(.*)>)?$')


def tag_of(a):
    if a['k'] == 'const':
        m = re.fullmatch(r'(\d+)_u32', a['v'])
        if m: return int(m.group(1))
    return None


def field_of(body, operand):
    fs = [(a, f) for a, f in T.access_path(body, operand)[0] if a.startswith('v1::')]
    return fs[0][1] if fs else None


def codec_consts(call):
    out = []
    for a in call.args:
        if a['k'] == 'const' and a.get('fnp'):
            m = re.search(r'prost::encoding::(\w+)::(encode|merge)$', a['fnp'])
            if m: out.append(m.group(1))
    return out


def encode_rows(ctx, body):
    """tag -> dict(codec, fn, gen, field, kv) from an encode_raw / oneof encode body"""
    rows = {}; oneofs = []
    for c in body.calls:
        m = ENC_RE.match(c.name)
        if m:
            tags = [tag_of(a) for a in c.args if tag_of(a) is not None]
            if not tags: continue
            fld = None
            for a in c.args:
                if a['k'] in ('copy', 'move'):
                    f = field_of(body, a)
                    if f: fld = f; break
            inloop = any(c.bb in bl for bl in body.loops().values())
            if fld is None:
                # element of a repeated field: the loop iterates self.<field>
                self_adt = body.hdr.get('self')
                for a in c.args:
                    if a['k'] in ('copy', 'move'):
                        fs = sorted({f for ad, f in ctx.S.slice_operand(body, a).root_fields if True} if False else {f for (pi, ad, f) in ctx.S.slice_operand(body, a).root_fields if pi == 1})
                        if len(fs) == 1: fld = fs[0]
            fn = m.group(2)
            if fn == 'encode' and inloop and m.group(1) == 'message': fn = 'encode_repeated'
            rows[tags[0]] = dict(codec=m.group(1), fn=fn, gen=m.group(3) or '', field=fld, kv=codec_consts(c), site=body.site(c.bb))
        elif re.match(r'^v1::[\w:]+::encode(::<.*>)?$', c.name) and c.hdr.get('self', '').startswith('v1::'):
            oneofs.append(dict(enum=c.hdr['self'], field=field_of(body, c.args[0]) if c.args else None, path=c.path))
    return rows, oneofs


def merge_rows(ctx, body, tag_local=2):
    """tag -> dict(codec, fn, gen, field) from a merge_field / oneof merge body; also whether unknown tags are skipped"""
    rows = {}; skip = False; oneof_tags = {}
    sw = None
    for bi in sorted(body.live):
        t = body.blocks[bi]['term']
        if t['k'] == 'switch' and t['d']['k'] != 'const' and t['d']['pl'] == {'l': tag_local, 'p': []}:
            sw = (bi, t); break
    if sw is None:
        # messages without fields: merge_field is a bare skip_field call
        skip = any(c.path.endswith('encoding::skip_field') for c in body.calls)
        return rows, skip, oneof_tags
    bi, t = sw
    targets = {}
    for v, tg in t['ts']: targets.setdefault(tg, []).append(v)
    er = body.reach([t['else']])
    skip = any(c.bb in er and c.path.endswith('encoding::skip_field') for c in body.calls) and not any(c.bb in er and MRG_RE.match(c.name) for c in body.calls)
    for tg, tags in targets.items():
        reg = body.reach([tg]) - set().union(*[body.reach([x]) for x in targets if x != tg] or [set()])
        reg |= {tg}
        calls = [c for c in body.calls if c.bb in reg]
        fld = None
        for b2, st in body.stmts():
            if b2 in reg and st['rv']['k'] == 'ref' and st['rv'].get('mut'):
                fs = [(a, f) for a, f in fields_of_place(st['rv']['pl']) if a.startswith('v1::')]
                if fs and st['rv']['pl']['l'] == 1: fld = fs[0][1]; break
        for c in calls:
            m = MRG_RE.match(c.name)
            if m:
                for tag in tags: rows[tag] = dict(codec=m.group(1), fn=m.group(2), gen=m.group(3) or '', field=fld, kv=codec_consts(c), site=body.site(c.bb))
            elif re.match(r'^v1::[\w:]+::merge(::<.*>)?$', c.name) and c.hdr.get('self', '').startswith('v1::'):
                for tag in tags: oneof_tags[tag] = dict(enum=c.hdr['self'], field=fld)
    return rows, skip, oneof_tags


def expected_codec(msgs, enums, scope, f):
    """(codec, encode fn, merge fn, generic must contain, kv) expected from prost 0.12 for a proto3 field"""
    ty = f['type']; lab = f['label']
    if isinstance(ty, tuple):
        vt = ty[2]
        vkind = vt if vt in PP.SCALARS else (PP.resolve(msgs, enums, scope, vt) or ('?',))[0]
        vcodec = vt if vt in PP.SCALARS else ('message' if vkind == 'message' else 'int32')
        return dict(codec='hash_map', enc='encode', mrg='merge', kv=[ty[1], vcodec])
    if ty in PP.SCALARS:
        if lab == 'repeated':
            packed = ty not in ('string', 'bytes')
            return dict(codec=ty, enc='encode_packed' if packed else 'encode_repeated', mrg='merge_repeated')
        return dict(codec=ty, enc='encode', mrg='merge')
    r = PP.resolve(msgs, enums, scope, ty)
    if r is None: return None
    if r[0] == 'enum':
        if lab == 'repeated': return dict(codec='int32', enc='encode_packed', mrg='merge_repeated')
        return dict(codec='int32', enc='encode', mrg='merge')
    gen = rust_path(r[1])
    if lab == 'repeated': return dict(codec='message', enc='encode_repeated', mrg='merge_repeated', gen=gen)
    return dict(codec='message', enc='encode', mrg='merge', gen=gen)


def expected_rust_type(msgs, enums, scope, f):
    ty = f['type']; lab = f['label']
    if isinstance(ty, tuple): return r'^std::collections::HashMap<'
    if lab == 'repeated': return r'^std::vec::Vec<'
    if lab in ('optional', 'oneof'): return r'^std::option::Option<'
    r = None if ty in PP.SCALARS else PP.resolve(msgs, enums, scope, ty)
    if r and r[0] == 'message': return r'^std::option::Option<'
    return r'^(f64|f32|u64|i64|u32|i32|bool|std::string::String|std::vec::Vec<u8>)$'


def rust_tables(ctx, msgs, enums):
    F = ctx.F; R = 'C07.rust'
    n_fields = 0
    rust_msgs = {b.hdr['self'] for b in F.bodies.values() if b.kind == 'fn' and (b.hdr.get('trait') or '').endswith('prost::Message') and b.hdr.get('item') == 'encode_raw' and (b.hdr.get('self') or '').startswith('v1::')}
    want_msgs = {rust_path(m) for m in msgs}
    ctx.check(rust_msgs == want_msgs, R + '/message-set', 'T-SCHEMA', 'ommx.v1.rs', 'generated Rust messages and schema messages differ: only in Rust %s, only in schema %s' % (sorted(rust_msgs - want_msgs), sorted(want_msgs - rust_msgs)))
    for full, m in sorted(msgs.items()):
        rp = rust_path(full)
        enc = F.one(rp, 'encode_raw', trait='prost::Message'); mrg = F.one(rp, 'merge_field', trait='prost::Message')
        adt = F.adts.get(rp)
        if enc is None or mrg is None or adt is None:
            ctx.lost(R + '/message/' + full, 'prost::Message impl / struct of %s' % rp); continue
        ctx.fn(enc); ctx.fn(mrg)
        erows, eoneofs = encode_rows(ctx, enc)
        mrows, skips, moneofs = merge_rows(ctx, mrg)
        ctx.check(skips, R + '/unknown-fields-skipped/' + full, 'T-SCHEMA', mrg.name, 'unknown tags are not passed to prost::encoding::skip_field', mrg.site())
        rust_fields = {f['name']: f['ty'] for f in adt['variants'][0]['fields']}
        plain = [f for f in m['fields'] if not f['oneof']]
        oneof_groups = {}
        for f in m['fields']:
            if f['oneof']: oneof_groups.setdefault(f['oneof'], []).append(f)
        # ---- plain fields
        for f in plain:
            n_fields += 1
            exp = expected_codec(msgs, enums, full, f)
            rid = '%s.%s' % (full, f['name'])
            e = erows.get(f['number']); g = mrows.get(f['number'])
            if exp is None:
                ctx.bad(R + '/field/' + rid, 'T-SCHEMA', enc.name, 'schema type %s cannot be resolved' % (f['type'],)); continue
            probs = []
            if e is None: probs.append('no encode call with tag %d' % f['number'])
            else:
                if e['codec'] != exp['codec'] or e['fn'] != exp['enc']: probs.append('encoded as %s::%s, schema says %s::%s' % (e['codec'], e['fn'], exp['codec'], exp['enc']))
                if exp.get('gen') and exp['gen'] not in e['gen']: probs.append('encodes message type %s, schema says %s' % (e['gen'], exp['gen']))
                if exp.get('kv') and e['kv'][:2] != exp['kv'] and sorted(set(e['kv'])) != sorted(set(exp['kv'])): probs.append('map codecs %s, schema says %s' % (e['kv'], exp['kv']))
                if e['field'] != rust_field(f['name']): probs.append('tag %d encodes Rust field `%s`, schema field is `%s`' % (f['number'], e['field'], f['name']))
            if g is None: probs.append('no merge arm for tag %d' % f['number'])
            else:
                if g['codec'] != exp['codec'] or g['fn'] != exp['mrg']: probs.append('decoded as %s::%s, schema says %s::%s' % (g['codec'], g['fn'], exp['codec'], exp['mrg']))
                if exp.get('gen') and exp['gen'] not in g['gen']: probs.append('decodes message type %s, schema says %s' % (g['gen'], exp['gen']))
                if g['field'] != rust_field(f['name']): probs.append('tag %d decodes into Rust field `%s`, schema field is `%s`' % (f['number'], g['field'], f['name']))
            rt = rust_fields.get(rust_field(f['name']))
            if rt is None: probs.append('struct has no field `%s`' % rust_field(f['name']))
            elif not re.search(expected_rust_type(msgs, enums, full, f), rt): probs.append('Rust type %s does not match label %s' % (rt, f['label']))
            ctx.check(not probs, R + '/field/' + rid, 'T-SCHEMA', enc.name, '; '.join(probs), (e or g or {}).get('site', enc.site()),
                      tag=f['number'], codec=exp['codec'])
        # ---- oneofs
        for oname, fs in oneof_groups.items():
            grp_ok = True
            en_paths = {o['enum'] for o in eoneofs if o['field'] == rust_field(oname)}
            ctx.check(len(en_paths) == 1, R + '/oneof/%s.%s/encoded' % (full, oname), 'T-SCHEMA', enc.name, 'oneof `%s` is not encoded through its enum' % oname, enc.site())
            if len(en_paths) != 1: continue
            ep = list(en_paths)[0]
            oe = F.one(ep, 'encode'); om = F.one(ep, 'merge'); oadt = F.adts.get(ep)
            if oe is None or om is None or oadt is None:
                ctx.lost(R + '/oneof/' + full, 'oneof enum %s' % ep); continue
            ctx.fn(oe); ctx.fn(om)
            orows, _ = encode_rows(ctx, oe)
            # merge of the oneof: (field, tag, wire_type, buf, ctx): tag is param 2
            mr, _, _ = merge_rows(ctx, om, tag_local=2)
            ctx.check(isinstance(rust_fields.get(rust_field(oname)), str) and rust_fields[rust_field(oname)].startswith('std::option::Option<'), R + '/oneof/%s.%s/optional' % (full, oname), 'T-SCHEMA', enc.name,
                      'oneof field is not Option<_> (an unset oneof must be representable)', enc.site())
            for f in fs:
                n_fields += 1
                exp = expected_codec(msgs, enums, full, dict(f, label='singular'))
                probs = []
                e = orows.get(f['number']); g = mr.get(f['number'])
                if e is None: probs.append('no encode arm with tag %d' % f['number'])
                elif e['codec'] != exp['codec'] or (exp.get('gen') and exp['gen'] not in e['gen']): probs.append('encoded as %s<%s>, schema says %s %s' % (e['codec'], e['gen'], exp['codec'], exp.get('gen', '')))
                if g is None: probs.append('no merge arm with tag %d' % f['number'])
                elif g['codec'] != exp['codec'] or (exp.get('gen') and exp['gen'] not in g['gen']): probs.append('decoded as %s<%s>, schema says %s %s' % (g['codec'], g['gen'], exp['codec'], exp.get('gen', '')))
                if moneofs.get(f['number'], {}).get('field') != rust_field(oname): probs.append('tag %d is not routed to the oneof field in merge_field' % f['number'])
                vnames = [v['name'] for v in oadt['variants']]
                if upper_camel(f['name']) not in vnames and upper_camel(snake(f['name']).replace('_', ' ').title().replace(' ', '')) not in vnames: probs.append('no variant for `%s` in %s' % (f['name'], vnames))
                ctx.check(not probs, R + '/field/%s.%s' % (full, f['name']), 'T-SCHEMA', oe.name, '; '.join(probs), oe.site(), tag=f['number'], oneof=oname)
            extra = set(orows) - {f['number'] for f in fs}
            ctx.check(not extra and len(oadt['variants']) == len(fs), R + '/oneof/%s.%s/no-extra-arms' % (full, oname), 'T-SCHEMA', oe.name, 'oneof enum has arms/variants the schema does not declare: %s' % sorted(extra), oe.site())
        # ---- nothing on the wire that the schema does not declare
        declared = {f['number'] for f in m['fields']}
        extra_e = sorted(set(erows) - declared); extra_m = sorted((set(mrows) | set(moneofs)) - declared)
        ctx.check(not extra_e and not extra_m, R + '/no-undeclared-tags/' + full, 'T-SCHEMA', enc.name, 'tags written %s / read %s are not declared in the schema' % (extra_e, extra_m), enc.site())
        # writer and reader of the same binary agree
        dis = [t for t in set(erows) & set(mrows) if (erows[t]['codec'], erows[t]['field']) != (mrows[t]['codec'], mrows[t]['field'])]
        ctx.check(not dis and set(erows) == set(mrows), R + '/encode-merge-agree/' + full, 'T-SCHEMA', enc.name, 'encode_raw and merge_field disagree on tags %s' % sorted(dis or (set(erows) ^ set(mrows))), enc.site())
    # ---- enums
    n_vals = 0
    for full, e in sorted(enums.items()):
        rp = rust_path(full); adt = F.adts.get(rp)
        if adt is None or not adt.get('is_enum'):
            ctx.lost(R + '/enum/' + full, 'Rust enum ' + rp); continue
        nums = sorted(v['discr'] for v in adt['variants'])
        ctx.check(nums == sorted(e['values'].values()), R + '/enum/%s/numbers' % full, 'T-SCHEMA', rp, 'enum numbers %s, schema says %s' % (nums, sorted(e['values'].values())))
        asn = F.one(rp, 'as_str_name')
        if asn is None:
            ctx.lost(R + '/enum/%s/as_str_name' % full, rp + '::as_str_name'); continue
        ctx.fn(asn)
        # discriminant switch -> literal
        names = {}
        for bi in asn.live:
            t = asn.blocks[bi]['term']
            if t['k'] == 'switch':
                for v, tg in t['ts'] + [[None, t['else']]]:
                    for b2, st in asn.stmts():
                        if b2 == tg and st['dst']['l'] == 0 and st['rv']['k'] == 'use' and st['rv']['ops'][0]['k'] == 'const':
                            names[v] = st['rv']['ops'][0]['v'].strip('"')
        got = {}
        dvals = {v['discr'] for v in adt['variants']}
        for v, nm in names.items():
            if v is None:
                rest = dvals - {x for x in names if x is not None}
                if len(rest) == 1: got[nm] = list(rest)[0]
            else: got[nm] = v
        n_vals += len(e['values'])
        ctx.check(got == e['values'], R + '/enum/%s/names' % full, 'T-SCHEMA', asn.name, 'value names/numbers %s, schema says %s' % (got, e['values']), asn.site())
    return n_fields, n_vals


def pb2_tables(ctx, msgs, enums, repo):
    R = 'C07.python'
    pm, pe, pfiles = W.load_pb2(os.path.join(repo, 'python/ommx/ommx/v1'))
    real = {k for k, v in pm.items() if not v['map_entry']}
    ctx.check(real == set(msgs), R + '/message-set', 'T-SCHEMA', '*_pb2.py', 'messages only in pb2 %s, only in schema %s' % (sorted(real - set(msgs)), sorted(set(msgs) - real)))
    n = 0
    for k, m in sorted(msgs.items()):
        if k not in pm: continue
        pf = {f['number']: f for f in pm[k]['fields']}
        for f in m['fields']:
            n += 1
            g = pf.get(f['number']); probs = []
            if not g: probs.append('tag %d missing' % f['number'])
            else:
                if g['name'] != f['name']: probs.append('name %s vs %s' % (g['name'], f['name']))
                ty = f['type']
                if isinstance(ty, tuple):
                    ok = g['label'] == 3 and g['type'] == 11 and pm.get(g['type_name'].lstrip('.'), {}).get('map_entry')
                    if ok:
                        ent = {x['number']: x for x in pm[g['type_name'].lstrip('.')]['fields']}
                        kt = W.TYPES[ent[1]['type']]; vt = W.TYPES[ent[2]['type']]
                        ok = kt == ty[1] and (vt == ty[2] or (vt in ('message', 'enum') and ent[2]['type_name'].endswith('.' + ty[2])))
                    if not ok: probs.append('map type differs')
                elif ty in PP.SCALARS:
                    if W.TYPES.get(g['type']) != ty: probs.append('type %s vs %s' % (W.TYPES.get(g['type']), ty))
                else:
                    r = PP.resolve(msgs, enums, k, ty)
                    if not (r and W.TYPES.get(g['type']) == r[0] and g.get('type_name', '').lstrip('.') == r[1]): probs.append('type %s/%s vs %s' % (W.TYPES.get(g['type']), g.get('type_name'), r))
                lab = {'singular': 1, 'optional': 1, 'oneof': 1, 'repeated': 3}[f['label']]
                if not isinstance(ty, tuple) and g['label'] != lab: probs.append('label %d vs %s' % (g['label'], f['label']))
                if f['label'] == 'optional' and not g.get('proto3_optional'): probs.append('not proto3_optional')
                if f['label'] != 'optional' and g.get('proto3_optional'): probs.append('unexpected proto3_optional')
                if f['label'] == 'oneof':
                    if 'oneof_index' not in g or g.get('proto3_optional'): probs.append('not a oneof member')
                    elif pm[k]['oneofs'][g['oneof_index']] != f['oneof']: probs.append('member of oneof %s, schema says %s' % (pm[k]['oneofs'][g['oneof_index']], f['oneof']))
                if f['label'] in ('singular', 'repeated') and 'oneof_index' in g: probs.append('unexpectedly in a oneof')
                if g.get('packed') == 0 and f['label'] == 'repeated': probs.append('packed=false')
            ctx.check(not probs, R + '/field/%s.%s' % (k, f['name']), 'T-SCHEMA', '*_pb2.py', '; '.join(probs), 'python/ommx/ommx/v1')
        extra = sorted(set(pf) - {f['number'] for f in m['fields']})
        ctx.check(not extra, R + '/no-undeclared-tags/' + k, 'T-SCHEMA', '*_pb2.py', 'pb2 declares tags %s the schema does not' % extra)
    for k, e in sorted(enums.items()):
        ctx.check(pe.get(k) == e['values'], R + '/enum/' + k, 'T-SCHEMA', '*_pb2.py', 'enum values %s, schema says %s' % (pe.get(k), e['values']))
    return n


# ------------------------------------------------------------------------- proto3 implicit defaults
ZERO_CONSTS = {'0f64', '0f32', '0_u64', '0_i64', '0_u32', '0_i32', 'false', '""', '-0f64'} - {'-0f64'}


def _const_of(body, op, depth=6):
    """the constant an operand denotes (through copies / refs / promoteds), or None"""
    for _ in range(depth):
        if op['k'] == 'const':
            v = op['v']
            if '::promoted[' in v or v.endswith('::') or 'promoted' in v:
                return None
            return v
        if op['k'] not in ('copy', 'move'): return None
        defs = [d for d in body.defs_of(op['pl']['l']) if not (d[0] == 'stmt' and d[2]['dst']['p'])]
        if len(defs) != 1 or defs[0][0] != 'stmt': return None
        rv = defs[0][2]['rv']
        if rv['k'] == 'use': op = rv['ops'][0]; continue
        return None
    return None


def _enum_default_is_zero(F, op_body, op):
    """operand = `<E as Default>::default() as i32` and E's Default returns the variant numbered 0"""
    if op['k'] not in ('copy', 'move'): return False
    defs = op_body.defs_of(op['pl']['l'])
    if len(defs) != 1 or defs[0][0] != 'stmt' or defs[0][2]['rv']['k'] != 'cast': return False
    src = defs[0][2]['rv']['ops'][0]
    if src['k'] not in ('copy', 'move'): return False
    d2 = op_body.defs_of(src['pl']['l'])
    if len(d2) != 1 or d2[0][0] != 'stmt' or d2[0][2]['rv']['k'] != 'discr': return False
    d3 = op_body.defs_of(d2[0][2]['rv']['pl']['l'])
    if len(d3) != 1 or d3[0][0] != 'call': return False
    call = d3[0][2]; nm = call['r'] or call['f']
    m = re.fullmatch(r'<(v1::[\w:]+) as std::default::Default>::default', nm)
    if not m: return False
    eb = F.one(m.group(1), 'default', trait='std::default::Default'); adt = F.adts.get(m.group(1))
    if eb is None or adt is None: return False
    for bi, st in eb.stmts():
        if st['dst']['l'] == 0 and not st['dst']['p'] and st['rv']['k'] == 'agg':
            vn = st['rv'].get('variant')
            name = st['rv'].get('adt', '')
            for v in adt['variants']:
                if (vn is not None and v.get('idx') == vn) or name.endswith('::' + v['name']):
                    return v['discr'] == 0
    return False


def default_rules(ctx, msgs, enums):
    """proto3 has no explicit defaults: a singular scalar / enum field that is absent on the wire means the zero value,
    and a conforming writer omits exactly the zero value.  prost implements both with one per-field default
    (`#[prost(default = ..)]` changes it): the value `encode_raw` compares with before writing, and the value
    `Default::default()` (what `decode` starts from) puts in the field.  Both must be the zero value (seed C07-11)."""
    F = ctx.F; R = 'C07.default'
    for full, m in sorted(msgs.items()):
        rp = rust_path(full)
        enc = F.one(rp, 'encode_raw', trait='prost::Message'); dfl = F.one(rp, 'default', trait='std::default::Default'); adt = F.adts.get(rp)
        todo = []
        for f in m['fields']:
            if f['oneof'] or f['label'] != 'singular' or isinstance(f['type'], tuple): continue
            kind = 'scalar' if f['type'] in PP.SCALARS else (PP.resolve(msgs, enums, full, f['type']) or ('?',))[0]
            if kind not in ('scalar', 'enum'): continue
            todo.append((f, kind))
        if not todo: continue
        if enc is None or dfl is None or adt is None:
            ctx.lost(R + '/' + full, 'encode_raw / Default impl of %s' % rp); continue
        ctx.fn(dfl)
        names = [x['name'] for x in adt['variants'][0]['fields']]
        agg = [st for bi, st in dfl.stmts() if st['dst']['l'] == 0 and not st['dst']['p'] and st['rv']['k'] == 'agg']
        for f, kind in todo:
            rid = '%s/%s.%s' % (R, full, f['name']); rf = rust_field(f['name'])
            # ---- the value the writer omits
            call = None
            for c in enc.calls:
                if ENC_RE.match(c.name) and f['number'] in [tag_of(a) for a in c.args]: call = c
            why = None
            if call is None: why = 'no encode call with tag %d' % f['number']
            else:
                guard = None
                cands = []
                for b in enc.live:
                    t = enc.blocks[b]['term']
                    if t['k'] == 'switch' and b != call.bb and enc.dominates(b, call.bb):
                        tgs = [tg for _, tg in t['ts']] + [t['else']]
                        if not all(call.bb in enc.reach([tg]) | {tg} for tg in tgs): cands.append((len(enc.dom[b]), b, t))
                if cands:
                    _, b, t = max(cands); guard = (b, t)
                if guard is None: why = 'the encode call is not guarded by a comparison with the default'
                else:
                    d = guard[1]['d']; ok = False
                    defs = enc.defs_of(d['pl']['l']) if d['k'] in ('copy', 'move') else []
                    if len(defs) == 1 and defs[0][0] == 'stmt' and defs[0][2]['rv']['k'] == 'bin' and defs[0][2]['rv'].get('op') == 'Ne':
                        a, bq = defs[0][2]['rv']['ops']
                        for x, y in ((a, bq), (bq, a)):
                            if field_of(enc, x) == rf or (x['k'] in ('copy', 'move') and any(fl == rf for _, fl in T.access_path(enc, x)[0])):
                                cv = _const_of(enc, y)
                                ok = (cv in ZERO_CONSTS) if kind == 'scalar' else (cv in ZERO_CONSTS or _enum_default_is_zero(F, enc, y))
                                if not ok: why = 'the writer omits the field when it equals %s, proto3 omits the zero value' % (cv if cv is not None else 'a computed value')
                    elif len(defs) == 1 and defs[0][0] == 'call' and re.search(r'PartialEq<.*>>::ne$', defs[0][2]['r'] or defs[0][2]['f'] or ''):
                        args = defs[0][2]['args']
                        txt = None
                        for y in args[1:]:
                            # the other operand: a promoted holding the literal
                            dd = enc.defs_of(y['pl']['l']) if y['k'] in ('copy', 'move') else []
                            for _ in range(4):
                                if len(dd) == 1 and dd[0][0] == 'stmt' and dd[0][2]['rv']['k'] in ('ref', 'use'):
                                    rv = dd[0][2]['rv']
                                    src = rv['pl'] if rv['k'] == 'ref' else (rv['ops'][0].get('pl') if rv['ops'][0]['k'] in ('copy', 'move') else None)
                                    if rv['k'] == 'use' and rv['ops'][0]['k'] == 'const':
                                        pbs = [bb for bb in F.bodies.values() if bb.kind == 'promoted' and bb.name.startswith(enc.name + '::promoted')]
                                        lits = {st['rv']['ops'][0]['v'] for pb in pbs for _, st in pb.stmts() if st['rv']['k'] == 'use' and st['rv']['ops'][0]['k'] == 'const'}
                                        txt = '""' if lits == {'""'} else (sorted(lits)[0] if lits else None)
                                        break
                                    if src is None: break
                                    dd = enc.defs_of(src['l'])
                                else: break
                        ok = field_of(enc, args[0]) == rf and txt == '""'
                        if not ok: why = 'the writer omits the field when it equals %s, proto3 omits the empty string' % txt
                    else: why = 'guard of the encode call is not a comparison of the field with a constant'
                    if ok: why = None
            ctx.check(why is None, rid + '/writer-omits-zero', 'T-SCHEMA', enc.name, why or '', (call and enc.site(call.bb)) or enc.site(), tag=f['number'])
            # ---- the value an absent field is read as
            why = None
            if len(agg) != 1 or rf not in names: why = 'Default::default() of %s does not build the struct in one aggregate' % rp
            else:
                op = agg[0]['rv']['ops'][names.index(rf)]
                cv = _const_of(dfl, op)
                if cv in ZERO_CONSTS: pass
                elif kind == 'enum' and _enum_default_is_zero(F, dfl, op): pass
                elif f['type'] in ('string', 'bytes') and op['k'] in ('copy', 'move'):
                    dd = dfl.defs_of(op['pl']['l'])
                    nm = (dd[0][2]['r'] or dd[0][2]['f']) if len(dd) == 1 and dd[0][0] == 'call' else ''
                    if not re.search(r'^(std::string::String::new|<std::string::String as std::default::Default>::default|std::vec::Vec::<u8>::new|<std::vec::Vec<u8> as std::default::Default>::default)$', strip_generics_tail(nm) if False else nm):
                        why = 'an absent field is read as the result of %s, proto3 says the empty value' % (nm or 'a computed value')
                else: why = 'an absent field is read as %s, proto3 says the zero value' % (cv if cv is not None else 'a computed value')
            ctx.check(why is None, rid + '/absent-reads-zero', 'T-SCHEMA', dfl.name, why or '', dfl.site(), tag=f['number'])
    ctx.floor(R, 56)


def check(ctx):
    repo = getattr(ctx, 'repo', '/repo')
    try:
        msgs, enums, files = PP.load(os.path.join(repo, 'proto'))
    except Exception as ex:
        ctx.bad('C07.schema/parse', 'T-SCHEMA', 'proto/', 'schema does not parse: %s' % ex); return
    ctx.extra['explanation'] = ('static comparison of three independently obtained wire tables: the proto3 schema (own parser), what the compiled Rust will actually put on / accept from the wire '
                                '(prost-derived encode_raw / merge_field / oneof encode+merge / enum tables read from MIR), and the descriptors embedded in the generated Python modules (own wire decoder); '
                                'prost and protobuf-python themselves are trusted (DESIGN.md §5 C07)')
    ctx.check(all(m['syntax'] == 'proto3' for m in msgs.values()), 'C07.schema/proto3', 'T-SCHEMA', 'proto/', 'not all files are proto3')
    nf, nv = rust_tables(ctx, msgs, enums)
    npf = pb2_tables(ctx, msgs, enums, repo)
    ctx.sample(dict(messages=len(msgs), enums=len(enums), fields=sum(len(m['fields']) for m in msgs.values()), rust_fields_compared=nf, python_fields_compared=npf, enum_values=nv, proto_files=files))
    # reserved / duplicate numbers inside the schema itself
    for k, m in msgs.items():
        nums = [f['number'] for f in m['fields']]; names = [f['name'] for f in m['fields']]
        ctx.check(len(nums) == len(set(nums)) and len(names) == len(set(names)), 'C07.schema/unique/' + k, 'T-SCHEMA', m['file'], 'duplicate field numbers or names')
    default_rules(ctx, msgs, enums)
    history_rules(ctx, msgs, enums)
    ctx.floor('C07.rust', 150); ctx.floor('C07.python', 140); ctx.floor('C07.schema', 30)


# ----------------------------------------------------------------------------------------- thorough
def wire_sig(msgs, enums, full, f):
    wt, packed = PP.wire_of(msgs, enums, full, f)
    lab = 'map' if isinstance(f['type'], tuple) else f['label']
    return [f['number'], wt, lab if lab != 'oneof' else 'oneof']


def history_rules(ctx, msgs, enums):
    """wire history: every (message, number, wire type, label) of the pinned schema is still there, and a
    field name that still exists keeps its number (two same-typed fields swapping numbers is invisible
    to the wire signature but swaps their meaning for every message written before)"""
    hist = json.load(open(os.path.join(os.path.dirname(__file__), 'tables', 'C07_pinned_schema.json')))
    for full, rows in sorted(hist['messages'].items()):
        m = msgs.get(full)
        if m is None:
            ctx.bad('C07.history/message/' + full, 'T-SCHEMA', 'proto/', 'message of the pinned schema was removed'); continue
        cur = {f['number']: wire_sig(msgs, enums, full, f) for f in m['fields']}
        num_of = {f['name']: f['number'] for f in m['fields']}
        reserved = set()
        for r in m['reserved']:
            for x in r:
                if re.fullmatch(r'\d+', x): reserved.add(int(x))
        for row in rows:
            num, wt, lab = row[:3]
            c = cur.get(num)
            ok = (c is not None and c[1] == wt and (c[2] == lab or {c[2], lab} <= {'singular', 'optional', 'oneof'})) or (c is None and num in reserved)
            ctx.check(ok, 'C07.history/field/%s#%d' % (full, num), 'T-SCHEMA', m['file'], 'field %d of the pinned schema (wire type %d, %s) is now %s' % (num, wt, lab, c), m['file'])
            if len(row) > 3:
                name = row[3]
                ctx.check(num_of.get(name, num) == num, 'C07.history/name/%s.%s' % (full, name), 'T-SCHEMA', m['file'],
                          'field `%s` had number %d in the pinned schema and has %s now: messages written before are read with another meaning' % (name, num, num_of.get(name)), m['file'])
    for full, vals in sorted(hist['enums'].items()):
        e = enums.get(full)
        ok = e is not None and all(v in e['values'].values() for v in vals)
        ctx.check(ok, 'C07.history/enum/' + full, 'T-SCHEMA', 'proto/', 'enum numbers of the pinned schema %s are no longer all declared (%s)' % (vals, e and sorted(e['values'].values())))
    ctx.floor('C07.history', 220)


def thorough(ctx):
    repo = getattr(ctx, 'repo', '/repo')
    msgs, enums, files = PP.load(os.path.join(repo, 'proto'))
    # (b) the stored 2024 artifact decodes under today's schema
    path = os.path.join(repo, 'data', 'random_lp_instance.ommx')
    try:
        tf = tarfile.open(path)
        blobs = {m.name: tf.extractfile(m).read() for m in tf.getmembers() if m.isfile()}
        index = json.loads(blobs['index.json'])
        mani = json.loads(blobs['blobs/sha256/' + index['manifests'][0]['digest'].split(':')[1]])
        layers = [l for l in mani['layers'] if l['mediaType'] == 'application/org.ommx.v1.instance']
        ctx.check(len(layers) >= 1, 'C07.artifact/has-instance-layer', 'T-SCHEMA', path, 'no instance layer in the stored artifact')
        for l in layers:
            blob = blobs['blobs/sha256/' + l['digest'].split(':')[1]]
            stats = dict(fields=0, messages=0)
            bad = []
            decode_check(msgs, enums, 'ommx.v1.Instance', blob, stats, bad, 'Instance')
            ctx.check(not bad, 'C07.artifact/decodes', 'T-SCHEMA', 'data/random_lp_instance.ommx', 'stored artifact contains fields today\'s schema does not declare: %s' % bad[:5], 'data/random_lp_instance.ommx', **stats)
            ctx.sample(dict(artifact='data/random_lp_instance.ommx', layer=l['digest'][:19], bytes=len(blob), **stats))
    except Exception as ex:
        ctx.bad('C07.artifact/readable', 'T-SCHEMA', path, 'cannot read the stored artifact: %r' % ex)
    ctx.floor('C07.artifact', 2)


def decode_check(msgs, enums, full, blob, stats, bad, path, depth=0):
    m = msgs[full]; byn = {f['number']: f for f in m['fields']}
    stats['messages'] += 1
    try:
        items = list(W.fields(blob))
    except Exception as ex:
        bad.append('%s: undecodable (%s)' % (path, ex)); return
    for num, wt, v in items:
        stats['fields'] += 1
        f = byn.get(num)
        if f is None:
            bad.append('%s: unknown field %d (wire type %d)' % (path, num, wt)); continue
        ewt, packed = PP.wire_of(msgs, enums, full, f)
        # proto3 readers accept packed and unpacked encodings of repeated scalars
        ok = wt == ewt or (f['label'] == 'repeated' and not isinstance(f['type'], tuple) and wt in (0, 1, 5, 2))
        if not ok:
            bad.append('%s.%s: wire type %d, schema says %d' % (path, f['name'], wt, ewt)); continue
        ty = f['type']
        if isinstance(ty, tuple):
            vt = ty[2]
            if vt not in PP.SCALARS:
                r = PP.resolve(msgs, enums, full, vt)
                if r and r[0] == 'message':
                    for n2, w2, v2 in W.fields(v):
                        if n2 == 2 and w2 == 2: decode_check(msgs, enums, r[1], v2, stats, bad, path + '.' + f['name'] + '[]', depth + 1)
        elif ty not in PP.SCALARS and wt == 2:
            r = PP.resolve(msgs, enums, full, ty)
            if r and r[0] == 'message': decode_check(msgs, enums, r[1], v, stats, bad, path + '.' + f['name'], depth + 1)
