"""C09 — penalty methods keep every constraint and build f + weighted squared violations (DESIGN §5 C09)."""
import re
from .common import *

INST = 'v1::Instance'
CARRIED = ['description', 'decision_variables', 'sense', 'constraint_hints', 'decision_variable_dependency']


def returned_aggregate(ctx, rule, body, adt):
    aggs = find_aggregates(body, adt)
    if len(aggs) != 1:
        ctx.bad(rule, 'ANCHOR', body.name, 'expected exactly one %s aggregate, found %d' % (adt, len(aggs)))
        return None
    return aggs[0][1]


def check_method(ctx, name, uniform):
    R = 'C09.%s' % ('uniform' if uniform else 'per')
    body = ctx.method('C09.anchor/' + name, INST, name)
    if body is None: return
    # ---- coverage of the input message
    cover(ctx, 'C09.cover/' + name, body, INST, exempt=('parameters',))
    agg = returned_aggregate(ctx, 'C09.carry/%s/aggregate' % name, body, 'v1::ParametricInstance')
    if agg is None: return
    for f in CARRIED:
        carry_field(ctx, 'C09.carry/%s/%s' % (name, f), body, agg, f, need_fields=[(INST, f)])
    # no active constraints in the result
    carry_field(ctx, 'C09.carry/%s/constraints' % name, body, agg, 'constraints', not_fields=[(INST, 'constraints'), (INST, 'removed_constraints')])
    # every constraint of the input — already removed ones included — is kept as removed
    carry_field(ctx, 'C09.carry/%s/removed_constraints' % name, body, agg, 'removed_constraints',
                need_fields=[(INST, 'constraints'), (INST, 'removed_constraints')])
    # objective = old objective + parameter * g*g
    so = carry_field(ctx, 'C09.carry/%s/objective' % name, body, agg, 'objective',
                     need_fields=[(INST, 'objective'), (INST, 'constraints')],
                     need_calls=[r'ops::Add.* for v1::Function>::add|Function as std::ops::Add', r'ops::Mul'])
    if so is not None:
        plocals = [l for l in so.locals if re.fullmatch(r'&?v1::Parameter', body.locals[l])]
        ctx.check(bool(plocals), 'C09.objective/%s/parameter' % name, 'T-CARRY', body.name, 'objective does not depend on a weight parameter', body.site())
        # the squared term: a product whose two operands both derive from the constraint's function
        sq = []
        for c in so.call_objs:
            if (c.trait or '').endswith('ops::Mul') and c.item == 'mul' and len(c.args) == 2:
                ss = [ctx.S.slice_operand(body, a) for a in c.args]
                if all(s.has_field('v1::Constraint', 'function') or s.has_call(r'impl v1::Constraint>::function') for s in ss):
                    sq.append(c)
        ctx.check(bool(sq), 'C09.objective/%s/square' % name, 'T-CARRY', body.name,
                  'objective contains no product g*g of a constraint function with itself', body.site(),
                  square_sites=[body.site(c.bb) for c in sq])
    # parameters of the result
    sp = carry_field(ctx, 'C09.carry/%s/parameters' % name, body, agg, 'parameters')
    paggs = find_aggregates(body, 'v1::Parameter')
    ctx.check(len(paggs) == 1, 'C09.parameters/%s/one-constructor' % name, 'T-CARRY', body.name, 'expected one v1::Parameter aggregate, found %d' % len(paggs), body.site())
    loops = loops_over(ctx, body, INST, 'constraints')
    ctx.check(len(loops) == 1, 'C09.loop/%s' % name, 'T-LOOPMUST', body.name, 'expected one loop over self.constraints, found %d' % len(loops), body.site())
    for bi, st in paggs:
        fresh_id_rule(ctx, 'C09.fresh/%s' % name, body, agg_field_operand(st, 'id'), 'weight parameter id')
        if not uniform:
            carry_field(ctx, 'C09.tags/%s/subscripts' % name, body, st, 'subscripts', need_fields=[('v1::Constraint', 'id')], site=body.site(bi))
            # id differs per constraint: depends on the enumerate index
            sid = slice_op(ctx, body, agg_field_operand(st, 'id'))
            ctx.check(sid.has_call(r'Iterator>::enumerate|Enumerate<') or any('Enumerate' in body.locals[l] for l in sid.locals),
                      'C09.fresh/%s/per-constraint-offset' % name, 'T-CARRY', body.name, 'parameter id does not depend on the constraint index', body.site(bi))
            for lo in loops:
                ctx.check(bi in lo[4], 'C09.parameters/%s/in-loop' % name, 'T-LOOPMUST', body.name, 'parameter is not created inside the constraint loop', body.site(bi))
        else:
            for lo in loops:
                ctx.check(bi not in lo[4], 'C09.parameters/%s/outside-loop' % name, 'T-LOOPMUST', body.name, 'uniform parameter is created inside the constraint loop', body.site(bi))
    # each constraint wrapped unchanged, on every path through the loop
    raggs = find_aggregates(body, 'v1::RemovedConstraint')
    for lo in loops:
        inloop = [(bi, st) for bi, st in raggs if bi in lo[4]]
        ctx.check(len(inloop) == 1, 'C09.wrap/%s/one' % name, 'T-CARRY', body.name, 'expected one RemovedConstraint built per loop iteration, found %d' % len(inloop), body.site())
        for bi, st in inloop:
            op = agg_field_operand(st, 'constraint')
            s = slice_op(ctx, body, op)
            item_locals = T.copies_of(body, lo[0].dst['l'])
            ctx.check(lo[0].dst['l'] in s.locals and not any(x.item == 'clone' for x in s.call_objs) , 'C09.wrap/%s/unchanged' % name, 'T-CARRY', body.name,
                      'RemovedConstraint.constraint is not the loop item itself', body.site(bi))
            # nothing writes into the loop item before it is wrapped
            item_ty = 'v1::Constraint'
            writes = []
            for b2, st2 in body.stmts():
                if b2 in lo[4] and st2['dst']['p'] and any(a.endswith(item_ty) for a, f in fields_of_place(st2['dst'])):
                    writes.append(body.site(b2))
            ctx.check(not writes, 'C09.wrap/%s/no-write' % name, 'T-CARRY', body.name, 'the constraint is modified inside the loop at %s' % writes, body.site(bi))
            if not uniform:
                carry_field(ctx, 'C09.tags/%s/parameter_id' % name, body, st, 'removed_reason_parameters',
                            need_fields=[('v1::Parameter', 'id')], need_consts=[r'"parameter_id"'], site=body.site(bi))
        loop_must(ctx, 'C09.loop/%s/push-removed' % name, body, lo,
                  lambda c: c.is_(item='push', path_re=r'Vec::<v1::RemovedConstraint>::push'), 'removed_constraints.push')
        if not uniform:
            loop_must(ctx, 'C09.loop/%s/push-parameter' % name, body, lo,
                      lambda c: c.is_(item='push', path_re=r'Vec::<v1::Parameter>::push'), 'parameters.push')


def check(ctx):
    check_method(ctx, 'penalty_method', False)
    check_method(ctx, 'uniform_penalty_method', True)
    ctx.floor('C09.cover', 16)
    ctx.floor('C09.carry', 18)
    ctx.floor('C09.fresh', 3)
    ctx.floor('C09.wrap', 6)
    ctx.floor('C09.loop', 5)
