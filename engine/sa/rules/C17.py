"""C17 — reading MPS (DESIGN §5 C17)."""
from .common import *

MPS = 'mps::parser::Mps'; ST = 'mps::parser::State'


def mps_table_of(body, operand):
    fs = [f for a, f in T.access_path(body, operand)[0] if a.endswith('parser::Mps')]
    return fs[-1] if fs else None


def literal_table(body):
    """{literal: (true_target, false_target, call)} of the `x == "LIT"` tests of a string match"""
    tab = {}
    for lit, c, t, f in T.str_eq_tests(body):
        tab.setdefault(lit, (t, f, c))
    return tab


def fallthrough_region(body, tab):
    return body.reach([0], stop={t for t, f, c in tab.values()})


def check_literals(ctx, rule, body, want, err_variant, exact=False):
    tab = literal_table(body)
    got = set(tab)
    ok = (got == set(want)) if exact else (set(want) <= got)
    ctx.check(ok, rule + '/keywords', 'T-TABLE', body.name, 'accepted keywords %s, the format requires %s' % (sorted(got), sorted(want)), body.site(), table=sorted(got))
    rest = fallthrough_region(body, tab)
    errs = [bi for bi, st in body.stmts() if bi in rest and st['rv']['k'] == 'agg' and st['rv']['adt'].endswith('MpsParseError::' + err_variant)]
    ctx.check(bool(errs) and not (rest & body.strict_ok_exits()) and not (rest & {bi for bi in body.panic_blocks() if bi not in body.reach([0], stop=set()) - rest}) or (bool(errs) and not (rest & body.strict_ok_exits())),
              rule + '/unknown-is-error', 'T-TABLE', body.name, 'an unknown keyword does not lead to MpsParseError::%s' % err_variant, body.site())
    return tab


def arm_region(body, tab, lit):
    t, f, c = tab[lit]
    others = {x[0] for l, x in tab.items() if x[0] != t}
    return body.reach([t], stop=others) - (body.reach([f], stop={t}) if f is not None else set())


def table_effects(ctx, body, region):
    """effects on the parsed tables inside a region: set of (table, op, value-kind)"""
    eff = set()
    for c in body.calls:
        if c.bb not in region: continue
        if c.item in ('insert', 'remove', 'take') and re.search(r'Hash(Map|Set)::<', c.name):
            tab = mps_table_of(body, c.args[0])
            if tab is None: continue
            val = None
            if c.item == 'insert' and len(c.args) == 3:
                ex = T.expr(body, c.args[2])
                if ex[0] == 'const': val = '-inf' if 'NEG_INFINITY' in ex[1] else ('+inf' if 'INFINITY' in ex[1] else ex[1])
                elif any(x[0] == 'call' and x[1] == 'parse' for x in T.expr_walk(ex)): val = 'value'
                elif any(x[0] == 'call' and x[1] == 'new' and 'HashMap' in x[2] for x in T.expr_walk(ex)): val = 'empty-row'
                else: val = T.expr_str(ex, 3)
            eff.add((tab, c.item) if val is None else (tab, c.item, val))
    for bi, st in body.stmts():
        if bi in region and st['dst']['p']:
            fs = [f for a, f in fields_of_place(st['dst']) if a.endswith('parser::Mps') or a.endswith('parser::State')]
            if fs and fs[-1] not in ('mps',):
                v = st['rv']['ops'][0]['v'] if st['rv']['k'] == 'use' and st['rv']['ops'][0]['k'] == 'const' else 'value'
                eff.add((fs[-1], 'assign', v))
    return eff


def parser_rules(ctx):
    R = 'C17.keywords'
    b = ctx.method(R + '/sense/anchor', 'mps::parser::ObjSense', 'from_str', trait='FromStr')
    if b is not None:
        tab = check_literals(ctx, R + '/sense', b, {'MIN', 'MAX'}, 'InvalidObjSense')
        rows = {}
        for lit in ('MIN', 'MAX'):
            if lit in tab:
                reg = arm_region(b, tab, lit)
                rows[lit] = sorted({st['rv']['adt'].split('::')[-1] for bi, st in b.stmts() if bi in reg and st['rv']['k'] == 'agg' and 'ObjSense::' in st['rv']['adt']})
        ctx.check(rows == {'MIN': ['Min'], 'MAX': ['Max']}, R + '/sense/mapping', 'T-BRANCHFX', b.name, 'MIN/MAX map to %s' % rows, b.site())
    b = ctx.method(R + '/sections/anchor', 'mps::parser::Cursor', 'from_str', trait='FromStr')
    if b is not None:
        tab = check_literals(ctx, R + '/sections', b, {'ROWS', 'COLUMNS', 'RHS', 'RANGES', 'BOUNDS', 'ENDATA'}, 'InvalidHeader')
        want = {'ROWS': 'Rows', 'COLUMNS': 'Columns', 'RHS': 'Rhs', 'RANGES': 'Ranges', 'BOUNDS': 'Bounds', 'ENDATA': 'End'}
        rows = {}
        for lit in want:
            if lit in tab:
                reg = arm_region(b, tab, lit)
                v = sorted({st['rv']['adt'].split('::')[-1] for bi, st in b.stmts() if bi in reg and st['rv']['k'] == 'agg' and 'Cursor::' in st['rv']['adt']})
                rows[lit] = v[0] if len(v) == 1 else v
        ctx.check(rows == want, R + '/sections/mapping', 'T-BRANCHFX', b.name, 'section keywords map to %s' % rows, b.site())
    # the dispatcher routes each section to its reader
    fl = [x for x in ctx.F.bodies.values() if x.kind == 'fn' and x.hdr.get('self') == MPS and x.hdr.get('item') == 'from_lines']
    if len(fl) != 1: ctx.lost(R + '/dispatch', 'Mps::from_lines')
    else:
        b = ctx.fn(fl[0])
        cur = ctx.F.adt('mps::parser::Cursor')
        want = {'Rows': 'read_row_field', 'Columns': 'read_column_field', 'Rhs': 'read_rhs_field', 'Ranges': 'read_range_field', 'Bounds': 'read_bound_field'}
        got = {}
        for bi in b.live:
            t = b.blocks[bi]['term']
            if t['k'] == 'switch' and t['d']['k'] != 'const' and cur:
                for k2, b2, d in b.defs_of(t['d']['pl']['l']):
                    if k2 == 'stmt' and d['rv']['k'] == 'discr' and (ST, 'cursor') in fields_of_place(d['rv']['pl']):
                        m = {v: tg for v, tg in t['ts']}
                        for v in cur['variants']:
                            tg = m.get(v['discr'], t['else'])
                            others = {m.get(x['discr'], t['else']) for x in cur['variants']} - {tg}
                            reg = b.reach([tg], stop=others | set(b.loops()))
                            rd = sorted({c.item for c in b.calls if c.bb in reg and c.item.startswith('read_')})
                            got[v['name']] = rd[0] if len(rd) == 1 else (rd or None)
        ctx.check({k: got.get(k) for k in want} == want, R + '/dispatch', 'T-BRANCHFX', b.name, 'section dispatch is %s' % got, b.site(), table=str(got))
        rds = [c for c in b.calls if c.item.startswith('read_')]
        errflow_calls(ctx, R + '/dispatch/errors-propagate', b, rds, 'section reader')
        ctx.check(got.get('Name') is None and any(st['rv']['k'] == 'agg' and st['rv']['adt'].endswith('MpsParseError::InvalidHeader') for bi, st in b.stmts()), R + '/dispatch/data-before-section', 'T-TABLE', b.name, 'a data line before any section is not an error', b.site())
    b = ctx.method(R + '/header/anchor', ST, 'read_header')
    if b is not None:
        lits = sorted({c.args[1]['v'].strip('"') for c in b.calls if c.item == 'strip_prefix' and len(c.args) > 1 and c.args[1]['k'] == 'const'})
        ctx.check(lits == ['NAME', 'OBJSENSE'], R + '/header/prefixes', 'T-TABLE', b.name, 'header prefixes are %s' % lits, b.site())
        ps = [c for c in b.calls if c.item == 'parse']
        errflow_calls(ctx, R + '/header/errors', b, ps, 'header keyword')
    # ---- rows
    b = ctx.method('C17.rows/anchor', ST, 'read_row_field')
    if b is not None:
        tab = check_literals(ctx, 'C17.keywords/rows', b, {'N', 'E', 'G', 'L'}, 'InvalidRowType')
        want = {'E': {('eq', 'insert'), ('a', 'insert', 'empty-row')}, 'G': {('ge', 'insert'), ('a', 'insert', 'empty-row')}, 'L': {('le', 'insert'), ('a', 'insert', 'empty-row')}}
        for lit, w in want.items():
            if lit not in tab: continue
            eff = table_effects(ctx, b, arm_region(b, tab, lit) | b.reach([tab[lit][0]]))
            eff = {e for e in eff if e[0] in ('eq', 'ge', 'le', 'a')}
            ctx.check(eff == w, 'C17.rows/' + lit, 'T-BRANCHFX', b.name, 'row type %s has effects %s, expected %s' % (lit, sorted(eff), sorted(w)), b.site(), effects=sorted(map(str, eff)))
        if 'N' in tab:
            reg = b.reach([tab['N'][0]], stop={x[0] for l, x in tab.items() if l != 'N'})
            eff = table_effects(ctx, b, reg)
            ok = ('objective_name', 'assign', 'value') in eff and not any(e[0] in ('a', 'eq', 'ge', 'le') for e in eff)
            guarded = any(c.item == 'is_empty' and c.bb in reg for c in b.calls)
            ctx.check(ok and guarded, 'C17.rows/N', 'T-BRANCHFX', b.name, 'an N row must name the objective (first one only) and create no constraint row; effects %s' % sorted(map(str, eff)), b.site())
    # ---- columns: markers, undeclared rows, numbers
    b = ctx.method('C17.keywords/markers/anchor', ST, 'read_column_field')
    if b is not None:
        tab = literal_table(b)
        ctx.check({"'MARKER'", "'INTORG'", "'INTEND'"} <= set(tab), 'C17.keywords/markers/keywords', 'T-TABLE', b.name, 'marker keywords are %s' % sorted(tab), b.site())
        if "'INTORG'" in tab and "'INTEND'" in tab:
            vals = {}
            for lit in ("'INTORG'", "'INTEND'"):
                reg = arm_region(b, tab, lit)
                vals[lit] = sorted({e[2] for e in table_effects(ctx, b, reg) if e[0] == 'is_integer_variable'})
            ctx.check(vals == {"'INTORG'": ['true'], "'INTEND'": ['false']}, 'C17.keywords/markers/effect', 'T-BRANCHFX', b.name, 'INTORG/INTEND set the integer flag to %s' % vals, b.site())
            sub = {k: v for k, v in tab.items() if k in ("'INTORG'", "'INTEND'")}
            rest = b.reach([tab["'MARKER'"][0]], stop={t for t, f, c in sub.values()})
            errs = [bi for bi, st in b.stmts() if bi in rest and st['rv']['k'] == 'agg' and st['rv']['adt'].endswith('MpsParseError::InvalidMarker')]
            ctx.check(bool(errs) and not (rest & b.strict_ok_exits()), 'C17.keywords/markers/unknown-is-error', 'T-TABLE', b.name, 'an unknown marker is not an error', b.site())
        # integer flag decides integer / real membership
        sw = [g for bi in b.live for g in [b.blocks[bi]['term']] if g['k'] == 'switch' and g['d']['k'] != 'const' and (ST, 'is_integer_variable') in T.access_path(b, g['d'])[0]]
        okk = False
        for g in sw:
            m = {v: tg for v, tg in g['ts']}
            fr = b.reach([m.get(0, g['else'])], stop=set(b.loops())); tr = b.reach([g['else']], stop=set(b.loops()))
            ei = {e[:2] for e in table_effects(ctx, b, tr - fr)}; er = {e[:2] for e in table_effects(ctx, b, fr - tr)}
            okk = ('integer', 'insert') in ei and ('real', 'insert') in er
        ctx.check(okk, 'C17.keywords/markers/membership', 'T-BRANCHFX', b.name, 'columns inside INTORG/INTEND are not recorded as integer (others as real)', b.site())
        ctx.check(('vars', 'insert') in {e[:2] for e in table_effects(ctx, b, b.live)}, 'C17.columns/vars', 'T-BRANCHFX', b.name, 'column is not recorded in vars', b.site())
        # objective row vs constraint row
        eqs = [c for c in b.calls if c.item == 'eq' and 'RowName' in c.name]
        okk = False
        for c in eqs:
            if any((MPS, 'objective_name') in T.access_path(b, a)[0] or mps_table_of(b, a) == 'objective_name' for a in c.args):
                for g in T.guards_from_call(b, c):
                    tr = b.reach([g.true_bb], stop=set(b.loops())) - b.reach([g.false_bb], stop=set(b.loops()))
                    fr = b.reach([g.false_bb], stop=set(b.loops())) - b.reach([g.true_bb], stop=set(b.loops()))
                    et = {e[:2] for e in table_effects(ctx, b, tr)}; ef = {e[:2] for e in table_effects(ctx, b, fr)}
                    okk = ('c', 'insert') in et and ('c', 'insert') not in ef and any(x.item == 'get_mut' and mps_table_of(b, x.args[0]) == 'a' and x.bb in fr for x in b.calls)
        ctx.check(okk, 'C17.columns/objective-vs-constraint', 'T-BRANCHFX', b.name, 'entries of the objective row must go to c, all others to the declared row of a', b.site())
    for fn in ('read_column_field', 'read_range_field'):
        b = ctx.method('C17.keywords/undeclared-row/%s/anchor' % fn, ST, fn)
        if b is None: continue
        gm = [c for c in b.calls if c.item == 'get_mut' and mps_table_of(b, c.args[0]) == 'a']
        ctx.check(len(gm) == 1, 'C17.keywords/undeclared-row/%s/lookup' % fn, 'T-ERRFLOW', b.name, 'expected one a.get_mut(row)', b.site())
        errflow_calls(ctx, 'C17.keywords/undeclared-row/%s/is-error' % fn, b, gm, 'undeclared row')
        for c in gm:
            oko = [x for x in b.calls if x.item == 'ok_or' and c in ctx.S.slice_operand(b, x.args[0]).call_objs]
            ok = any(T.expr(b, x.args[1])[0] == 'agg' and T.expr(b, x.args[1])[1].endswith('MpsParseError::UnknownRowName') for x in oko)
            ctx.check(ok, 'C17.keywords/undeclared-row/%s/typed' % fn, 'T-ERRFLOW', b.name, 'undeclared row is not reported as UnknownRowName', b.site(c.bb))
    for fn in ('read_column_field', 'read_rhs_field', 'read_range_field', 'read_bound_field'):
        b = ctx.F.one(ST, fn)
        if b is None: continue
        ps = [c for c in b.calls if c.item == 'parse' and 'f64' in c.name]
        ctx.check(bool(ps), 'C17.keywords/numbers/%s/parsed' % fn, 'T-ERRFLOW', b.name, 'no number is parsed', b.site())
        errflow_calls(ctx, 'C17.keywords/numbers/%s/error' % fn, b, ps, 'unparsable number')
    # ---- rhs
    b = ctx.method('C17.rhs/anchor', ST, 'read_rhs_field')
    if b is not None:
        eff = table_effects(ctx, b, b.live)
        ctx.check(('b', 'insert', 'value') in eff, 'C17.rhs/stores-b', 'T-BRANCHFX', b.name, 'RHS value is not stored in b', b.site())
        for lo in T.for_loops(b):
            loop_must(ctx, 'C17.rhs/every-pair', b, lo, lambda c: c.item == 'insert' and mps_table_of(b, c.args[0]) == 'b', 'b.insert(row, value)')
    # ---- ranges: the RANGES sign table
    b = ctx.method('C17.ranges/anchor', ST, 'read_range_field')
    if b is not None:
        hdrs = set(b.loops())
        conts = {}
        for c in b.calls:
            if c.item == 'contains' and 'HashSet' in c.name:
                tab = mps_table_of(b, c.args[0])
                if tab in ('eq', 'ge', 'le'):
                    for g in T.guards_from_call(b, c): conts[tab] = g
        ctx.check(set(conts) == {'eq', 'ge', 'le'}, 'C17.ranges/row-type-tests', 'T-BRANCHFX', b.name, 'row type tests found: %s' % sorted(conts), b.site())
        def leaf_effects(reg):
            ops = []
            for bi, st in b.stmts():
                if bi in reg and st['rv']['k'] == 'bin' and st['rv'].get('ty') == 'f64' and st['rv']['op'] in ('Add', 'Sub'):
                    l = T.expr(b, st['rv']['ops'][0], depth=10); r = T.expr(b, st['rv']['ops'][1], depth=10)
                    base_ok = any(x[0] == 'call' and x[1] == 'get' for x in T.expr_walk(l)) or any(x[0] == 'call' and x[1] in ('unwrap_or', 'copied', 'unwrap_or_default') for x in T.expr_walk(l))
                    ops.append((st['rv']['op'], 'b' if base_ok else T.expr_str(l, 3), '|r|' if T.expr_has_call(r, 'abs') else ('r' if r[0] in ('local', 'place') else T.expr_str(r, 3))))
            for c in b.calls:
                m = T.ARITH_CALL.match(c.name)
                if c.bb in reg and m and m.group(2) in ('Add', 'Sub'):
                    l = T.expr(b, c.args[0], depth=10); r = T.expr(b, c.args[1], depth=10)
                    base_ok = any(x[0] == 'call' and x[1] in ('get', 'unwrap_or', 'copied', 'unwrap_or_default') for x in T.expr_walk(l))
                    ops.append((m.group(2), 'b' if base_ok else T.expr_str(l, 3), '|r|' if T.expr_has_call(r, 'abs') else ('r' if T.strip_wrappers(r)[0] in ('local', 'place') else T.expr_str(r, 3))))
            sets = {e[:2] for e in table_effects(ctx, b, reg) if e[0] in ('eq', 'ge', 'le')}
            return ops, sets
        if set(conts) == {'eq', 'ge', 'le'}:
            others = lambda k: {conts[x].true_bb for x in conts if x != k}
            table = {}
            ge_ = conts['eq']
            eq_reg = T.reach_cp(b, [ge_.true_bb], stop=hdrs) - T.reach_cp(b, [ge_.false_bb], stop=hdrs)
            # sign of the range inside the E case
            pos = None
            for bi, st in float_cmp_sites(b, ('Gt', 'Lt', 'Ge', 'Le')):
                if bi in eq_reg and any(o['k'] == 'const' and o['v'] == '0f64' for o in st['rv']['ops']):
                    for g in T.guards_from_local(b, st['dst']['l'], bi):
                        op = st['rv']['op']; cr = st['rv']['ops'][1]['k'] == 'const'
                        pos_true = (op in ('Gt', 'Ge')) == cr
                        pos = (g.true_bb, g.false_bb) if pos_true else (g.false_bb, g.true_bb)
            if pos:
                pr = T.reach_cp(b, [pos[0]], stop=hdrs) - T.reach_cp(b, [pos[1]], stop=hdrs); nr = T.reach_cp(b, [pos[1]], stop=hdrs) - T.reach_cp(b, [pos[0]], stop=hdrs)
                table['E+'] = leaf_effects(pr & eq_reg); table['E-'] = leaf_effects(nr & eq_reg)
                shared = leaf_effects(eq_reg - pr - nr)[0]
                if not table['E+'][0] and not table['E-'][0] and shared == [('Add', 'b', 'r')]:
                    # `b + r` computed once for both signs is the same as b + |r| / b - |r|
                    table['E+'] = (shared, table['E+'][1]); table['E-'] = (shared, table['E-'][1])
            for k, name in (('ge', 'G'), ('le', 'L')):
                g = conts[k]
                reg = T.reach_cp(b, [g.true_bb], stop=hdrs) - T.reach_cp(b, [g.false_bb], stop=hdrs)
                table[name] = leaf_effects(reg)
            want = {'E+': ([('Add', 'b', '|r|')], {('ge', 'insert'), ('le', 'insert')}), 'E-': ([('Sub', 'b', '|r|')], {('le', 'insert'), ('ge', 'insert')}),
                    'G': ([('Add', 'b', '|r|')], {('le', 'insert')}), 'L': ([('Sub', 'b', '|r|')], {('ge', 'insert')})}
            for k in want:
                got = table.get(k)
                alt = {'E+': [[('Add', 'b', 'r')]], 'E-': [[('Add', 'b', 'r')]]}.get(k, [])     # the sign of r is known inside the E cases
                ctx.check(got is not None and (got[0] == want[k][0] or got[0] in alt) and got[1] == want[k][1], 'C17.ranges/' + k, 'T-BRANCHFX', b.name,
                          'RANGES on a %s row: second right-hand side is %s with sets %s; the format says %s' % (k, got and got[0], got and sorted(got[1]), want[k][0]), b.site(), table=str(got))
            eqrm = ('eq', 'remove') in {e[:2] for e in table_effects(ctx, b, eq_reg)}
            ctx.check(eqrm, 'C17.ranges/E-becomes-two-inequalities', 'T-BRANCHFX', b.name, 'a ranged E row is not removed from the equalities', b.site())
        eff = {e[:2] for e in table_effects(ctx, b, b.live)}
        ctx.check(('a', 'insert') in eff and ('b', 'insert') in eff, 'C17.ranges/second-row-created', 'T-BRANCHFX', b.name, 'the second row (coefficients and right-hand side) is not created', b.site())
    # ---- bounds
    b = ctx.method('C17.bounds/anchor', ST, 'read_bound_field')
    if b is not None:
        tab = check_literals(ctx, 'C17.keywords/bounds', b, {'UP', 'LO', 'FX', 'MI', 'PL', 'FR', 'BV', 'LI', 'UI'}, 'InvalidBoundType')
        want = {
            'LO': {('l', 'insert', 'value')}, 'UP': {('u', 'insert', 'value')}, 'FX': {('l', 'insert', 'value'), ('u', 'insert', 'value')},
            'MI': {('l', 'insert', '-inf')}, 'FR': {('l', 'insert', '-inf')}, 'PL': set(),
            'BV': {('integer', 'remove'), ('real', 'remove'), ('binary', 'insert')},
            'UI': {('integer', 'insert'), ('real', 'remove'), ('u', 'insert', 'value')}, 'LI': {('integer', 'insert'), ('real', 'remove'), ('l', 'insert', 'value')},
        }
        alt = {'PL': [set(), {('u', 'insert', '+inf')}], 'FR': [{('l', 'insert', '-inf')}, {('l', 'insert', '-inf'), ('u', 'insert', '+inf')}]}
        for lit, w in want.items():
            if lit not in tab: continue
            eff = table_effects(ctx, b, arm_region(b, tab, lit))
            ok = eff == w or eff in alt.get(lit, [])
            ctx.check(ok, 'C17.bounds/' + lit, 'T-BRANCHFX', b.name, 'bound type %s has effects %s, expected %s' % (lit, sorted(eff), sorted(w)), b.site(), effects=sorted(map(str, eff)))
            ctx.sample(dict(rule='C17.bounds', keyword=lit, effects=sorted(map(str, eff))))
            # column name is field 2, value field 3
            reg = arm_region(b, tab, lit)
            idx = sorted({c.args[1]['v'] for c in b.calls if c.bb in reg and c.item == 'index' and len(c.args) > 1 and c.args[1]['k'] == 'const'})
            wantidx = ['2_usize'] if lit in ('MI', 'FR', 'BV') else ([] if lit == 'PL' else ['2_usize', '3_usize'])
            ctx.check(idx == wantidx or (lit in ('PL',) and idx in ([], ['2_usize'])), 'C17.bounds/%s/fields' % lit, 'T-CONST', b.name, 'reads line fields %s, expected %s' % (idx, wantidx), b.site())
        if 'FX' in tab:
            reg = arm_region(b, tab, 'FX')
            ins = [c for c in b.calls if c.bb in reg and c.item == 'insert' and mps_table_of(b, c.args[0]) in ('l', 'u')]
            same = len(ins) == 2 and T.expr_str(T.expr(b, ins[0].args[2]), 8) == T.expr_str(T.expr(b, ins[1].args[2]), 8)
            ctx.check(same, 'C17.bounds/FX/same-value', 'T-CARRY', b.name, 'FX does not store the same value in l and u', b.site())
    # ---- finish(): integer [0,1] => binary
    b = ctx.method('C17.defaults/finish/anchor', ST, 'finish')
    if b is not None:
        cmps = [(bi, st) for bi, st in float_cmp_sites(b, ('Eq', 'Ne'))]
        consts = sorted({o['v'] for bi, st in cmps for o in st['rv']['ops'] if o['k'] == 'const'})
        eff = {e[:2] for e in table_effects(ctx, b, b.live)}
        ctx.check(consts == ['0f64', '1f64'] and ('integer', 'take') in eff and ('binary', 'insert') in eff, 'C17.defaults/finish/integer-0-1-is-binary', 'T-BRANCHFX', b.name,
                  'finish() does not turn integer columns with u == 1 and l absent or 0 into binaries (constants %s, effects %s)' % (consts, sorted(eff)), b.site())


def convert_rules(ctx):
    R = 'C17.convert'
    b = ctx.free_fn(R + '/anchor', 'mps::convert::convert')
    if b is None: return
    cover(ctx, R + '.cover', b, MPS)
    aggs = find_aggregates(b, 'v1::Instance')
    ctx.check(len(aggs) == 1, R + '/instance', 'T-CARRY', b.name, 'expected one v1::Instance aggregate', b.site())
    for bi, st in aggs:
        for f, fn in (('description', 'convert_description'), ('decision_variables', 'convert_dvars'), ('objective', 'convert_objective'), ('constraints', 'convert_constraints'), ('sense', 'convert_sense')):
            s = slice_op(ctx, b, agg_field_operand(st, f))
            ctx.check(any(c.item == fn for c in s.call_objs), R + '/instance/' + f, 'T-CARRY', b.name, 'Instance.%s does not come from %s' % (f, fn), b.site(bi))
    # sense
    sb = ctx.free_fn(R + '.sense/anchor', 'mps::convert::convert_sense')
    if sb is not None:
        adt = ctx.F.adt('mps::parser::ObjSense')
        rows = {}
        for bi_ in sb.live:
            t = sb.blocks[bi_]['term']
            if t['k'] == 'switch' and adt:
                m = {v: tg for v, tg in t['ts']}
                for v in adt['variants']:
                    tg = m.get(v['discr'], t['else'])
                    others = {m.get(x['discr'], t['else']) for x in adt['variants']} - {tg}
                    reg = sb.reach([tg], stop=others)
                    cs = sorted({o['v'] for b2, st in sb.stmts() if b2 in reg for o in st['rv'].get('ops', []) if o['k'] == 'const' and 'Sense::' in o['v']})
                    rows[v['name']] = [re.search(r'Sense::(\w+)', x).group(1) for x in cs]
        ctx.check(rows == {'Min': ['Minimize'], 'Max': ['Maximize']}, R + '.sense/mapping', 'T-BRANCHFX', sb.name, 'ObjSense maps to %s' % rows, sb.site())
    # kinds
    kb = ctx.free_fn(R + '.kind/anchor', 'mps::convert::get_dvar_kind')
    if kb is not None:
        rows = {}
        for c in kb.calls:
            if c.item == 'contains' and 'HashSet' in c.name:
                p = T.access_path(kb, c.args[0])[1]
                for g in T.guards_from_call(kb, c):
                    reg = kb.reach([g.true_bb]) - kb.reach([g.false_bb])
                    cs = sorted({re.search(r'Kind::(\w+)', o['v']).group(1) for b2, st in kb.stmts() if b2 in reg for o in st['rv'].get('ops', []) if o['k'] == 'const' and 'Kind::' in o['v']})
                    rows[p] = cs
        # parameters: 1 name, 2 integer, 3 binary, 4 real
        ctx.check(rows == {2: ['Integer'], 3: ['Binary'], 4: ['Continuous']}, R + '.kind/mapping', 'T-BRANCHFX', kb.name, 'membership in (integer, binary, real) maps to %s' % rows, kb.site())
    dv = ctx.free_fn(R + '.kind/dvars/anchor', 'mps::convert::convert_dvars')
    if dv is not None:
        for c in dv.calls:
            if c.item == 'get_dvar_kind':
                fs = [mps_table_of(dv, a) or [f for a_, f in ctx.S.slice_operand(dv, a).fields if a_.endswith('parser::Mps')][:1] for a in c.args[1:]]
                flat = [x if isinstance(x, str) else (x[0] if x else None) for x in fs]
                ctx.check(flat == ['integer', 'binary', 'real'], R + '.kind/dvars/argument-order', 'T-CARRY', dv.name, 'get_dvar_kind receives tables %s, expected (integer, binary, real)' % flat, dv.site(c.bb))
            if c.item == 'get_dvar_bound':
                fs = [mps_table_of(dv, a) or [f for a_, f in ctx.S.slice_operand(dv, a).fields if a_.endswith('parser::Mps')][:1] for a in c.args[1:]]
                flat = [x if isinstance(x, str) else (x[0] if x else None) for x in fs]
                ctx.check(flat == ['l', 'u'], R + '.defaults/dvars/argument-order', 'T-CARRY', dv.name, 'get_dvar_bound receives tables %s, expected (l, u)' % flat, dv.site(c.bb))
        # names carried in the general branch; every variable converted
        aggs = find_aggregates(dv, 'v1::DecisionVariable')
        named = 0
        for bi, st in aggs:
            ex = T.expr(dv, agg_field_operand(st, 'name'))
            if ex[0] == 'agg' and ex[1].endswith('Option::Some'): named += 1
            bs = T.expr(dv, agg_field_operand(st, 'bound'))
            ctx.check(bs[0] == 'agg' and bs[1].endswith('Option::Some') and T.expr_has_call(bs, 'get_dvar_bound'), R + '.defaults/dvars/bound-set', 'T-CARRY', dv.name, 'variable bound is not Some(get_dvar_bound(..))', dv.site(bi))
        total_recovery(ctx, R + '.vars', dv, 'VAR_PREFIX', lambda c: c.item == 'push' and 'v1::DecisionVariable' in c.name, 'dvars.push')
        ctx.check(len(aggs) == 2 and named >= 1, 'C17.names/variables', 'T-CARRY', dv.name, 'variable names of the file are not carried (general branch)', dv.site())
    # bound defaults
    bb = ctx.free_fn(R + '.defaults/anchor', 'mps::convert::get_dvar_bound')
    if bb is not None:
        bound_default_rules(ctx, R + '.defaults', bb)
    # objective
    ob = ctx.free_fn(R + '.sign/objective/anchor', 'mps::convert::convert_objective')
    if ob is not None:
        gets = [c for c in ob.calls if c.item == 'get' and 'HashMap' in c.name and mps_table_of(ob, c.args[0]) == 'b']
        okk = len(gets) == 1 and mps_table_of(ob, gets[0].args[1]) == 'objective_name'
        ctx.check(okk, R + '.sign/objective/constant-of-objective-row', 'T-CARRY', ob.name, 'the objective constant is not looked up under the file\'s objective row name', ob.site())
        negs = [(bi, st) for bi, st in ob.stmts() if st['rv']['k'] == 'un' and st['rv']['op'] == 'Neg']
        ctx.check(len(negs) == 1, R + '.sign/objective/negated', 'T-BRANCHFX', ob.name, 'objective constant is not negated exactly once (RHS of the objective row is -constant)', ob.site())
        ts = [c for c in ob.calls if c.item == 'convert_terms']
        ctx.check(len(ts) == 1 and mps_table_of(ob, ts[0].args[0]) == 'c', R + '.sign/objective/terms-from-c', 'T-CARRY', ob.name, 'objective terms do not come from c', ob.site())
    tb = ctx.free_fn(R + '.terms/anchor', 'mps::convert::convert_terms')
    if tb is not None:
        cls = [x for x in ctx.F.closures_of(tb)]
        okk = False
        for cb in cls:
            for bi, st in find_aggregates(cb, 'v1::linear::Term'):
                cx = T.expr(cb, agg_field_operand(st, 'coefficient'))
                okk = not any(x[0] in ('un', 'bin') for x in T.expr_walk(cx)) and T.expr_has_call(T.expr(cb, agg_field_operand(st, 'id')), 'index')
        ctx.check(okk, R + '.terms/unchanged', 'T-CARRY', tb.name, 'terms are not (id of the column, coefficient unchanged)', tb.site())
    # constraint normalisation
    ib = ctx.free_fn(R + '.sign/rows/anchor', 'mps::convert::convert_inequality')
    if ib is not None:
        rows = {}
        tests = []
        for c in ib.calls:
            if c.item == 'contains' and 'HashSet' in c.name:
                p = T.access_path(ib, c.args[0])[1]
                for g in T.guards_from_call(ib, c): tests.append((p, c, g))
        stops = {g.true_bb for p, c, g in tests}
        join = None
        for p, c, g in tests:
            reg = T.reach_cp(ib, [g.true_bb]) - T.reach_cp(ib, [g.false_bb])
            negb = any(st['rv']['k'] == 'un' and st['rv']['op'] == 'Neg' and ib.locals[st['dst']['l']] == 'f64' for bi, st in ib.stmts() if bi in reg)
            negt = False
            for bi_, st_, cl in ib.closures_created():
                if bi_ in reg:
                    cb = ctx.F.bodies.get(cl)
                    if cb is not None:
                        for x in cb.calls:
                            if T.ASSIGN_CALL.match(x.name) and 'Mul' in x.name and any(a['k'] == 'const' and a['v'] == '-1f64' for a in x.args): negt = True
                        for b2, s2 in cb.stmts():
                            if s2['rv']['k'] == 'bin' and s2['rv']['op'] == 'Mul' and any(o['k'] == 'const' and o['v'] == '-1f64' for o in s2['rv']['ops']): negt = True
            eqc = sorted({re.search(r'Equality::(\w+)', o['v']).group(1) for bi, st in ib.stmts() if bi in reg for o in st['rv'].get('ops', []) if o['k'] == 'const' and 'Equality::' in o['v']})
            rows[p] = dict(neg_constant=negb, neg_terms=negt, equality=eqc)
        # parameters: 1 terms, 2 b, 3 name, 4 eq, 5 ge, 6 le
        want = {4: dict(neg_constant=True, neg_terms=False, equality=['EqualToZero']), 6: dict(neg_constant=True, neg_terms=False, equality=['LessThanOrEqualToZero']),
                5: dict(neg_constant=False, neg_terms=True, equality=['LessThanOrEqualToZero'])}
        ctx.check(rows == want, R + '.sign/rows/table', 'T-BRANCHFX', ib.name, 'row normalisation is %s; expected eq/le: -b, terms kept; ge: terms*-1, b kept' % rows, ib.site(), table=str(rows))
    cb_ = ctx.free_fn(R + '.rows/anchor', 'mps::convert::convert_constraints')
    if cb_ is not None:
        for c in cb_.calls:
            if c.item == 'convert_inequality':
                fs = [mps_table_of(cb_, a) or ([f for a_, f in ctx.S.slice_operand(cb_, a).fields if a_.endswith('parser::Mps')][:1] or [None])[0] for a in c.args[3:]]
                ctx.check(fs == ['eq', 'ge', 'le'], R + '.sign/rows/argument-order', 'T-CARRY', cb_.name, 'convert_inequality receives tables %s, expected (eq, ge, le)' % fs, cb_.site(c.bb))
                bx = ctx.S.slice_operand(cb_, c.args[1])
                ctx.check(bx.has_field(MPS, 'b'), R + '.sign/rows/rhs-from-b', 'T-CARRY', cb_.name, 'right-hand side does not come from b', cb_.site(c.bb))
        aggs = find_aggregates(cb_, 'v1::Constraint')
        named = sum(1 for bi, st in aggs if T.expr(cb_, agg_field_operand(st, 'name'))[0] == 'agg' and T.expr(cb_, agg_field_operand(st, 'name'))[1].endswith('Option::Some'))
        ctx.check(len(aggs) == 2 and named >= 1, 'C17.names/constraints', 'T-CARRY', cb_.name, 'constraint names of the file are not carried (general branch)', cb_.site())
        total_recovery(ctx, R + '.rows', cb_, 'CONSTR_PREFIX', lambda c: c.item == 'push' and 'v1::Constraint' in c.name, 'constraints.push')


def total_recovery(ctx, rule, b, prefix_const, push_pred, what):
    """every row / column yields an element: the general loop is unrestricted; the id-recovery loop may
    filter with parse_id_tag only under the guard `!any(parse_id_tag(..).is_none())` with the same prefix"""
    def closure_calls(operand):
        out = []
        for cn in ctx.S.slice_operand(b, operand).closures:
            cb = ctx.F.bodies.get(cn)
            if cb is not None and cb.parent == b.name: out += [(cb, c) for c in cb.calls]
        return out
    anys = [c for c in b.calls if c.item == 'any' and 'Iterator' in (c.trait or '')]
    guard = None
    for c in anys:
        cc = closure_calls(c.args[1])
        if any(x.item == 'parse_id_tag' for cb, x in cc) and any(x.item == 'is_none' for cb, x in cc):
            pref = {a['v'] for cb, x in cc if x.item == 'parse_id_tag' for a in x.args if a['k'] == 'const'} | {T.expr_str(T.expr(cb, x.args[0]), 4) for cb, x in cc if x.item == 'parse_id_tag'}
            for g in T.guards_from_call(b, c): guard = (c, g, pref)
    ctx.check(guard is not None, rule + '/recovery-guard', 'T-GUARD', b.name, 'id recovery is not guarded by `every name parses as <prefix><number>`', b.site())
    for lo in T.for_loops(b):
        pushes = [c for c in b.calls if c.bb in lo[4] and push_pred(c)]
        if not pushes: continue
        ctx.check(T.must_pass(b, lo[2], {lo[1]}, {c.bb for c in pushes}), rule + '/every-element', 'T-LOOPMUST', b.name, 'an element can be skipped without `%s`' % what, b.site(lo[0].bb))
        si = ctx.S.slice_operand(b, lo[0].args[0])
        restr = [x for x in si.call_objs if x.item in RESTRICTING and 'Iterator' in (x.trait or '')]
        if not restr:
            ctx.ok(rule + '/all-elements', 'T-LOOPMUST', b.site(lo[0].bb)); continue
        ok = False
        if guard is not None and all(x.item == 'filter_map' for x in restr):
            c, g, pref = guard
            fr = T.reach_cp(b, [g.false_bb]) - T.reach_cp(b, [g.true_bb])
            cc = [(cb, x) for r_ in restr for cb, x in closure_calls(r_.args[1])]
            pref2 = {T.expr_str(T.expr(cb, x.args[0]), 4) for cb, x in cc if x.item == 'parse_id_tag'}
            ok = lo[1] in fr and bool(pref2) and pref2 <= pref
        ctx.check(ok, rule + '/all-elements', 'T-LOOPMUST', b.name, 'the loop drops elements (%s) without the matching `all names parse` guard' % sorted({x.item for x in restr}), b.site(lo[0].bb))


def bound_default_rules(ctx, rule, bb):
    """(None,None) => [0,+inf); (l,None) => [l,+inf); (None,u) => (-inf,u] if u <= 0 (negative) else [0,u]; (l,u) => [l,u]"""
    gets = [c for c in bb.calls if c.item == 'get' and 'HashMap' in c.name]
    pl = {T.access_path(bb, c.args[0])[1]: c for c in gets}     # param 2 = l, 3 = u
    ctx.check(set(pl) == {2, 3}, rule + '/lookups', 'T-CARRY', bb.name, 'expected one lookup in l and one in u', bb.site())
    if set(pl) != {2, 3}: return
    from . import pe
    def region(asg):
        seen = set(); work = [pl[3].target if pl[3].bb > pl[2].bb else pl[2].target]
        probes = [pl[2], pl[3]]
        while work:
            bi = work.pop()
            if bi in seen: continue
            seen.add(bi)
            t = bb.blocks[bi]['term']; succs = bb.succ(bi)
            if t['k'] == 'switch' and t['d']['k'] != 'const':
                for k2, b2, d in bb.defs_of(t['d']['pl']['l']):
                    if k2 == 'stmt' and d['rv']['k'] == 'discr':
                        ex = T.strip_wrappers(T.expr(bb, {'k': 'copy', 'pl': d['rv']['pl']}, depth=8))
                        if ex[0] == 'call' and ex[1] == 'get' and len(ex) > 4:
                            for i, p in enumerate(probes):
                                if p.bb == ex[4]:
                                    m = {v: tg for v, tg in t['ts']}
                                    succs = [m.get(asg[i], t['else'])]
            for s in succs:
                if not bb.blocks[s]['cleanup']: work.append(s)
        return seen
    def pairs_in(reg):
        out = []
        for bi, st in bb.stmts():
            if bi in reg and st['rv']['k'] == 'agg' and st['rv']['adt'] == 'tuple' and len(st['rv']['ops']) == 2:
                def d(o):
                    ex = T.strip_wrappers(T.expr(bb, o))
                    if ex[0] == 'const': return '-inf' if 'NEG_INFINITY' in ex[1] else ('+inf' if 'INFINITY' in ex[1] else ex[1])
                    g = [x for x in T.expr_walk(ex) if x[0] == 'call' and x[1] == 'get' and len(x) > 4]
                    if g: return 'l' if g[0][4] == pl[2].bb else 'u'
                    return T.expr_str(ex, 3)
                out.append((d(st['rv']['ops'][0]), d(st['rv']['ops'][1])))
        return sorted(set(out))
    table = {''.join('S' if a else 'N' for a in asg): pairs_in(region(asg) - set().union(*[region(o) for o in [(0, 0), (0, 1), (1, 0), (1, 1)] if o != asg])) for asg in [(1, 1), (1, 0), (0, 1), (0, 0)]}
    want = {'SS': [('l', 'u')], 'SN': [('l', '+inf')], 'NS': [('-inf', 'u'), ('0f64', 'u')], 'NN': [('0f64', '+inf')]}
    ctx.check(table == want, rule + '/table', 'T-BRANCHFX', bb.name, 'bound defaults are %s; expected %s' % (table, want), bb.site(), table=str(table))
    # the (None, Some(u)) split is a comparison of u with 0 whose "negative" side opens the lower bound
    okc = False
    for bi, st in float_cmp_sites(bb, ('Le', 'Lt', 'Ge', 'Gt')):
        if any(o['k'] == 'const' and o['v'] == '0f64' for o in st['rv']['ops']):
            op = st['rv']['op']; const_right = st['rv']['ops'][1]['k'] == 'const'
            neg_when_true = (op in ('Le', 'Lt')) == const_right
            for g in T.guards_from_local(bb, st['dst']['l'], bi):
                side = g.true_bb if neg_when_true else g.false_bb; other = g.false_bb if neg_when_true else g.true_bb
                reg = bb.reach([side]) - bb.reach([other])
                okc = ('-inf', 'u') in pairs_in(reg)
    ctx.check(okc, rule + '/negative-upper-opens-lower', 'T-BRANCHFX', bb.name, 'a non-positive upper bound without lower bound does not open the lower bound', bb.site())


def check(ctx):
    parser_rules(ctx); convert_rules(ctx)
    ctx.floor('C17.ranges', 7); ctx.floor('C17.keywords', 40); ctx.floor('C17.bounds', 19); ctx.floor('C17.rows', 4); ctx.floor('C17.convert', 6); ctx.floor('C17.convert.cover', 15); ctx.floor('C17.names', 2)
    ctx.floor('C17.convert.sign', 8); ctx.floor('C17.convert.defaults', 7); ctx.floor('C17.convert.kind', 3); ctx.floor('C17.convert.rows', 5); ctx.floor('C17.convert.vars', 5)
