"""C19 — reading QPLIB (DESIGN §5 C19)."""
from .common import *
from .C17 import literal_table

QF = 'qplib::parser::QplibFile'
STARTING = ('default_starting_x', 'starting_x', 'default_starting_y', 'starting_y', 'default_starting_z', 'starting_z')


def char_tables(ctx, body):
    """switches on a char (code points): list of {char: enum variant built in that arm}, fallthrough is error?"""
    out = []
    for bi in sorted(body.live):
        t = body.blocks[bi]['term']
        if t['k'] == 'switch' and t['d']['k'] != 'const' and body.locals[t['d']['pl']['l']] == 'char':
            tab = {}
            tg_all = {tg for v, tg in t['ts']} | {t['else']}
            for v, tg in t['ts']:
                reg = body.reach([tg], stop=tg_all - {tg})
                vs = sorted({st['rv']['adt'] for b2, st in body.stmts() if b2 in {tg} and st['rv']['k'] == 'agg' and 'qplib::parser::Prob' in st['rv']['adt']})
                tab[chr(v)] = vs[0].split('qplib::parser::')[-1] if len(vs) == 1 else vs
            er = body.reach([t['else']], stop=tg_all - {t['else']})
            err = bool(er & body.err_exits()) and not any(st['rv']['k'] == 'agg' and 'qplib::parser::Prob' in st['rv']['adt'] for b2, st in body.stmts() if b2 in er and b2 != t['else'] and False)
            out.append((tab, err, bi))
    return out


def codes_rules(ctx):
    R = 'C19.codes'
    b = ctx.method(R + '/problem-type/anchor', 'qplib::parser::ProblemType', 'from_str', trait='FromStr')
    if b is not None:
        tabs = char_tables(ctx, b)
        want = [
            ({'L': 'ProbObjKind::Linear', 'D': 'ProbObjKind::DiagonalC', 'C': 'ProbObjKind::ConcaveOrConvex', 'Q': 'ProbObjKind::Quadratic'}, 'objective'),
            ({'C': 'ProbVarKind::Continuous', 'B': 'ProbVarKind::Binary', 'M': 'ProbVarKind::Mixed', 'I': 'ProbVarKind::Integer', 'G': 'ProbVarKind::General'}, 'variables'),
            ({'N': 'ProbConstrKind::None', 'B': 'ProbConstrKind::Box', 'L': 'ProbConstrKind::Linear', 'D': 'ProbConstrKind::DiagonalConvex', 'C': 'ProbConstrKind::Convex', 'Q': 'ProbConstrKind::Quadratic'}, 'constraints'),
        ]
        ctx.check(len(tabs) == 3, R + '/problem-type/three-letters', 'T-TABLE', b.name, 'expected three code-letter tables, found %d' % len(tabs), b.site())
        for (w, what), got in zip(want, sorted(tabs, key=lambda x: x[2])):
            tab, err, bi = got
            ctx.check(tab == w, R + '/problem-type/' + what, 'T-TABLE', b.name, '%s code table is %s, the format defines %s' % (what, tab, w), b.site(bi), table=str(tab))
            ctx.check(err, R + '/problem-type/%s/unknown-is-error' % what, 'T-TABLE', b.name, 'an unknown %s code is not an error' % what, b.site(bi))
        # order of the letters: (objective, variables, constraints)
        aggs = [st for bi, st in b.stmts() if st['rv']['k'] == 'agg' and st['rv']['adt'].endswith('parser::ProblemType')]
        ok = False
        for st in aggs:
            tys = [b.locals[o['pl']['l']].split('::')[-1] if o['k'] in ('copy', 'move') else '?' for o in st['rv']['ops']]
            ok = tys == ['ProbObjKind', 'ProbVarKind', 'ProbConstrKind']
        ctx.check(ok, R + '/problem-type/letter-order', 'T-CARRY', b.name, 'ProblemType is not (objective, variables, constraints)', b.site())
        # too short => error
        zs = [c for c in b.calls if c.item in ('ok_or_else', 'ok_or')]
        errflow_calls(ctx, R + '/problem-type/too-short-is-error', b, zs, 'fewer than three letters')
    b = ctx.method(R + '/sense/anchor', 'qplib::parser::ObjSense', 'from_str', trait='FromStr')
    if b is not None:
        tab = literal_table(b)
        ctx.check(set(tab) == {'minimize', 'maximize'}, R + '/sense/keywords', 'T-TABLE', b.name, 'sense keywords %s' % sorted(tab), b.site())
        rows = {}
        for lit, (t, f, c) in tab.items():
            reg = b.reach([t]) - (b.reach([f]) if f is not None else set())
            rows[lit] = sorted({st['rv']['adt'].split('::')[-1] for bi, st in b.stmts() if bi in reg and st['rv']['k'] == 'agg' and 'ObjSense::' in st['rv']['adt']})
        ctx.check(rows == {'minimize': ['Minimize'], 'maximize': ['Maximize']}, R + '/sense/mapping', 'T-BRANCHFX', b.name, 'sense keywords map to %s' % rows, b.site())
        rest = b.reach([0], stop={t for t, f, c in tab.values()})
        ctx.check(any(st['rv']['k'] == 'agg' and st['rv']['adt'].endswith('ParseErrorReason::InvalidObjSense') for bi, st in b.stmts() if bi in rest) and not (rest & b.strict_ok_exits()), R + '/sense/unknown-is-error', 'T-TABLE', b.name, 'unknown sense is not InvalidObjSense', b.site())
    b = ctx.method(R + '/var-type/anchor', 'qplib::parser::VarType', 'from_str', trait='FromStr')
    if b is not None:
        tab = literal_table(b)
        rows = {}
        for lit, (t, f, c) in tab.items():
            reg = b.reach([t]) - (b.reach([f]) if f is not None else set())
            rows[lit] = sorted({st['rv']['adt'].split('::')[-1] for bi, st in b.stmts() if bi in reg and st['rv']['k'] == 'agg' and 'VarType::' in st['rv']['adt']})
        ctx.check(rows == {'0': ['Continuous'], '1': ['Integer'], '2': ['Binary']}, R + '/var-type/mapping', 'T-TABLE', b.name, 'variable type codes map to %s' % rows, b.site(), table=str(rows))
        rest = b.reach([0], stop={t for t, f, c in tab.values()})
        ctx.check(any(st['rv']['k'] == 'agg' and st['rv']['adt'].endswith('ParseErrorReason::InvalidVarType') for bi, st in b.stmts() if bi in rest) and not (rest & b.strict_ok_exits()), R + '/var-type/unknown-is-error', 'T-TABLE', b.name, 'unknown variable type is not InvalidVarType', b.site())
    sb = ctx.free_fn(R + '/convert-sense/anchor', 'qplib::convert::convert_sense')
    if sb is not None:
        adt = ctx.F.adt('qplib::parser::ObjSense'); rows = {}
        for bi_ in sb.live:
            t = sb.blocks[bi_]['term']
            if t['k'] == 'switch' and adt:
                m = {v: tg for v, tg in t['ts']}
                for v in adt['variants']:
                    tg = m.get(v['discr'], t['else']); others = {m.get(x['discr'], t['else']) for x in adt['variants']} - {tg}
                    reg = sb.reach([tg], stop=others)
                    rows[v['name']] = sorted({re.search(r'Sense::(\w+)', o['v']).group(1) for b2, st in sb.stmts() if b2 in reg for o in st['rv'].get('ops', []) if o['k'] == 'const' and 'Sense::' in o['v']})
        ctx.check(rows == {'Minimize': ['Minimize'], 'Maximize': ['Maximize']}, R + '/convert-sense/mapping', 'T-BRANCHFX', sb.name, 'ObjSense maps to %s' % rows, sb.site())


def from_lines(ctx):
    bs = [b for b in ctx.F.bodies.values() if b.kind == 'fn' and b.hdr.get('self') == QF and b.hdr.get('item') == 'from_lines']
    return bs[0] if len(bs) == 1 else None


def direct_calls(b, operand, item, depth=8):
    """calls named `item` that directly produce the value of `operand` (following copies, `?`, tuple
    projections and all definitions of match-joined locals), not earlier calls that merely share state"""
    out = []; seen = set()
    def visit(pl_l, fields, d):
        key = (pl_l, tuple(fields))
        if key in seen or d <= 0: return
        seen.add(key)
        for k, bi, df in b.defs_of(pl_l):
            if k == 'call':
                c = [x for x in b.calls if x.bb == bi][0]
                if c.item == item: out.append(c)
                elif T.TRANSPARENT.search(T.strip_generics_tail(c.name)) and c.args and c.args[0]['k'] in ('copy', 'move'):
                    visit(c.args[0]['pl']['l'], [p['f'] for p in c.args[0]['pl']['p'] if isinstance(p, dict) and 'f' in p] + fields, d - 1)
                continue
            if df['dst']['p']: continue
            rv = df['rv']
            if rv['k'] == 'use' and rv['ops'][0]['k'] in ('copy', 'move'):
                pl = rv['ops'][0]['pl']
                visit(pl['l'], [p['f'] for p in pl['p'] if isinstance(p, dict) and 'f' in p] + fields, d - 1)
            elif rv['k'] == 'agg' and rv['adt'] == 'tuple' and fields and fields[0].isdigit() and int(fields[0]) < len(rv['ops']):
                o = rv['ops'][int(fields[0])]
                if o['k'] in ('copy', 'move'):
                    visit(o['pl']['l'], [p['f'] for p in o['pl']['p'] if isinstance(p, dict) and 'f' in p] + fields[1:], d - 1)
            elif rv['k'] == 'agg' and rv['ops'] and (rv['adt'].endswith('Option::Some') or rv['adt'].endswith('Result::Ok')):
                o = rv['ops'][0]
                if o['k'] in ('copy', 'move'): visit(o['pl']['l'], fields[1:] if fields else [], d - 1)
            elif rv['k'] == 'ref':
                pl = rv['pl']; visit(pl['l'], [p['f'] for p in pl['p'] if isinstance(p, dict) and 'f' in p] + fields, d - 1)
    if operand['k'] in ('copy', 'move'):
        pl = operand['pl']
        visit(pl['l'], [p['f'] for p in pl['p'] if isinstance(p, dict) and 'f' in p], depth)
    return out


def section_rules(ctx):
    R = 'C19.sections'
    b = from_lines(ctx)
    if b is None:
        ctx.lost(R, 'QplibFile::from_lines'); return
    ctx.fn(b)
    # which cursor reads feed which field of the result, and under which kind letters they are skipped
    aggs = find_aggregates(b, QF)
    ctx.check(len(aggs) == 1, R + '/aggregate', 'T-CARRY', b.name, 'expected one QplibFile aggregate', b.site())
    if len(aggs) != 1: return
    bi, st = aggs[0]
    want_reader = {'q0_non_zeroes': 'collect_ij_val', 'b0_non_defaults': 'collect_i_val', 'qs_non_zeroes': 'collect_list_of_ij_val', 'bs_non_zeroes': 'collect_list_of_i_val',
                   'constr_lower_cs': 'collect_list', 'constr_upper_cs': 'collect_list', 'lower_bounds': 'collect_list', 'upper_bounds': 'collect_list',
                   'var_names': 'collect_i_val', 'constr_names': 'collect_i_val', 'default_b0': 'next_parse', 'obj_constant': 'next_parse', 'infinity_threshold': 'next_parse',
                   'num_vars': 'next_parse', 'sense': 'next_parse', 'name': 'expect_next'}
    readers = {}
    for f, rd in want_reader.items():
        s = slice_op(ctx, b, agg_field_operand(st, f))
        got = sorted({c.item for c in s.call_objs if c.path.startswith('qplib::parser::FileCursor')})
        readers[f] = [c for c in direct_calls(b, agg_field_operand(st, f), rd) if c.path.startswith('qplib::parser::FileCursor')] or \
            ([c for c in sorted(s.call_objs, key=lambda c: c.line) if c.item == rd and c.path.startswith('qplib::parser::FileCursor')][:1] if f == 'name' else [])
        ctx.check(bool(readers[f]), R + '/reader/' + f, 'T-CARRY', b.name, 'QplibFile.%s is not read with %s (readers in its slice: %s)' % (f, rd, got), b.site(bi))
    # file order of the sections (the format is positional)
    seq = [c for c in b.calls if c.path.startswith('qplib::parser::FileCursor') and c.item != 'new']
    order = [c.item for c in sorted(seq, key=lambda c: c.line)]
    # skipping rules keyed by the problem-type letters
    kinds = {'ProbObjKind': ctx.F.adt('qplib::parser::ProbObjKind'), 'ProbVarKind': ctx.F.adt('qplib::parser::ProbVarKind'), 'ProbConstrKind': ctx.F.adt('qplib::parser::ProbConstrKind')}
    def reach_under(ty, discr):
        """blocks reachable from the entry when every match on an enum of type `ty` takes the arm of `discr`"""
        seen = set(); work = [0]
        while work:
            x = work.pop()
            if x in seen: continue
            seen.add(x)
            t = b.blocks[x]['term']; succs = b.succ(x)
            if t['k'] == 'switch' and t['d']['k'] != 'const':
                for k2, b2, d in b.defs_of(t['d']['pl']['l']):
                    if k2 == 'stmt' and d['rv']['k'] == 'discr' and b.locals[d['rv']['pl']['l']].split('::')[-1] == ty and not d['rv']['pl']['p']:
                        m = {v: tg for v, tg in t['ts']}
                        succs = [m.get(discr, t['else'])]
            for s_ in succs:
                if not b.blocks[s_]['cleanup']: work.append(s_)
        return seen
    _ru = {}
    def skipped_under(call):
        res = {}
        for ty, adt in kinds.items():
            if not adt: continue
            sk = set()
            for v in adt['variants']:
                key = (ty, v['discr'])
                if key not in _ru: _ru[key] = reach_under(ty, v['discr'])
                if call.bb not in _ru[key]: sk.add(v['name'])
            if sk: res[ty] = sk
        return res
    def chk(field, idx, want, what):
        cs = readers.get(field) or []
        if not cs: return
        c = cs[0]
        got = None
        for x in cs:
            sk = skipped_under(x)
            got = sk if got is None else {k: got[k] & sk[k] for k in got if k in sk and (got[k] & sk[k])}
        ctx.check(got == want, R + '/skip/' + field, 'T-BRANCHFX', b.name, '%s is skipped under %s, the format says %s' % (what, {k: sorted(v) for k, v in got.items()}, {k: sorted(v) for k, v in want.items()}), b.site(c.bb), table=str(got))
    NB = {'ProbConstrKind': {'None', 'Box'}}
    chk('q0_non_zeroes', 0, {'ProbObjKind': {'Linear'}}, 'the Q0 section')
    chk('qs_non_zeroes', 0, {'ProbConstrKind': {'None', 'Box', 'Linear'}}, 'the Qi section')
    chk('bs_non_zeroes', 0, NB, 'the bi section')
    chk('constr_lower_cs', 0, NB, 'the constraint lower-bound section')
    chk('constr_upper_cs', 0, NB, 'the constraint upper-bound section')
    chk('lower_bounds', 0, {'ProbVarKind': {'Binary'}}, 'the variable lower-bound section')
    chk('upper_bounds', 0, {'ProbVarKind': {'Binary'}}, 'the variable upper-bound section')
    # number of constraints: 0 for N/B, else read
    ncs = agg_field_operand(st, 'num_constraints')
    s = slice_op(ctx, b, ncs)
    npc = [c for c in s.call_objs if c.item == 'next_parse']
    ok = bool(npc) and any(skipped_under(c) == NB for c in npc) and s.has_const(r'^0_usize$')
    ctx.check(ok, R + '/skip/num_constraints', 'T-BRANCHFX', b.name, 'number of constraints is not {N,B => 0, otherwise read}', b.site())
    # variable types: C/B/I derive from the letter, M/G read the section
    vt = slice_op(ctx, b, agg_field_operand(st, 'var_types'))
    cl = [c for c in vt.call_objs if c.item == 'collect_list']
    okv = bool(cl) and any(skipped_under(c) == {'ProbVarKind': {'Continuous', 'Binary', 'Integer'}} for c in cl)
    ctx.check(okv, R + '/skip/var_types', 'T-BRANCHFX', b.name, 'the variable-type section must be read exactly for M and G problems', b.site())
    consts = sorted({st2['rv']['ops'][0]['v'] if False else st2['rv']['adt'].split('::')[-1] for b2, st2 in b.stmts() if st2['rv']['k'] == 'agg' and 'VarType::' in st2['rv']['adt']})
    ctx.check(consts == ['Binary', 'Continuous', 'Integer'], R + '/var-types-from-letter', 'T-TABLE', b.name, 'letter-derived variable types: %s' % consts, b.site())
    # binary problems: bounds [0,1]
    vecs = [c for c in b.calls if c.item == 'from_elem' and 'f64' in c.name]
    vals = sorted({a['v'] for c in vecs for a in c.args[:1] if a['k'] == 'const'})
    ctx.check(vals == ['0f64', '1f64'], R + '/binary-bounds', 'T-CONST', b.name, 'bounds of an all-binary problem are filled with %s, expected 0 and 1' % vals, b.site())
    # every cursor error is propagated
    errflow_calls(ctx, 'C19.errors/from_lines/propagate', b, seq, 'cursor error')
    ctx.check(len(seq) >= 25, 'C19.errors/from_lines/reads', 'T-ERRFLOW', b.name, 'only %d cursor reads found' % len(seq), b.site())
    # lower before upper (positional format): for each pair the lower read comes first in the file order
    for lo_f, up_f in (('constr_lower_cs', 'constr_upper_cs'), ('lower_bounds', 'upper_bounds')):
        a = readers.get(lo_f); c = readers.get(up_f)
        if a and c:
            ctx.check(b.dominates(a[0].bb, c[0].bb) and a[0].bb != c[0].bb, R + '/order/%s-before-%s' % (lo_f, up_f), 'T-BRANCHFX', b.name, '%s is read after %s' % (lo_f, up_f), b.site(a[0].bb))
    # positional order of the scalar sections
    def first(field):
        cs = readers.get(field) or []
        return cs[0] if cs else None
    chain = ['name', 'sense', 'num_vars', 'default_b0', 'b0_non_defaults', 'obj_constant', 'infinity_threshold', 'var_names', 'constr_names']
    for x, y in zip(chain, chain[1:]):
        cx, cy = first(x), first(y)
        if cx and cy:
            ctx.check(b.dominates(cx.bb, cy.bb) and cx.bb != cy.bb, R + '/order/%s-then-%s' % (x, y), 'T-BRANCHFX', b.name, '%s is not read before %s' % (x, y), b.site(cx.bb))
    q0 = first('q0_non_zeroes'); d0 = first('default_b0')
    if q0 and d0:
        ctx.check(d0.bb in b.reach([q0.bb]) and q0.bb not in b.reach([d0.bb]), R + '/order/q0-then-b0', 'T-BRANCHFX', b.name, 'Q0 is not read before b0', b.site(q0.bb))


def errors_rules(ctx):
    R = 'C19.errors'
    cur = [b for b in ctx.F.bodies.values() if b.kind in ('fn', 'closure') and 'qplib::parser::FileCursor' in (b.hdr.get('self') or '')]
    ctx.check(len([b for b in cur if b.kind == 'fn']) >= 10, R + '/cursor-methods', 'T-ERRFLOW', 'qplib::parser::FileCursor', 'cursor methods found: %d' % len(cur))
    # (1) errors leave the cursor as QplibParseError (with a line number), never as a bare ParseErrorReason / std error
    bad = []
    for b in cur:
        ctx.fn(b)
        for c in b.calls:
            if 'FromResidual' in c.name and re.search(r'Result<std::convert::Infallible, (qplib::ParseErrorReason|std::num::Parse\w+Error)>', c.name) and 'anyhow::Error' in c.name:
                bad.append('%s@%s' % (b.name.split('::')[-1], b.site(c.bb)))
    ctx.check(not bad, R + '/line-number-kept', 'T-ERRFLOW', 'qplib::parser::FileCursor', 'errors converted into anyhow::Error without a line number at %s' % bad[:4])
    # (2) EOF
    en = [b for b in cur if b.kind == 'fn' and b.hdr.get('item') == 'expect_next']
    if en:
        b = en[0]
        ue = [c for c in b.calls if c.item == 'unexpected_eof']
        loops = T.for_loops(b)
        ok = bool(ue) and bool(loops) and ue[0].bb in b.reach([loops[0][3]]) and T.strip_wrappers(T.expr(b, ue[0].args[0]))[0] in ('place',)
        ctx.check(ok, R + '/eof', 'T-ERRFLOW', b.name, 'running out of lines is not reported as unexpected_eof(line_num)', b.site())
        incs = [(bi, st) for bi, st in b.stmts() if st['rv']['k'] == 'bin' and st['rv']['op'].startswith('Add') and any(o['k'] == 'const' and o['v'] == '1_usize' for o in st['rv']['ops']) and bi in (loops[0][4] if loops else set())]
        ctx.check(bool(incs) and bool(loops) and T.must_pass(b, loops[0][2], {loops[0][1]} | b.strict_ok_exits(), {incs[0][0]}), R + '/line-counter', 'T-LOOPMUST', b.name, 'line counter is not advanced for every consumed line', b.site())
    # (3) with_line receives the cursor's current line
    n = 0
    for b in cur:
        for c in b.calls:
            if c.item in ('with_line', 'invalid_line', 'unexpected_eof') and c.path.startswith('qplib::'):
                a = c.args[-1]
                fs = [f for a_, f in T.expr_fields(T.expr(b, a, depth=8))]
                if b.kind == 'closure' and 'line_num' not in fs:
                    # value captured by the closure: look at what the parent stores in that capture slot
                    slots = [f for a_, f in T.expr_fields(T.expr(b, a, depth=8)) if a_ == 'closure']
                    pb = ctx.F.bodies.get(b.parent)
                    for par in ([pb] if pb else []) + [x for x in cur if x.name == b.name.rsplit('::{closure', 1)[0]]:
                        for bi2, st2, cl in par.closures_created():
                            if cl == b.name and slots and slots[0].isdigit() and int(slots[0]) < len(st2['rv']['ops']):
                                fs = fs + [f for a_, f in T.expr_fields(T.expr(par, st2['rv']['ops'][int(slots[0])], depth=8))]
                n += 1
                ctx.check('line_num' in fs, R + '/line-argument', 'T-CARRY', b.name, '%s is not given the cursor\'s line_num' % c.item, b.site(c.bb))
    # (4) no panic on malformed indices: 1-based indices are parsed as NonZero before `- 1`, table slots via get_mut
    for b in cur:
        for bi, st in b.stmts():
            rv = st['rv']
            if rv['k'] == 'bin' and rv['op'].startswith('Sub') and rv.get('ty') == 'usize' and any(o['k'] == 'const' and o['v'] == '1_usize' for o in rv['ops']):
                ex = T.expr(b, rv['ops'][0], depth=10)
                parsed = any(x[0] == 'call' and x[1] in ('parse', 'parse_or_err_with_line') for x in T.expr_walk(ex))
                if not parsed: continue
                nz = any(x[0] == 'call' and x[1] == 'get' and 'NonZero' in x[2] for x in T.expr_walk(ex))
                ctx.check(nz, R + '/index-underflow', 'T-GUARD', b.name, 'a parsed 1-based index is decremented without excluding 0 (index 0 panics / wraps instead of giving a parse error)', b.site(bi))
        for c in b.calls:
            if c.item in ('index_mut', 'index') and 'Vec<' in c.name and re.search(r'IndexMut<usize>|Index<usize>', c.name):
                ix = T.expr(b, c.args[1], depth=10)
                if any(x[0] == 'call' and x[1] in ('parse', 'parse_or_err_with_line') for x in T.expr_walk(ix)) or any(x[0] == 'proj' and x[1][0] == 'call' and 'Fn' in x[1][2] for x in T.expr_walk(ix)):
                    ctx.bad(R + '/index-out-of-range', 'T-GUARD', b.name, 'a table is indexed with a value taken from the file without a range check', b.site(c.bb))
    ctx.floor('C19.errors', 20)


def convert_rules(ctx):
    R = 'C19.convert'
    b = ctx.free_fn(R + '/anchor', 'qplib::convert::convert')
    if b is None: return
    cover(ctx, R + '.cover', b, QF, exempt=STARTING)
    ai = [c for c in b.calls if c.item == 'apply_infinity_threshold']
    others = [c for c in b.calls if c.item.startswith('convert_')]
    ctx.check(len(ai) == 1 and all(b.dominates(ai[0].bb, c.bb) for c in others) and len(others) == 5, 'C19.infinity/applied-first', 'T-MUSTCALL', b.name, 'apply_infinity_threshold is not called before the conversion', b.site())
    # infinity threshold routing
    at = ctx.method('C19.infinity/anchor', QF, 'apply_infinity_threshold')
    if at is not None:
        rows = {}
        for c in at.calls:
            if c.item == 'for_each':
                flds = sorted({f for (pi, a, f) in ctx.S.slice_operand(at, c.args[0]).root_fields})
                cls = ctx.S.slice_operand(at, c.args[1]).closures
                infs = set()
                for cn in cls:
                    cb = ctx.F.bodies.get(cn)
                    if cb is None: continue
                    for x in cb.calls:
                        for a in x.args:
                            if a['k'] == 'const' and 'INFINITY' in a['v']: infs.add('-inf' if 'NEG_' in a['v'] else '+inf')
                    for b2, st in cb.stmts():
                        for o in st['rv'].get('ops', []):
                            if o['k'] == 'const' and 'INFINITY' in o['v']: infs.add('-inf' if 'NEG_' in o['v'] else '+inf')
                for f in flds:
                    if f != 'infinity_threshold': rows[f] = sorted(infs)
        want = {'lower_bounds': ['-inf'], 'constr_lower_cs': ['-inf'], 'upper_bounds': ['+inf'], 'constr_upper_cs': ['+inf']}
        ctx.check(rows == want, 'C19.infinity/routing', 'T-BRANCHFX', at.name, 'infinity routing is %s, expected %s' % (rows, want), at.site(), table=str(rows))
        # |v| >= threshold
        okc = False
        for cb in ctx.F.closures_of(at):
            for bi, st in float_cmp_sites(cb, ('Ge', 'Gt', 'Le', 'Lt')):
                l = T.expr(cb, st['rv']['ops'][0]); r = T.expr(cb, st['rv']['ops'][1])
                if T.expr_has_call(l, 'abs') and st['rv']['op'] == 'Ge': okc = True
                if T.expr_has_call(r, 'abs') and st['rv']['op'] == 'Le': okc = True
        ctx.check(okc, 'C19.infinity/comparison', 'T-BRANCHFX', at.name, 'infinite values are not detected by `|v| >= threshold`', at.site())
    # half convention for the diagonal of Q
    tq = ctx.free_fn(R + '.half/anchor', 'qplib::convert::to_quadratic')
    if tq is not None:
        cmps = [(bi, st) for bi, st in tq.stmts() if st['rv']['k'] == 'bin' and st['rv']['op'] in ('Eq', 'Ne') and st['rv'].get('ty') in ('usize', 'u64', '&usize')]
        calls = [c for c in tq.calls if c.item in ('eq', 'ne') and 'usize' in c.name]
        diag = None
        for bi, st in cmps:
            for g in T.guards_from_local(tq, st['dst']['l'], bi):
                diag = (g.true_bb, g.false_bb) if st['rv']['op'] == 'Eq' else (g.false_bb, g.true_bb)
        for c in calls:
            for g in T.guards_from_call(tq, c):
                diag = (g.true_bb, g.false_bb) if c.item == 'eq' else (g.false_bb, g.true_bb)
        ctx.check(diag is not None, R + '.half/diagonal-distinguished', 'T-BRANCHFX', tq.name,
                  'entries with i == j are not treated differently from i != j (QPLIB: 1/2 x\'Qx with the lower triangle listed, so the diagonal must be halved)', tq.site())
        if diag is not None:
            hdrs = set(tq.loops())
            dr = tq.reach([diag[0]], stop=hdrs) - tq.reach([diag[1]], stop=hdrs); orr = tq.reach([diag[1]], stop=hdrs) - tq.reach([diag[0]], stop=hdrs)
            def scaled(reg):
                out = []
                for bi, st in tq.stmts():
                    if bi in reg and st['rv']['k'] == 'bin' and st['rv'].get('ty') == 'f64' and st['rv']['op'] in ('Div', 'Mul'):
                        cs = [T.f64_const(o['v']) for o in st['rv']['ops'] if o['k'] == 'const']
                        out.append((st['rv']['op'], cs[0] if cs else None))
                return out
            ctx.check(scaled(dr) in ([('Div', 2.0)], [('Mul', 0.5)]) and scaled(orr) == [], R + '.half/diagonal-halved', 'T-BRANCHFX', tq.name,
                      'diagonal entries are scaled by %s and off-diagonal ones by %s; expected /2 and nothing' % (scaled(dr), scaled(orr)), tq.site())
        # rows/columns/values of the same entry, every entry
        for lo in T.for_loops(tq):
            for f in ('u64', 'u64', 'f64'):
                pass
            pushes = [c for c in tq.calls if c.bb in lo[4] and c.item == 'push']
            ctx.check(len(pushes) == 3 and all(T.must_pass(tq, lo[2], {lo[1]}, {c.bb}) for c in pushes), R + '.half/every-entry', 'T-LOOPMUST', tq.name, 'an entry can be dropped or partially pushed', tq.site())
        aggs = find_aggregates(tq, 'v1::Quadratic')
        for bi, st in aggs:
            d = dict(zip(st['rv']['fields'], st['rv']['ops']))
            roots = {f: T.access_path(tq, d[f], transparent=T.TRANSPARENT_NOCLONE)[1] for f in ('rows', 'columns', 'values')}
            push_roots = {}
            for c in tq.calls:
                if c.item == 'push':
                    r = T.access_path(tq, c.args[0], transparent=T.TRANSPARENT_NOCLONE)[1]
                    fs = [f for a, f in T.expr_fields(T.expr(tq, c.args[1], depth=10)) if a == 'tuple']
                    push_roots[r] = fs
            ok = push_roots.get(roots['rows'], [None])[-1:] == ['0'] and push_roots.get(roots['columns'], [None])[-1:] == ['1']
            ctx.check(ok, R + '.half/row-col-order', 'T-CARRY', tq.name, 'rows / columns are not filled from (i, j) in this order: %s' % push_roots, tq.site(bi))
    # two-sided constraints
    cc = ctx.free_fn(R + '.sign/anchor', 'qplib::convert::convert_constraints')
    if cc is not None:
        sides = {}
        inf_blocks = {bi for bi, st in float_cmp_sites(cc, ('Ne', 'Eq')) if any(o['k'] == 'const' and 'INFINITY' in o['v'] for o in st['rv']['ops'])}
        idx_of = {}
        for bi, st in float_cmp_sites(cc, ('Ne', 'Eq')):
            infs = [o['v'] for o in st['rv']['ops'] if o['k'] == 'const' and 'INFINITY' in o['v']]
            if not infs: continue
            other = [o for o in st['rv']['ops'] if o['k'] != 'const']
            src = [f for a, f in ctx.S.slice_operand(cc, other[0]).fields if a.endswith('QplibFile')] if other else []
            fs_direct = T.expr_fields(T.expr(cc, other[0], depth=10)) if other else []
            idx = [f for a, f in fs_direct if a == 'tuple']
            for g in T.guards_from_local(cc, st['dst']['l'], bi):
                emit = g.true_bb if st['rv']['op'] == 'Ne' else g.false_bb; skip = g.false_bb if st['rv']['op'] == 'Ne' else g.true_bb
                hdrs = set(cc.loops())
                reg = cc.reach([emit], stop=hdrs | {skip} | (inf_blocks - {bi}))
                idx_of['-inf' if 'NEG_' in infs[0] else '+inf'] = idx
                wf = [c for c in cc.calls if c.bb in reg and c.item == 'wrap_function']
                negs_c = False; neg_terms = 0
                if wf:
                    cx = T.expr(cc, wf[0].args[2], depth=8)
                    negs_c = any(x[0] == 'un' and x[1] == 'Neg' for x in T.expr_walk(cx))
                for bi_, st_, cl in cc.closures_created():
                    if bi_ in reg:
                        cb = ctx.F.bodies.get(cl)
                        if cb is not None and any(T.ASSIGN_CALL.match(x.name) and 'Mul' in x.name and any(a['k'] == 'const' and a['v'] == '-1f64' for a in x.args) for x in cb.calls): neg_terms += 1
                        if cb is not None and any(s2['rv']['k'] == 'bin' and s2['rv']['op'] == 'Mul' and any(o['k'] == 'const' and o['v'] == '-1f64' for o in s2['rv']['ops']) for b2, s2 in cb.stmts()): neg_terms += 1
                ids = []
                for b2, st2 in find_aggregates(cc, 'v1::Constraint'):
                    if b2 in reg:
                        ix = T.expr(cc, agg_field_operand(st2, 'id'), depth=10)
                        ids.append('m+i' if any((x[0] == 'bin' and x[1].startswith('Add')) or (x[0] == 'call' and x[1] == 'add') for x in T.expr_walk(ix)) and ('qplib::parser::QplibFile', 'num_constraints') in T.expr_fields(ix) else 'i')
                        eqc = slice_op(ctx, cc, agg_field_operand(st2, 'equality'))
                        ids.append('le' if eqc.has_const(r'Equality::LessThanOrEqualToZero') else 'other')
                key = '-inf' if 'NEG_' in infs[0] else '+inf'
                sides[key] = dict(neg_constant=negs_c, negated_parts=neg_terms, ids=ids, pushes=len([c for c in cc.calls if c.bb in reg and c.item == 'push' and 'v1::Constraint' in c.name]))
        want = {'+inf': dict(neg_constant=True, negated_parts=0, ids=['i', 'le'], pushes=1), '-inf': dict(neg_constant=False, negated_parts=2, ids=['m+i', 'le'], pushes=1)}
        ctx.check(sides == want, R + '.sign/two-sides', 'T-BRANCHFX', cc.name,
                  'sides are %s; expected upper: emitted iff c_u != +inf, constant -c_u, coefficients kept, id i; lower: emitted iff c_l != -inf, all coefficients * -1, constant +c_l, id m+i' % sides, cc.site(), table=str(sides))
        # which bound list feeds which test: izip!(bs, lower, upper) order
        zs = [c for c in cc.calls if 'multizip' in c.name or c.item == 'izip' or re.search(r'Zip<', c.name) and c.item == 'new']
        s = ctx.S.backslice(cc, [0])
        order = zip_order(ctx, cc)
        ctx.check(order == ['bs_non_zeroes', 'constr_lower_cs', 'constr_upper_cs'], R + '.sign/zip-order', 'T-CARRY', cc.name, 'constraint data are zipped as %s' % order, cc.site())
        ctx.check(idx_of.get('+inf', [])[-1:] == ['2'] and idx_of.get('-inf', [])[-1:] == ['1'], R + '.sign/side-uses-its-own-bound', 'T-CARRY', cc.name,
                  'the +inf test must read the third zipped value (c_u) and the -inf test the second (c_l); found %s' % idx_of, cc.site())
    # objective: default b0 over all variables, overridden by non-defaults; constant
    ob = ctx.free_fn(R + '.b0/anchor', 'qplib::convert::convert_objective')
    if ob is not None:
        s = ctx.S.backslice(ob, [0])
        for f in ('q0_non_zeroes', 'b0_non_defaults', 'default_b0', 'num_vars', 'obj_constant'):
            ctx.check(s.has_field(QF, f), R + '.b0/uses-' + f, 'T-CARRY', ob.name, 'objective does not depend on QplibFile.%s' % f, ob.site())
        wf = [c for c in ob.calls if c.item == 'wrap_function']
        ok = len(wf) == 1 and (QF, 'obj_constant') in T.access_path(ob, wf[0].args[2])[0] and not any(x[0] in ('un', 'bin') for x in T.expr_walk(T.expr(ob, wf[0].args[2])))
        ctx.check(ok, R + '.b0/constant', 'T-CARRY', ob.name, 'objective constant is not obj_constant unchanged', ob.site())
        rng = [st for bi, st in ob.stmts() if st['rv']['k'] == 'agg' and st['rv']['adt'].endswith('ops::Range')]
        okr = any(st['rv']['ops'][0].get('v') == '0_u64' and (QF, 'num_vars') in T.expr_fields(T.expr(ob, st['rv']['ops'][1])) for st in rng)
        ctx.check(okr, R + '.b0/default-over-all-variables', 'T-LOOPMUST', ob.name, 'the default b0 is not expanded over ids 0..num_vars', ob.site())
        loops = [lo for lo in T.for_loops(ob) if ctx.S.slice_operand(ob, lo[0].args[0]).has_field(QF, 'b0_non_defaults')]
        okov = False
        for lo in loops:
            ws = [(bi, st) for bi, st in ob.stmts() if bi in lo[4] and st['dst']['p'] and fields_of_place(st['dst'])[-1:] == [('v1::linear::Term', 'coefficient')]]
            okov = len(ws) == 1 and T.must_pass(ob, lo[2], {lo[1]}, {ws[0][0]})
        ctx.check(okov, R + '.b0/non-defaults-override', 'T-LOOPMUST', ob.name, 'non-default b0 entries do not override the default for every listed index', ob.site())
    wfb = ctx.free_fn(R + '.wrap/anchor', 'qplib::convert::wrap_function')
    if wfb is not None:
        ws = [(bi, st) for bi, st in wfb.stmts() if st['dst']['p'] and fields_of_place(st['dst'])[-1:] == [('v1::Linear', 'constant')]]
        okc = all(T.strip_wrappers(T.expr(wfb, st['rv']['ops'][0])) == ('place', 3, []) for bi, st in ws) and len(ws) == 2
        cst = [st for bi, st in wfb.stmts() if st['rv']['k'] == 'agg' and st['rv']['adt'].endswith('function::Function::Constant')]
        okk = len(cst) == 1 and T.strip_wrappers(T.expr(wfb, cst[0]['rv']['ops'][0])) == ('place', 3, [])
        ctx.check(okc and okk, R + '.wrap/constant-kept', 'T-CARRY', wfb.name, 'the constant is not carried into every form (constant / linear / quadratic)', wfb.site())
        lw = [(bi, st) for bi, st in wfb.stmts() if st['dst']['p'] and fields_of_place(st['dst'])[-1:] == [('v1::Quadratic', 'linear')]]
        ctx.check(len(lw) == 1, R + '.wrap/linear-attached', 'T-CARRY', wfb.name, 'the linear part is not attached to the quadratic function', wfb.site())
    # variables
    dv = ctx.free_fn(R + '.vars/anchor', 'qplib::convert::convert_dvars')
    if dv is not None:
        order = zip_order(ctx, dv)
        ctx.check(order == ['var_types', 'lower_bounds', 'upper_bounds'], R + '.vars/zip-order', 'T-CARRY', dv.name, 'variable data are zipped as %s' % order, dv.site())
        adt = ctx.F.adt('qplib::parser::VarType'); rows = {}
        for bi_ in dv.live:
            t = dv.blocks[bi_]['term']
            if t['k'] == 'switch' and adt and t['d']['k'] != 'const':
                for k2, b2, d in dv.defs_of(t['d']['pl']['l']):
                    if k2 == 'stmt' and d['rv']['k'] == 'discr' and 'VarType' in dv.locals[d['rv']['pl']['l']]:
                        m = {v: tg for v, tg in t['ts']}
                        for v in adt['variants']:
                            tg = m.get(v['discr'], t['else']); others = {m.get(x['discr'], t['else']) for x in adt['variants']} - {tg}
                            reg = dv.reach([tg], stop=others | set(dv.loops()))
                            rows[v['name']] = sorted({re.search(r'Kind::(\w+)', o['v']).group(1) for b3, st in dv.stmts() if b3 in reg for o in st['rv'].get('ops', []) if o['k'] == 'const' and 'Kind::' in o['v']})
        ctx.check(rows == {'Continuous': ['Continuous'], 'Integer': ['Integer'], 'Binary': ['Binary']}, R + '.vars/kind-mapping', 'T-BRANCHFX', dv.name, 'variable types map to %s' % rows, dv.site())
        aggs = find_aggregates(dv, 'v1::Bound')
        okb = False
        for bi, st in aggs:
            d = dict(zip(st['rv']['fields'], st['rv']['ops']))
            fl = [f for a, f in T.expr_fields(T.expr(dv, d['lower'], depth=10)) if a == 'tuple']; fu = [f for a, f in T.expr_fields(T.expr(dv, d['upper'], depth=10)) if a == 'tuple']
            okb = fl != fu and bool(fl) and bool(fu)
        ctx.check(okb, R + '.vars/bound', 'T-CARRY', dv.name, 'Bound{lower, upper} is not built from the two zipped bound lists', dv.site())
        s = ctx.S.backslice(dv, [0])
        ctx.check(s.has_field(QF, 'var_names'), R + '.vars/names', 'T-CARRY', dv.name, 'variable names are not carried', dv.site())


def zip_order(ctx, b):
    """izip!(a, b, c) expands to a.into_iter().zip(b).zip(c).map(flatten): the QplibFile fields in zip order"""
    zs = [c for c in b.calls if c.item == 'zip' and 'Iterator' in (c.trait or '')]
    if not zs: return []
    outer = [c for c in zs if not any(c in ctx.S.slice_operand(b, z.args[0]).call_objs for z in zs if z is not c)]
    def fld(operand):
        fs = [f for a, f in T.access_path(b, operand, transparent=re.compile(r'::(into_iter|iter|deref|as_ref)(::<.*>)?$'))[0] if a.endswith('QplibFile')]
        return fs[-1] if fs else None
    order = []
    def walk(c):
        inner = [z for z in zs if z is not c and z.dst['l'] == (c.args[0]['pl']['l'] if c.args[0]['k'] in ('copy', 'move') else -1)]
        if inner: walk(inner[0])
        else: order.append(fld(c.args[0]))
        order.append(fld(c.args[1]))
    walk(outer[0])
    return order


def check(ctx):
    codes_rules(ctx); section_rules(ctx); errors_rules(ctx); convert_rules(ctx)
    ctx.floor('C19.codes', 15); ctx.floor('C19.sections', 39); ctx.floor('C19.convert.cover', 19); ctx.floor('C19.infinity', 3)
    ctx.floor('C19.convert.half', 4); ctx.floor('C19.convert.sign', 3); ctx.floor('C19.convert.b0', 8); ctx.floor('C19.convert.wrap', 2); ctx.floor('C19.convert.vars', 4)
