#!/usr/bin/env python3
"""tools/gen_pinned_schema.py [commit] — freeze the wire table of the schema at the pinned commit
(default: the root snapshot commit of /repo) into engine/sa/rules/tables/C07_pinned_schema.json:
per message [number, wire type, label, name], per enum its numbers.  Never run at check time."""
import sys, os, json, subprocess, tempfile, shutil
V = os.path.dirname(os.path.dirname(os.path.abspath(__file__)))
sys.path.insert(0, os.path.join(V, 'engine'))
from sa.schema import protoparse as PP
from sa.rules.C07 import wire_sig
commit = sys.argv[1] if len(sys.argv) > 1 else subprocess.run('git -C /repo rev-list --max-parents=0 HEAD', shell=True, stdout=subprocess.PIPE, text=True).stdout.split()[0][:7]
d = tempfile.mkdtemp()
try:
    subprocess.run('git -C /repo archive %s proto | tar -x -C %s' % (commit, d), shell=True, check=True)
    msgs, enums, files = PP.load(os.path.join(d, 'proto'))
    out = {'commit': commit, 'messages': {}, 'enums': {}}
    for full, m in sorted(msgs.items()):
        out['messages'][full] = [wire_sig(msgs, enums, full, f) + [f['name']] for f in m['fields']]
    for full, e in sorted(enums.items()):
        out['enums'][full] = sorted(e['values'].values())
    json.dump(out, open(os.path.join(V, 'engine/sa/rules/tables/C07_pinned_schema.json'), 'w'), indent=0)
    print(commit, len(out['messages']), 'messages', sum(len(v) for v in out['messages'].values()), 'fields', len(out['enums']), 'enums')
finally:
    shutil.rmtree(d, ignore_errors=True)
