#!/usr/bin/env python3
"""tools/regress_all.py [--jobs N] [--props C01,C02] [--write] — tools/regress.py for every property, in parallel.

Each job gets its own git worktree of /repo and its own cache under $TMPDIR/ommx-regress/<prop>
(created on demand, worktrees removed at the end; caches are kept for the next run)."""
import sys, os, subprocess, re, json, concurrent.futures as cf, shutil

V = os.path.dirname(os.path.dirname(os.path.abspath(__file__)))
ROOT = os.path.join(os.environ.get('TMPDIR', '/tmp'), 'ommx-regress')


def opt(name, default=None):
    if name in sys.argv: return sys.argv[sys.argv.index(name) + 1]
    return default


def job(prop, write):
    base = os.path.join(ROOT, prop); wt = base + '/repo'; cache = base + '/cache'
    os.makedirs(cache, exist_ok=True)
    if not os.path.isdir(wt):
        subprocess.run(['git', '-C', '/repo', 'worktree', 'add', '--detach', wt, 'HEAD'], stdout=subprocess.PIPE, stderr=subprocess.STDOUT)
    subprocess.run('git -C %s checkout -q --detach $(git -C /repo rev-parse HEAD) && git -C %s checkout -- .' % (wt, wt), shell=True)
    cmd = [sys.executable, os.path.join(V, 'tools', 'regress.py'), prop, '--repo', wt, '--cache', cache] + (['--write'] if write else [])
    r = subprocess.run(cmd, stdout=subprocess.PIPE, stderr=subprocess.STDOUT, text=True)
    return prop, r.returncode, r.stdout


def main():
    props = opt('--props')
    if props: props = props.split(',')
    else: props = sorted(f[:-3] for f in os.listdir(os.path.join(V, 'engine/sa/rules')) if re.fullmatch(r'C\d+\.py', f))
    jobs = int(opt('--jobs', '5')); write = '--write' in sys.argv
    os.makedirs(ROOT, exist_ok=True)
    bad = {}
    with cf.ThreadPoolExecutor(jobs) as ex:
        for prop, code, out in ex.map(lambda p: job(p, write), props):
            lines = [l for l in out.split('\n') if re.match(r'^(base|C\d+-\d+)\s', l)]
            nok = sum(1 for l in lines if l.rstrip().endswith(' ok'))
            print('%s: %d/%d as expected' % (prop, nok, len(lines)), flush=True)
            for l in out.split('\n'):
                if re.search(r'(MISSED|FALSE ALARM|CHECKER-FAILURE|UNEXPECTED|does not apply)', l): print('   ', l)
            if code != 0: bad[prop] = out
    for p in props:
        subprocess.run(['git', '-C', '/repo', 'worktree', 'remove', '--force', os.path.join(ROOT, p, 'repo')], stdout=subprocess.PIPE, stderr=subprocess.STDOUT)
    subprocess.run(['git', '-C', '/repo', 'worktree', 'prune'])
    print('properties with something unexpected:', sorted(bad) or 'none')
    sys.exit(1 if bad else 0)


if __name__ == '__main__':
    main()
