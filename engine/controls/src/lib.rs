//! Positive controls for the rule templates: each `bad_*` item violates a template, its `good_*`
//! twin satisfies it. The checker asserts on every run that the bad twin fires and the good twin passes.
#![allow(dead_code, unused)]
