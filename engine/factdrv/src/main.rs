#![feature(rustc_private)]
extern crate rustc_abi;
extern crate rustc_driver;
extern crate rustc_hir;
extern crate rustc_interface;
extern crate rustc_middle;
extern crate rustc_span;

use rustc_driver::{Callbacks, Compilation};
use rustc_hir::def::DefKind;
use rustc_interface::interface::Compiler;
use rustc_middle::mir::{
    AggregateKind, Body, Operand, Place, PlaceTy, ProjectionElem, Rvalue, StatementKind,
    TerminatorKind,
};
use rustc_middle::ty::{self, Instance, TyCtxt, TypingEnv};
use rustc_span::def_id::{DefId, LOCAL_CRATE};
use std::fmt::Write;

fn esc(s: &str) -> String {
    let mut o = String::with_capacity(s.len() + 2);
    o.push('"');
    for c in s.chars() {
        match c {
            '"' => o.push_str("\\\""),
            '\\' => o.push_str("\\\\"),
            '\n' => o.push_str("\\n"),
            '\r' => o.push_str("\\r"),
            '\t' => o.push_str("\\t"),
            c if (c as u32) < 0x20 => {
                write!(o, "\\u{:04x}", c as u32).unwrap();
            }
            c => o.push(c),
        }
    }
    o.push('"');
    o
}


fn item_header<'tcx>(tcx: TyCtxt<'tcx>, did: DefId) -> String {
    // {"trait":..,"targs":[..],"self":..,"item":..} for assoc items of impls / traits; {} otherwise
    let kind = tcx.def_kind(did);
    if !matches!(kind, DefKind::AssocFn | DefKind::AssocConst { .. } | DefKind::AssocTy) {
        if matches!(kind, DefKind::Fn) {
            return format!("{{\"item\":{}}}", esc(tcx.item_name(did).as_str()));
        }
        return "{}".into();
    }
    let item = tcx.item_name(did).to_string();
    if let Some(imp) = tcx.impl_of_assoc(did) {
        let self_ty = tcx.type_of(imp).instantiate_identity().skip_norm_wip();
        let (tr, targs) = match tcx.impl_opt_trait_ref(imp) {
            Some(tr) => {
                let tr = tr.instantiate_identity().skip_norm_wip();
                let targs: Vec<String> = tr.args.iter().skip(1).map(|a| esc(&format!("{}", a))).collect();
                (esc(&tcx.def_path_str(tr.def_id)), targs)
            }
            None => ("null".to_string(), vec![]),
        };
        return format!(
            "{{\"trait\":{},\"targs\":[{}],\"self\":{},\"item\":{}}}",
            tr,
            targs.join(","),
            esc(&format!("{}", self_ty)),
            esc(&item)
        );
    }
    if let Some(tr) = tcx.trait_of_assoc(did) {
        return format!(
            "{{\"trait\":{},\"targs\":[],\"self\":null,\"item\":{}}}",
            esc(&tcx.def_path_str(tr)),
            esc(&item)
        );
    }
    format!("{{\"item\":{}}}", esc(&item))
}

fn span_s(tcx: TyCtxt<'_>, sp: rustc_span::Span) -> String {
    let sm = tcx.sess.source_map();
    let lo = sm.lookup_char_pos(sp.lo());
    let hi = sm.lookup_char_pos(sp.hi());
    format!(
        "{{\"file\":{},\"lo\":{},\"hi\":{},\"exp\":{}}}",
        esc(&format!("{}", lo.file.name.prefer_local_unconditionally())),
        lo.line,
        hi.line,
        sp.from_expansion()
    )
}

fn place_s<'tcx>(tcx: TyCtxt<'tcx>, body: &Body<'tcx>, p: &Place<'tcx>) -> String {
    let mut out = format!("{{\"l\":{},\"p\":[", p.local.as_usize());
    let mut pty = PlaceTy::from_ty(body.local_decls[p.local].ty);
    let mut first = true;
    for elem in p.projection.iter() {
        if !first {
            out.push(',');
        }
        first = false;
        match elem {
            ProjectionElem::Deref => out.push_str("\"*\""),
            ProjectionElem::Field(f, _) => {
                let mut name = format!("{}", f.as_usize());
                let mut owner = String::new();
                match pty.ty.kind() {
                    ty::Adt(adt, _) => {
                        let v = match pty.variant_index {
                            Some(v) => adt.variant(v),
                            None => {
                                if adt.is_enum() {
                                    adt.variant(rustc_abi::FIRST_VARIANT)
                                } else {
                                    adt.non_enum_variant()
                                }
                            }
                        };
                        name = v.fields[f].name.to_string();
                        owner = tcx.def_path_str(adt.did());
                        if adt.is_enum() {
                            owner = format!("{}::{}", owner, v.name);
                        }
                    }
                    ty::Closure(..) => owner = "closure".into(),
                    ty::Tuple(..) => owner = "tuple".into(),
                    _ => {}
                }
                write!(out, "{{\"f\":{},\"of\":{}}}", esc(&name), esc(&owner)).unwrap();
            }
            ProjectionElem::Downcast(name, _) => {
                write!(
                    out,
                    "{{\"dc\":{}}}",
                    esc(&name.map(|n| n.to_string()).unwrap_or_default())
                )
                .unwrap();
            }
            ProjectionElem::Index(l) => write!(out, "{{\"ix\":{}}}", l.as_usize()).unwrap(),
            ProjectionElem::ConstantIndex { offset, from_end, .. } => {
                write!(out, "{{\"cix\":{},\"fe\":{}}}", offset, from_end).unwrap()
            }
            _ => out.push_str("\"?\""),
        }
        pty = pty.projection_ty(tcx, elem);
    }
    out.push_str("]}");
    out
}

fn operand_s<'tcx>(tcx: TyCtxt<'tcx>, body: &Body<'tcx>, o: &Operand<'tcx>) -> String {
    match o {
        Operand::Copy(p) => format!("{{\"k\":\"copy\",\"pl\":{}}}", place_s(tcx, body, p)),
        Operand::Move(p) => format!("{{\"k\":\"move\",\"pl\":{}}}", place_s(tcx, body, p)),
        Operand::Constant(c) => {
            let ty = c.const_.ty();
            let mut extra = String::new();
            if let ty::FnDef(did, args) = ty.kind() {
                write!(extra, ",\"fn\":{},\"fnp\":{}", esc(&tcx.def_path_str_with_args(*did, args)), esc(&tcx.def_path_str(*did))).unwrap();
            }
            format!(
                "{{\"k\":\"const\",\"ty\":{},\"v\":{}{}}}",
                esc(&format!("{}", ty)),
                esc(&format!("{}", c.const_)),
                extra
            )
        }
        _ => "{\"k\":\"other\"}".into(),
    }
}

fn rvalue_s<'tcx>(tcx: TyCtxt<'tcx>, body: &Body<'tcx>, rv: &Rvalue<'tcx>) -> String {
    match rv {
        Rvalue::Use(o, _) => format!("{{\"k\":\"use\",\"ops\":[{}]}}", operand_s(tcx, body, o)),
        Rvalue::Ref(_, bk, p) => format!(
            "{{\"k\":\"ref\",\"mut\":{},\"pl\":{}}}",
            matches!(bk, rustc_middle::mir::BorrowKind::Mut { .. }),
            place_s(tcx, body, p)
        ),
        Rvalue::RawPtr(_, p) => format!("{{\"k\":\"rawptr\",\"pl\":{}}}", place_s(tcx, body, p)),
        Rvalue::BinaryOp(op, ops) => format!(
            "{{\"k\":\"bin\",\"op\":\"{:?}\",\"ty\":{},\"ops\":[{},{}]}}",
            op,
            esc(&format!("{}", ops.0.ty(&body.local_decls, tcx))),
            operand_s(tcx, body, &ops.0),
            operand_s(tcx, body, &ops.1)
        ),
        Rvalue::UnaryOp(op, o) => format!(
            "{{\"k\":\"un\",\"op\":\"{:?}\",\"ops\":[{}]}}",
            op,
            operand_s(tcx, body, o)
        ),
        Rvalue::Cast(kind, o, ty) => format!(
            "{{\"k\":\"cast\",\"ck\":{},\"to\":{},\"ops\":[{}]}}",
            esc(&format!("{:?}", kind)),
            esc(&format!("{}", ty)),
            operand_s(tcx, body, o)
        ),
        Rvalue::Discriminant(p) => format!("{{\"k\":\"discr\",\"pl\":{}}}", place_s(tcx, body, p)),
        Rvalue::Aggregate(kind, ops) => {
            let (ak, fields): (String, Vec<String>) = match &**kind {
                AggregateKind::Adt(did, vidx, _, _, _) => {
                    let adt = tcx.adt_def(*did);
                    let v = adt.variant(*vidx);
                    let mut name = tcx.def_path_str(*did);
                    if adt.is_enum() {
                        name = format!("{}::{}", name, v.name);
                    }
                    (name, v.fields.iter().map(|f| f.name.to_string()).collect())
                }
                AggregateKind::Closure(did, _) => (format!("closure:{}", tcx.def_path_str(*did)), vec![]),
                AggregateKind::Tuple => ("tuple".into(), vec![]),
                AggregateKind::Array(_) => ("array".into(), vec![]),
                _ => ("other".into(), vec![]),
            };
            let ops_s: Vec<String> = ops.iter().map(|o| operand_s(tcx, body, o)).collect();
            let f_s: Vec<String> = fields.iter().map(|f| esc(f)).collect();
            format!(
                "{{\"k\":\"agg\",\"adt\":{},\"fields\":[{}],\"ops\":[{}]}}",
                esc(&ak),
                f_s.join(","),
                ops_s.join(",")
            )
        }
        Rvalue::CopyForDeref(p) => format!(
            "{{\"k\":\"use\",\"ops\":[{{\"k\":\"copy\",\"pl\":{}}}]}}",
            place_s(tcx, body, p)
        ),
        other => format!("{{\"k\":\"other\",\"dbg\":{}}}", esc(&format!("{:?}", other))),
    }
}

fn dump_body<'tcx>(tcx: TyCtxt<'tcx>, did: DefId, name: &str, kind: &str, body: &Body<'tcx>, out: &mut String) {
    let tenv = TypingEnv::post_analysis(tcx, did);
    let root = tcx.typeck_root_def_id(did);
    write!(
        out,
        "{{\"fn\":{},\"kind\":{},\"parent\":{},\"hdr\":{},\"vis\":{},\"span\":{},\"argc\":{},\"locals\":[",
        esc(name),
        esc(kind),
        esc(&tcx.def_path_str(root)),
        item_header(tcx, root),
        esc(&if matches!(tcx.def_kind(root), DefKind::Fn | DefKind::AssocFn) { format!("{:?}", tcx.visibility(root)) } else { String::new() }),
        span_s(tcx, body.span),
        body.arg_count
    )
    .unwrap();
    let mut first = true;
    for d in body.local_decls.iter() {
        if !first {
            out.push(',');
        }
        first = false;
        out.push_str(&esc(&format!("{}", d.ty)));
    }
    out.push_str("],\"blocks\":[");
    let mut firstb = true;
    for (_bb, data) in body.basic_blocks.iter_enumerated() {
        if !firstb {
            out.push(',');
        }
        firstb = false;
        write!(out, "{{\"cleanup\":{},\"st\":[", data.is_cleanup).unwrap();
        let mut fs = true;
        for st in &data.statements {
            let s = match &st.kind {
                StatementKind::Assign(b) => Some(format!(
                    "{{\"dst\":{},\"rv\":{},\"line\":{}}}",
                    place_s(tcx, body, &b.0),
                    rvalue_s(tcx, body, &b.1),
                    tcx.sess.source_map().lookup_char_pos(st.source_info.span.lo()).line
                )),
                StatementKind::SetDiscriminant { place, variant_index } => Some(format!(
                    "{{\"setdiscr\":{},\"v\":{}}}",
                    place_s(tcx, body, place),
                    variant_index.as_usize()
                )),
                _ => None,
            };
            if let Some(s) = s {
                if !fs {
                    out.push(',');
                }
                fs = false;
                out.push_str(&s);
            }
        }
        out.push_str("],\"term\":");
        let term = data.terminator();
        let sp = span_s(tcx, term.source_info.span);
        match &term.kind {
            TerminatorKind::Goto { target } => write!(out, "{{\"k\":\"goto\",\"t\":{}}}", target.as_usize()).unwrap(),
            TerminatorKind::SwitchInt { discr, targets } => {
                let mut ts = Vec::new();
                for (v, t) in targets.iter() {
                    ts.push(format!("[{},{}]", v, t.as_usize()));
                }
                write!(
                    out,
                    "{{\"k\":\"switch\",\"d\":{},\"ts\":[{}],\"else\":{}}}",
                    operand_s(tcx, body, discr),
                    ts.join(","),
                    targets.otherwise().as_usize()
                )
                .unwrap();
            }
            TerminatorKind::Return => out.push_str("{\"k\":\"return\"}"),
            TerminatorKind::Unreachable => out.push_str("{\"k\":\"unreachable\"}"),
            TerminatorKind::Drop { target, .. } => write!(out, "{{\"k\":\"drop\",\"t\":{}}}", target.as_usize()).unwrap(),
            TerminatorKind::Assert { target, msg, .. } => write!(
                out,
                "{{\"k\":\"assert\",\"t\":{},\"msg\":{}}}",
                target.as_usize(),
                esc(&format!("{:?}", msg))
            )
            .unwrap(),
            TerminatorKind::Call { func, args, destination, target, .. } => {
                let fty = func.ty(&body.local_decls, tcx);
                let mut fp = String::new();
                let mut rp = String::new();
                let mut ri = String::from("{}");
                let mut gargs: Vec<String> = vec![];
                let (orig, res) = if let ty::FnDef(cdid, cargs) = fty.kind() {
                    let orig = tcx.def_path_str_with_args(*cdid, cargs);
                    fp = tcx.def_path_str(*cdid);
                    ri = item_header(tcx, *cdid);
                    gargs = cargs.iter().map(|a| esc(&format!("{}", a))).collect();
                    let res = match Instance::try_resolve(tcx, tenv, *cdid, cargs) {
                        Ok(Some(i)) => {
                            rp = tcx.def_path_str(i.def_id());
                            ri = item_header(tcx, i.def_id());
                            tcx.def_path_str_with_args(i.def_id(), i.args)
                        }
                        _ => String::new(),
                    };
                    (orig, res)
                } else {
                    (format!("<indirect:{}>", fty), String::new())
                };
                let a: Vec<String> = args.iter().map(|a| operand_s(tcx, body, &a.node)).collect();
                write!(
                    out,
                    "{{\"k\":\"call\",\"f\":{},\"r\":{},\"fp\":{},\"rp\":{},\"ri\":{},\"ga\":[{}],\"args\":[{}],\"dst\":{},\"t\":{},\"span\":{}}}",
                    esc(&orig),
                    esc(&res),
                    esc(&fp),
                    esc(&rp),
                    ri,
                    gargs.join(","),
                    a.join(","),
                    place_s(tcx, body, destination),
                    target.map(|t| t.as_usize() as i64).unwrap_or(-1),
                    sp
                )
                .unwrap();
            }
            other => write!(out, "{{\"k\":\"other\",\"dbg\":{}}}", esc(&format!("{:?}", other).chars().take(80).collect::<String>())).unwrap(),
        }
        out.push('}');
    }
    out.push_str("]}\n");
}

struct Cb;
impl Callbacks for Cb {
    fn after_analysis<'tcx>(&mut self, _c: &Compiler, tcx: TyCtxt<'tcx>) -> Compilation {
        let krate = tcx.crate_name(LOCAL_CRATE);
        let want = std::env::var("FACTS_CRATES").unwrap_or("ommx".into());
        if !want.split(',').any(|w| w == krate.as_str()) {
            return Compilation::Continue;
        }
        let out_path = match std::env::var("FACTS_OUT") {
            Ok(p) => p.replace("{crate}", krate.as_str()),
            Err(_) => return Compilation::Continue,
        };
        let mut out = String::new();
        // header
        {
            let sm = tcx.sess.source_map();
            let mut files: Vec<String> = vec![];
            for f in sm.files().iter() {
                if f.cnum == LOCAL_CRATE {
                    let n = format!("{}", f.name.prefer_local_unconditionally());
                    if !n.starts_with('<') {
                        files.push(esc(&n));
                    }
                }
            }
            write!(
                out,
                "{{\"header\":true,\"crate\":{},\"rustc\":{},\"cwd\":{},\"files\":[{}]}}\n",
                esc(krate.as_str()),
                esc(&rustc_interface::util::rustc_version_str().unwrap_or("?").to_string()),
                esc(&std::env::current_dir().map(|p| p.display().to_string()).unwrap_or_default()),
                files.join(",")
            )
            .unwrap();
        }
        for ldid in tcx.mir_keys(()) {
            let did = ldid.to_def_id();
            let kind = tcx.def_kind(did);
            let k = match kind {
                DefKind::Fn | DefKind::AssocFn => "fn",
                DefKind::Closure => "closure",
                _ => continue,
            };
            let body = tcx.optimized_mir(did);
            let name = tcx.def_path_str(did);
            dump_body(tcx, did, &name, k, body, &mut out);
            for (i, pb) in tcx.promoted_mir(did).iter_enumerated() {
                dump_body(tcx, did, &format!("{}::promoted[{}]", name, i.as_usize()), "promoted", pb, &mut out);
            }
        }
        // ADTs
        for ldid in tcx.hir_crate_items(()).definitions() {
            let did = ldid.to_def_id();
            if !matches!(tcx.def_kind(did), DefKind::Struct | DefKind::Enum) {
                continue;
            }
            let adt = tcx.adt_def(did);
            let mut discrs: Vec<String> = vec![];
            if adt.is_enum() {
                for (_vi, d) in adt.discriminants(tcx) {
                    discrs.push(format!("{}", d.val as i128));
                }
            }
            write!(out, "{{\"adt\":{},\"is_enum\":{},\"span\":{},\"variants\":[", esc(&tcx.def_path_str(did)), adt.is_enum(), span_s(tcx, tcx.def_span(did))).unwrap();
            let mut fv = true;
            for (vi, v) in adt.variants().iter_enumerated() {
                if !fv {
                    out.push(',');
                }
                fv = false;
                let discr = discrs.get(vi.as_usize()).cloned().unwrap_or("null".into());
                write!(out, "{{\"name\":{},\"discr\":{},\"fields\":[", esc(v.name.as_str()), discr).unwrap();
                let mut ff = true;
                for f in v.fields.iter() {
                    if !ff {
                        out.push(',');
                    }
                    ff = false;
                    let fty = tcx.type_of(f.did).instantiate_identity().skip_norm_wip();
                    write!(out, "{{\"name\":{},\"ty\":{},\"vis\":{}}}", esc(f.name.as_str()), esc(&format!("{}", fty)), esc(&format!("{:?}", f.vis))).unwrap();
                }
                out.push_str("]}");
            }
            out.push_str("]}\n");
        }
        // trait impls (all local), with associated types
        for (trait_did, impls) in tcx.all_local_trait_impls(()).iter() {
            let tname = tcx.def_path_str(*trait_did);
            for imp in impls {
                let imp = imp.to_def_id();
                let tr = tcx.impl_trait_ref(imp).instantiate_identity().skip_norm_wip();
                let self_ty = tr.self_ty();
                let targs: Vec<String> = tr.args.iter().skip(1).map(|a| esc(&format!("{}", a))).collect();
                let mut assoc: Vec<String> = vec![];
                let mut methods: Vec<String> = vec![];
                for it in tcx.associated_items(imp).in_definition_order() {
                    match tcx.def_kind(it.def_id) {
                        DefKind::AssocTy => {
                            let t = tcx.type_of(it.def_id).instantiate_identity().skip_norm_wip();
                            assoc.push(format!("{}:{}", esc(it.name().as_str()), esc(&format!("{}", t))));
                        }
                        DefKind::AssocFn => methods.push(esc(&tcx.def_path_str(it.def_id))),
                        _ => {}
                    }
                }
                write!(
                    out,
                    "{{\"impl\":{},\"self\":{},\"targs\":[{}],\"assoc\":{{{}}},\"methods\":[{}],\"span\":{}}}\n",
                    esc(&tname),
                    esc(&format!("{}", self_ty)),
                    targs.join(","),
                    assoc.join(","),
                    methods.join(","),
                    span_s(tcx, tcx.def_span(imp))
                )
                .unwrap();
            }
        }
        // consts / statics with literal values (string and numeric constants used as tables)
        for ldid in tcx.hir_crate_items(()).definitions() {
            let did = ldid.to_def_id();
            if !matches!(tcx.def_kind(did), DefKind::Const { .. } | DefKind::AssocConst { .. }) {
                continue;
            }
            if tcx.generics_of(did).count() != 0 {
                continue;
            }
            let ty = tcx.type_of(did).instantiate_identity().skip_norm_wip();
            let val = match tcx.const_eval_poly(did) {
                Ok(v) => format!("{}", rustc_middle::mir::Const::Val(v, ty)),
                Err(_) => String::new(),
            };
            write!(out, "{{\"const\":{},\"ty\":{},\"val\":{}}}\n", esc(&tcx.def_path_str(did)), esc(&format!("{}", ty)), esc(&val)).unwrap();
        }
        std::fs::write(out_path, out).unwrap();
        Compilation::Continue
    }
}
fn main() {
    let mut args: Vec<String> = std::env::args().collect();
    args.remove(1);
    rustc_driver::run_compiler(&args, &mut Cb);
}
