"""Case analysis of the partial-evaluation kernels: for each Some/None combination of the
"is this variable fixed?" probes, the set of effects on the way back to the loop header."""
from .common import *

STATE_GET = r'HashMap::<u64, f64>::get'
KNOWN = ('rows', 'columns', 'values', 'id', 'coefficient', 'ids', 'constant', 'terms', 'linear')


def label(body, e, probes=None):
    e0 = T.strip_wrappers(e)
    if e0[0] == 'const': return 'const:' + e0[1]
    # payload of a state lookup?
    x = e0
    while True:
        if x[0] == 'call' and x[1] == 'get' and re.search(STATE_GET, x[2]):
            return 'val[%s]' % label(body, x[3][1])
        if x[0] == 'proj' and not any('v1::' in a for a, f in x[2]): x = T.strip_wrappers(x[1]); continue
        break
    f = outer_field(e0)
    if f: return f
    if e0[0] in ('local', 'place'): return '_%d' % e0[1]
    return T.expr_str(e0, 3)


def probe_of_place(body, pl, probes):
    """which probe's Option does this place denote (directly or as a field of a tuple of probes)?"""
    ex = T.strip_wrappers(T.expr(body, {'k': 'copy', 'pl': pl}, depth=8))
    if ex[0] == 'call' and ex[1] == 'get' and len(ex) > 4:
        for p in probes:
            if p.bb == ex[4]: return p
    return None


def outer_field(e):
    e = T.strip_wrappers(e)
    if e[0] in ('proj', 'place') and e[2]:
        named = [f for a, f in e[2] if 'v1::' in a and f in KNOWN]
        if named: return named[-1]
        return outer_field(e[1]) if e[0] == 'proj' else None
    if e[0] == 'call' and e[3]: return outer_field(e[3][0])
    return None


def case_region(body, start, assignment, probes, stop, avoid=()):
    """blocks reachable from `start` when probe i's Option has discriminant assignment[i] (1 = Some).
    With `avoid`: returns None if a stop block is reachable without passing a block in `avoid`."""
    seen = set(); work = [start]
    while work:
        bi = work.pop()
        if bi in seen: continue
        if bi in stop:
            if avoid: return None
            continue
        if bi in avoid: continue
        seen.add(bi)
        t = body.blocks[bi]['term']
        succs = body.succ(bi)
        if t['k'] == 'switch' and t['d']['k'] != 'const':
            for k2, b2, d in body.defs_of(t['d']['pl']['l']):
                if k2 == 'stmt' and d['rv']['k'] == 'discr':
                    p = probe_of_place(body, d['rv']['pl'], probes)
                    if p is not None:
                        v = assignment[probes.index(p)]
                        m = {val: tg for val, tg in t['ts']}
                        succs = [m.get(v, t['else'])]
        for s in succs:
            if not body.blocks[s]['cleanup']: work.append(s)
    return seen


class _Eff(set):
    def __init__(self, where):
        super().__init__(); self.where = where; self.cur = None
    def add(self, e):
        super().add(e)
        if self.where is not None and self.cur is not None: self.where.setdefault(e, set()).add(self.cur)


def effects_in(ctx, body, region, self_adt, where=None):
    eff = _Eff(where)
    for bi, st in body.stmts():
        if bi not in region: continue
        eff.cur = bi
        rv = st['rv']; d = st['dst']
        if rv['k'] == 'bin' and rv.get('ty') == 'f64' and rv['op'] in ('Add', 'Sub', 'Mul', 'Div'):
            a, b = rv['ops']
            def same(o): return o['k'] in ('copy', 'move') and o['pl'] == d
            if same(a) or same(b):
                other = b if same(a) else a
                facs = sorted(label(body, f) for f in T.flatten(T.expr(body, other), 'Mul'))
                eff.add(('acc', target_label(ctx, body, d), rv['op'], tuple(facs)))
        if rv['k'] == 'bin' and rv['op'].startswith('Add') and rv.get('ty') == 'usize' and any(o['k'] == 'const' and o['v'] == '1_usize' for o in rv['ops']):
            eff.add(('inc', 'index'))
    for c in body.calls:
        if c.bb not in region: continue
        eff.cur = c.bb
        m = T.ASSIGN_CALL.match(c.name)
        if m:
            tgt = T.expr(body, c.args[0])
            facs = sorted(label(body, f) for f in T.flatten(T.expr(body, c.args[1]), 'Mul'))
            eff.add(('acc', target_label(ctx, body, None, c.args[0]), m.group(1), tuple(facs)))
        elif c.item == 'insert' and 'BTreeSet::<u64>::insert' in c.name:
            eff.add(('report', label(body, T.expr(body, c.args[1]))))
        elif c.item in ('swap_remove', 'remove') and re.search(r'Vec::<', c.name):
            fs = [f for a, f in T.access_path(body, c.args[0])[0] if a.endswith(self_adt)]
            eff.add(('remove', fs[-1] if fs else '?'))
        elif c.item == 'push' and 'Vec::<u64>::push' in c.name:
            eff.add(('keep-id', label(body, T.expr(body, c.args[1]))))
    return eff


def target_label(ctx, body, dst_place, operand=None):
    if dst_place is not None:
        fs = fields_of_place(dst_place)
        named = [f for a, f in fs if 'v1::' in a]
        if named: return 'self.' + named[-1]
        l = dst_place['l']
        if dst_place['p'] == []:
            return 'acc:_%d' % l
        # deref of a &mut f64 obtained from entry(key).or_insert / or_default
        ex = T.expr(body, {'k': 'copy', 'pl': {'l': l, 'p': []}}, depth=8)
    else:
        ex = T.expr(body, operand, depth=8)
        if ex[0] in ('local', 'place') and not (ex[0] == 'place' and ex[2]): return 'acc:_%d' % ex[1]
    ent = [x for x in T.expr_walk(ex) if x[0] == 'call' and x[1] == 'entry']
    if ent:
        return 'entry[%s]' % label(body, ent[0][3][1])
    return T.expr_str(ex, 3)
