#!/usr/bin/env python3
"""tools/gen_design_tables.py — regenerate the generated tables of DESIGN.md (between the
<!-- X:BEGIN --> / <!-- X:END --> markers) from seeded/*/meta.json and refactors/*/meta.json."""
import json, glob, os, re
V = os.path.dirname(os.path.dirname(os.path.abspath(__file__)))


def first_line(p):
    try:
        for l in open(p):
            if l.startswith(('+++', '---')): 
                m = re.match(r'\+\+\+ b/(.*)', l)
                if m: return m.group(1)
    except OSError: pass
    return ''


def seeds():
    out = ['| seed | file changed | reported by (own check) | history |', '|---|---|---|---|']
    for d in sorted(glob.glob(V + '/seeded/C*-*')):
        if not os.path.isdir(d): continue
        m = json.load(open(d + '/meta.json')); sid = os.path.basename(d); prop = sid.split('-')[0]
        ch = m.get('checks', {}).get(prop, {})
        rules = ch.get('rules', [])
        r = ', '.join('`%s`' % x for x in rules[:3]) + (' (+%d)' % (len(rules) - 3) if len(rules) > 3 else '')
        hist = m.get('history', '')
        fr = m.get('first_run')
        if not hist and fr is not None and fr.get('exit') != 1:
            hist = 'first run: missed; rule(s) added, then reported' if ch.get('exit') == 1 else 'first run: missed'
        if m.get('left_open'): hist += ' LEFT OPEN: ' + m['left_open']
        if m.get('round'): hist = ('round %s. ' % m['round']) + hist
        out.append('| %s | %s | %s | %s |' % (sid, first_line(d + '/patch.diff').replace('rust/ommx/src/', ''), r if ch.get('exit') == 1 else '**missed**', hist))
    return '\n'.join(out)


def refactors():
    out = ['| refactoring | file changed | verdict | note |', '|---|---|---|---|']
    for d in sorted(glob.glob(V + '/refactors/C*-*')):
        if not os.path.isdir(d): continue
        mp = d + '/meta.json'
        m = json.load(open(mp)) if os.path.exists(mp) else {}
        sid = os.path.basename(d)
        ch = m.get('checks', {})
        if not ch: verdict = 'not run'
        elif all(v.get('exit') == 0 for v in ch.values()): verdict = 'silent (%s)' % ', '.join(sorted(ch))
        else: verdict = '**alarm**: ' + ', '.join('%s: %s' % (p, ', '.join('`%s`' % x for x in (v.get('rules') or [])[:2]) + (' …' if len(v.get('rules') or []) > 2 else '')) for p, v in sorted(ch.items()) if v.get('exit') != 0)
        note = m.get('exposure', m.get('note', ''))
        note = ('round %s; first run: %s. ' % (m.get('round', '?'), 'ALARM' if m.get('first_run_alarm') else 'silent')) + note
        out.append('| %s | %s | %s | %s |' % (sid, first_line(d + '/patch.diff').replace('rust/ommx/src/', ''), verdict, note))
    return '\n'.join(out)


def rounds():
    import collections
    R = collections.defaultdict(lambda: [0, 0]); L = collections.defaultdict(lambda: [0, 0]); S = collections.defaultdict(lambda: [0, 0])
    for d in glob.glob(V + '/refactors/C*-*'):
        if not os.path.isdir(d) or not os.path.exists(d + '/meta.json'): continue
        m = json.load(open(d + '/meta.json'))
        if m.get('same_patch_as') or m.get('own_example'): continue
        r = m.get('round', 1); a = 1 if m.get('first_run_alarm') else 0
        R[r][0] += 1; R[r][1] += a
        n = int(os.path.basename(d).split('-')[1]) % 10
        if r >= 2:
            light = (r == 2 and n <= 3) or (r >= 3 and n <= 4)
            k = (r, light); L[k][0] += 1; L[k][1] += a
    for d in glob.glob(V + '/seeded/C*-*'):
        if not os.path.isdir(d): continue
        m = json.load(open(d + '/meta.json')); r = m.get('round', 1)
        fr = m.get('first_run')
        miss = (fr is not None and fr.get('exit') != 1) or (fr is None and bool(m.get('history')))
        S[r][0] += 1; S[r][1] += 1 if miss else 0
    out = ['| round | unseen refactorings | alarmed on arrival | of which light edits | unseen seeds | missed on arrival |', '|---|---|---|---|---|---|']
    for r in sorted(set(R) | set(S)):
        n, a = R.get(r, [0, 0]); sn, sm = S.get(r, [0, 0])
        li = L.get((r, True))
        out.append('| %d | %d | %d (%.0f%%) | %s | %d | %d (%.0f%%) |' % (r, n, a, 100.0 * a / n if n else 0, ('%d of %d' % (li[1], li[0])) if li else '—', sn, sm, 100.0 * sm / sn if sn else 0))
    return '\n'.join(out)


def left_open():
    out = ['| change | kind | verdict today | why it is left open |', '|---|---|---|---|']
    for sub, kind in (('refactors', 'behaviour-preserving refactoring'), ('seeded', 'property-breaking seed')):
        for d in sorted(glob.glob('%s/%s/C*-*' % (V, sub))):
            if not os.path.exists(d + '/meta.json'): continue
            m = json.load(open(d + '/meta.json'))
            if not m.get('left_open'): continue
            out.append('| %s | %s | %s | %s |' % (os.path.basename(d), kind, '**false alarm**' if sub == 'refactors' else '**missed**', m['left_open']))
    return '\n'.join(out)


def main():
    p = V + '/DESIGN.md'; s = open(p).read()
    for key, fn in (('SEEDS', seeds), ('REFACTORS', refactors), ('ROUNDS', rounds), ('OPEN', left_open)):
        a = '<!-- %s:BEGIN -->' % key; b = '<!-- %s:END -->' % key
        if a in s and b in s:
            s = s[:s.index(a) + len(a)] + '\n' + fn() + '\n' + s[s.index(b):]
    open(p, 'w').write(s)


if __name__ == '__main__':
    main()
