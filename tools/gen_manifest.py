#!/usr/bin/env python3
"""Regenerates /verif/MANIFEST.json from the table below and the rule modules present."""
import json, os, sys
V = os.path.dirname(os.path.dirname(os.path.abspath(__file__)))

CLAIMS = {
 'C01': ('missing variable => error on every state lookup; used-id set fed by every id field; every coefficient field and oneof arm consumed; unset oneof => 0; no term skipped; lookups fail only for a missing variable; every stored term contributes exactly once (no skip, no early exit, no state-dependent used-id set); validate-then-index and hand-written lockstep iteration decided on dataflow',
         'the numerical value (sign, operator, rounding) is not decided'),
 'C02': ('operator impl table floor and Output degree capacity for every Add/Sub/Mul/Neg impl; delegating impls delegate to the same operation with both operands; Function-level dispatch uses both payloads; term iterators read every coefficient and id field; merge constructors add equal keys into the retained element; scalar kernels keep every term (no keyed overwrite, no dedup); drop thresholds are constants <= 1e-9; Function-level dispatch decided per ordered kind pair; Sum/Product start from the identity; scalar-addition kernels and the four term iterators lose no stored term (nothing taken out of the operand\'s vectors, no keyed container filled without accumulation)',
         'coefficient-level exactness and epsilon dropping are not decided'),
 'C03': ('per-branch effect tables of the partial_evaluate kernels (fixed => folded, removed and reported; free => kept); instance-level coverage of objective / constraints / removed constraints / dependencies / substituted_value; returned set is the union; every term / entry is probed (no skip that leaves a fixed id in place); the returned set is the union of what the kernels reported and nothing else; substituted_value is only ever added to; SampleSet::get reads the recorded value first (C06.get); partial_evaluate removes no element of constraints / removed_constraints / decision_variables / decision_variable_dependency; re-decides C05.bound/check_bound (no refusal other than a submitted value outside its bound)',
         'commutation with evaluation as a numerical identity is not decided'),
 'C04': ('Instance::substitute rewrites all four function holders and records the replacement map; Function::substitute branch table; eval_dependencies has the empty => Ok and no-progress => Err exits and stores each value under its own id; the factor kept for an unreplaced id is x_id itself (read from the constructor body); the bound check looks at the submitted state; product / sum kernels of C02 and the dependency rows of C03.instance re-decided; values recovered by eval_dependencies are not rewritten afterwards in evaluate / evaluate_samples',
         'composition as a numerical identity is not decided'),
 'C05': ('bound check (1e-7) dominates success; both constraint lists evaluated and pushed once per iteration; flag dataflow (feasible_relaxed from active constraints only, feasible from both); tolerance constants and comparison shape in all feasibility rules; carry-over of metadata / removal reason; state completion calls; bound table built from every decision variable; removal reason carried verbatim; nearest-to-zero table; state arguments are the submitted state; kernels of C01, eval_dependencies of C04 and C03.instance/record re-decided; get_bounds builds each bound from the declared lower/upper or the binary default only; check_bound looks every state entry up and has no error of its own other than a submitted value outside its bound',
         'objective and constraint values are not decided'),
 'C06': ('sibling agreement evaluate <-> evaluate_samples; carry-over in SampledConstraint::get / SampleSet::get incl. which feasibility accessor feeds which flag; tables keyed from samples.ids(); compressed-value helpers keep the id list of the entry they read; bound check on the submitted state; used ids independent of the state; per-sample dependency recovery; objective table keyed by the submitted ids even when the objective is absent; C01 kernels, C04.deps/use, C05.state and the C03 dependency rows re-decided; the objective is evaluated on the function\'s own samples parameter',
         'equality of numbers is not decided'),
 'C07': ('field number, wire codec, label, oneof membership and enum numbers agree between the .proto schema, the prost-derived encode_raw/merge_field MIR of the compiled Rust and the descriptors embedded in *_pb2.py; pinned schema tags never removed or retyped; stored 2024 artifact decodes under the current schema; proto3 implicit defaults (the value the writer omits and the value an absent field is read as are the zero value, enum default numbered 0); legacy fallback accessor (C15.legacy); layer media types, plain decoding and unchanged bytes (C20.types / C20.kinds)',
         'round-trip equality rests on prost / protobuf-python (trusted)'),
 'C08': ('both validators called and propagated; duplicate detection consults the insert result with one set across active+removed; used-subset-of-defined guard; used-id coverage; typed conversion: required field => MissingField, unspecified enum => error, bound via Bound::new, hint ids checked, every field carried; unset bound never defaulted through the prost Default; every error of a hint / dependency field carries its context frame; used-id coverage in both directions (objective + active constraints for validation, removed constraints not read for ParametricInstance); enum tables decided per variant; Bound aggregates dominated by BoundError::check',
         'that the rule set is exactly the accepted language is not decided'),
 'C09': ('every input field consumed/carried; every input constraint (active and already removed) flows into removed_constraints; no active constraints; objective slice contains f, one parameter and g*g; fresh ids derive from max defined id + 1; tags reference the constraint / parameter id; no Err exit at all (C09.refusals); every decision variable carried; the squared factor is the own function of the constraint; weight tag derives from the constraint id only; C02 product / sum kernels re-decided',
         'the evaluation identity at arbitrary weights is not decided'),
 'C10': ('required-subset-of-given guard => error; partial evaluation applied to the objective and every active constraint with the given map; all fields carried, parameters: Some(given); From<Instance> carries all fields; every list field moved or rebuilt element by element without a skip (C10.carry field-complete); missing-parameter guard accepts exactly supersets; with_parameters has no error of its own other than the missing-parameter guard',
         'the numerical identity is not decided'),
 'C11': ('the three (PUBO) / four (QUBO) refusal guards dominate success with the right polarity; keys built only through the canonicalising constructors; zero filter present; every objective term reaches the map; no Err exit other than the stated refusals under their negated conditions; the compared id set derives from the objective only; diagonal / repeated keys accumulate; offset followed through every carry; a key built in place inside the exporter is accepted only when the canonical-pair clauses hold on that fragment (sorted, de-duplicated, 1 or 2 ids, ordered, other lengths refused)',
         'the exported numbers are not decided'),
 'C12': ('five error guards (unknown, non-integer, no bound, non-finite, empty) dominate the loop; errors and the single-integer return precede any push; pushed variables are binary / [0,1] / fresh id / tagged; loop bound from an f64->usize cast is guarded by a finiteness test; guards reject NaN; subscripts start with the encoded id; fresh ids after every defined id; coefficients / ids paired per bit; lookup of the variable is by id over the whole list; the id search compares every element of decision_variables',
         'that the coefficients cover exactly ceil(l)..floor(u) is not decided'),
 'C13': ('guard set of both slack functions incl. "is an inequality" (sibling agreement); fail-before-mutate; always-satisfied => relax and no new variable; infeasible => typed error; slack variable shape; coefficient derives from 1/a resp. -lower/upper-bound and the same value is returned; guards precede every modification of the instance (relax and push); get_bounds table (C05.bound); Add kernels (C02.kernel); every stored term reaches the interval of evaluate_bound; rounding tolerance of as_integer_bound is a constant; content_factor is taken of the constraint\'s own function',
         'feasible-set preservation on lattice points is not decided'),
 'C14': ('relax/restore move exactly one element between the two lists on every success path, nothing else of the instance is written, lookup failure precedes any mutation, reason stored; lookup index is an index of the list it removes from; failing paths leave both lists untouched; feasibility flags of evaluate and evaluate_samples (C05.flags/lists/rule, C06.samples) re-decided; relax/restore refuse only an id that is not in the list; re-decides C05.bound/check_bound',
         'consequence for feasibility flags follows from the C05 rules'),
 'C15': ('as_minimization_problem: early return on Minimize, else sense:=Minimize and objective:=-objective on the same path, nothing else written; best: the two sense branches compare with opposite argument order; accessor pairing and legacy-field fallback table; empty => error; selection replaces the incumbent iff strictly better under the sense (min_by / reduce); SampleSet::get flags through the accessors (C06.get/flags); scalar kernels negation goes through (C02) re-decided',
         'ties and NaN ordering are not decided'),
 'C17': ('keyword tables (rows, bounds, markers, sections, sense) contain the spec with error fallback; per-keyword effect table on the parsed tables; converter reads every parsed table incl. the objective row name; sign discipline per row type; kind/sense mappings; bound defaults; every (row, value) pair of a line processed; undeclared rows never skipped; generated RANGES row name checked against existing rows; loaders take no path-only branch; blank / comment lines skipped by trimmed content; objective constant sign',
         'that arbitrary files produce the right numbers is not decided'),
 'C18': ('writer dispatch literals equal the schema enum numbers; every keyword the writer can emit is accepted by the reader; non-linear => typed error naming the offender; a bound record is written on every path for every used variable; shared name prefixes; no partial write (io::Write::write only inside a completing loop); emitted names are prefix + id only; every section writer called in order (also through a table of functions); all of C17 re-decided for the read-back; only an exact zero is left out of RHS / column entries (sampled down to 1e-300); only integer columns may become binary on reading back',
         'numeric text round-trip of coefficients is not decided'),
 'C19': ('type-code / sense / var-type tables with error fallback; section dispatch per code; converter reads every parsed table; diagonal/off-diagonal distinction exists; sign discipline for the two sides; infinity threshold routed to the right list with the right sign; parse errors keep their line number; per-section index ranges and lengths; counts parsed as unsigned integers; tokens split from the whole line on whitespace only, names stored verbatim; listed coefficients reach the function unfiltered; both sides of every row emitted; counts are parsed as unsigned integers through helpers and Ok/Some wrappers; the <= 0 discriminant is compared by value',
         'numbers are not decided'),
 'C20': ('per layer kind: builder and reader use the same media-type function and message type, mismatch => error; media types distinct and equal to ARTIFACT.md; setter/getter of every annotation use the same key with the kind prefix; manifest type guard; unknown digest => error; get_manifest / get_layer / get_<kind> have no Err exit beyond the expected ones; annotations handed to add_layer unchanged; every matching layer kept by the list readers; a decode site is Message::decode or a fresh Default merged once',
         'byte-for-byte storage rests on ocipkg / prost (trusted)'),
}

NA = {
 'C16': 'interval enclosure is a statement about real arithmetic on the extended line (min/max choice, >= vs >, branch conditions of pow, floor vs ceil); none of it is visible in control-flow, dataflow or table shape, and deciding it needs execution or a solver, which is outside the static-analysis family (DESIGN.md §6)',
}

TECH = {
 'C07': 'static schema comparison: proto3 parser vs prost-derived encode_raw/merge_field MIR vs embedded pb2 descriptors',
}


def main():
    checks = []; na = []
    for i in range(1, 21):
        pid = 'C%02d' % i
        have = os.path.exists(os.path.join(V, 'engine', 'sa', 'rules', pid + '.py'))
        if pid in NA:
            na.append(dict(property_id=pid, reason=NA[pid])); continue
        if not have:
            na.append(dict(property_id=pid, reason='rule module not armed yet in this round (design in DESIGN.md §5 %s); no claim is made until the check exists' % pid)); continue
        text, note = CLAIMS[pid]
        checks.append(dict(
            property_id=pid,
            quick_cmd='./run check %s --tier quick' % pid,
            thorough_cmd='./run check %s --tier thorough' % pid,
            evidence_file='evidence/%s.json' % pid,
            replay_cmd_template='cat {path}',
            engine='sa',
            level_claimed=dict(category='other',
                               text='Static rule checking of necessary structural conditions on the type-checked MIR of the current tree, for all inputs that can take a path: ' + text + '.',
                               design_ref='DESIGN.md §5 ' + pid),
            level_note='Decides the listed structural clauses only; ' + note + '. Trusted: rustc nightly front end / MIR construction (the repository itself builds with stable), prost, ocipkg, std.',
            technique=TECH.get(pid, 'custom MIR dataflow / CFG / call-graph rules (rustc_private fact extractor + Python rule engine) over a normal form of the facts (helpers unknown to the pinned tree inlined, iterator chains and closures desugared to explicit loops), kernels of other properties the behaviour goes through re-decided (RELIES_ON), positive controls on every run'),
        ))
    m = dict(
        version=1,
        setup_cmd='./run setup',
        hooks=dict(guard='ommx_verif_unused', enable='none needed: the checks analyse the unmodified library (cargo +nightly check with a rustc_private wrapper)',
                   baseline_off_cmd='cd /repo && cargo nextest run --workspace --no-fail-fast --offline || cargo test --workspace --lib --bins --tests --no-fail-fast --offline',
                   source_commits=[], add_only=True),
        engines=[dict(name='factdrv', path='engine/factdrv', serves_properties=[c['property_id'] for c in checks], kind_free_text='rustc_private driver exporting mini-MIR, ADT, impl and const facts of crate ommx as JSON lines'),
                 dict(name='sa', path='engine/sa', serves_properties=[c['property_id'] for c in checks], kind_free_text='Python static-analysis engine: CFG (dominators, exits, loops), backward slices with callee summaries, call-graph cones, normal form (sa.normalize: helper inlining, iterator desugaring, jump threading), rule templates; schema comparison for C07'),
                 dict(name='controls', path='engine/controls', serves_properties=[c['property_id'] for c in checks], kind_free_text='fixture crate with seeded bad/good twins per rule template, analysed by the same driver on every run')],
        checks=checks,
        not_applicable=na,
        notes='All checks are static: no SDK code is executed. Exit 2 = checker failure (no verdict). Known findings: known_findings.json.',
    )
    with open(os.path.join(V, 'MANIFEST.json'), 'w') as fh:
        json.dump(m, fh, indent=1)
    print('checks:', [c['property_id'] for c in checks], 'not_applicable:', [x['property_id'] for x in na])


if __name__ == '__main__':
    main()
