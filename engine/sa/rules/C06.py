"""C06 — sample-set evaluation agrees with per-sample evaluation (DESIGN §5 C06)."""
from .common import *
from .feas import check_feasibility_rule

INST = 'v1::Instance'; DV = 'v1::DecisionVariable'; CON = 'v1::Constraint'; RC = 'v1::RemovedConstraint'
SC = 'v1::SampledConstraint'; EC = 'v1::EvaluatedConstraint'; SS = 'v1::SampleSet'
TOL = 1e-6


def root_local(body, operand):
    fs, root, calls = T.access_path(body, operand, transparent=T.TRANSPARENT_NOCLONE)
    return root


def evaluate_samples_rules(ctx, body):
    R = 'C06.samples'
    aggs = find_aggregates(body, SS)
    if len(aggs) != 1:
        ctx.bad(R + '/aggregate', 'ANCHOR', body.name, 'expected one SampleSet aggregate, found %d' % len(aggs)); return
    sbi, ss = aggs[0]
    cover(ctx, 'C06.cover/evaluate_samples', body, INST, exempt=('description', 'parameters', 'constraint_hints'))
    # ---- the two flag maps
    relaxed_l = root_local(body, agg_field_operand(ss, 'feasible_relaxed'))
    feas_l = root_local(body, agg_field_operand(ss, 'feasible'))
    ctx.check(relaxed_l is not None and feas_l is not None and relaxed_l != feas_l and 'HashMap<u64, bool>' in body.locals[relaxed_l] and 'HashMap<u64, bool>' in body.locals[feas_l],
              R + '/flags/two-maps', 'T-CARRY', body.name, 'SampleSet.feasible_relaxed / feasible are not two distinct maps', body.site(sbi))
    if relaxed_l is None or feas_l is None: return
    # keys: initialised from samples.ids() with `true`
    rdefs = [d for d in body.defs_of(relaxed_l) if d[0] == 'call']
    okinit = False
    for k, bi, t in rdefs:
        ex = T.expr(body, {'k': 'copy', 'pl': {'l': relaxed_l, 'p': []}}, depth=8)
        ids_call = [x for x in T.expr_walk(ex) if x[0] == 'call' and x[1] == 'ids' and 'v1::Samples' in x[2]]
        s = ctx.S.backslice(body, [relaxed_l], depth=2)
        trues = False
        for cn in s.closures:
            cb = ctx.F.bodies.get(cn)
            if cb is None or cb.parent != body.name: continue
            for b2, st in cb.stmts():
                if st['dst']['l'] == 0 and st['rv']['k'] == 'agg' and st['rv']['adt'] == 'tuple' and any(o['k'] == 'const' and o['v'] == 'true' for o in st['rv']['ops']): trues = True
        okinit = bool(ids_call) and trues and T.strip_wrappers(ids_call[0][3][0]) == ('place', 2, [])
    ctx.check(okinit, 'C06.keys/relaxed-from-sample-ids', 'T-CARRY', body.name, 'feasible_relaxed is not initialised as {id: true for id in samples.ids()}', body.site())
    fdefs = [d for d in body.defs_of(feas_l) if d[0] == 'call']
    clone = [c for c in body.calls if c.item == 'clone' and c.dst['l'] == feas_l and root_local(body, c.args[0]) == relaxed_l]
    ctx.check(len(clone) == 1 and len(fdefs) == 1, 'C06.keys/feasible-is-clone-of-relaxed', 'T-CARRY', body.name, 'feasible is not a clone of feasible_relaxed', body.site())
    # ---- the two constraint loops
    pushes = [c for c in body.calls if c.item == 'push' and 'Vec::<v1::SampledConstraint>::push' in c.name]
    inserts = [c for c in body.calls if c.item == 'insert' and 'HashMap::<u64, bool>::insert' in c.name]
    loops = {}
    for field, ty, target in (('constraints', CON, relaxed_l), ('removed_constraints', RC, feas_l)):
        ls = [l for l in loops_over(ctx, body, INST, field) if any(c.bb in l[4] for c in body.calls if c.item == 'evaluate_samples' and c.is_(trait='Evaluate', self_ty=ty + '$'))]
        ctx.check(len(ls) == 1, R + '/%s/loop' % field, 'T-LOOPMUST', body.name, 'expected one evaluate_samples loop over self.%s, found %d' % (field, len(ls)), body.site())
        if len(ls) != 1: continue
        lo = ls[0]; loops[field] = lo
        nextc, header, some_bb, none_bb, blocks = lo
        ev = [c for c in body.calls if c.bb in blocks and c.item == 'evaluate_samples' and c.is_(trait='Evaluate', self_ty=ty + '$')]
        for c in ev:
            ctx.check(nextc.dst['l'] in ctx.S.slice_operand(body, c.args[0]).locals and root_local(body, c.args[1]) == 2, R + '/%s/evaluate-item' % field, 'T-CARRY', body.name, 'evaluate_samples is not applied to (loop item, samples)', body.site(c.bb))
            errflow_calls(ctx, R + '/%s/error-propagates' % field, body, [c], 'constraint evaluation')
        loop_must(ctx, R + '/%s/evaluate-every' % field, body, lo, lambda c: c in ev, 'evaluate_samples')
        ps = [c for c in pushes if c.bb in blocks]
        ctx.check(len(ps) == 1, R + '/%s/one-push' % field, 'T-LOOPMUST', body.name, 'expected one push per iteration, found %d' % len(ps), body.site(nextc.bb))
        loop_must(ctx, R + '/%s/push-every' % field, body, lo, lambda c: c in ps, 'constraints.push')
        for c in ps:
            s = ctx.S.slice_operand(body, c.args[1])
            ctx.check(any(e in s.call_objs for e in ev), R + '/%s/push-is-result' % field, 'T-CARRY', body.name, 'pushed value is not the evaluation result', body.site(c.bb))
        ctx.check(all(body.dominates(header, e) for e in body.strict_ok_exits()), R + '/%s/dominates' % field, 'T-MUSTCALL', body.name, 'loop does not dominate the Ok-exit', body.site(nextc.bb))
        # feasibility of this list goes into the right map, with the tolerance, only `false` is written, only for infeasible samples
        fc = [c for c in body.calls if c.bb in blocks and c.item == 'is_feasible' and c.path.endswith('SampledConstraint>::is_feasible')]
        ctx.check(len(fc) == 1, R + '/%s/is_feasible' % field, 'T-LOOPMUST', body.name, 'expected one is_feasible per iteration, found %d' % len(fc), body.site(nextc.bb))
        for c in fc:
            const_arg(ctx, R + '/%s/tolerance' % field, body, c, 1, TOL, 'feasibility tolerance', tol=1e-9)
            rs = ctx.S.slice_operand(body, c.args[0])
            ctx.check(any(e in rs.call_objs for e in ev), R + '/%s/tests-this-iteration' % field, 'T-CARRY', body.name, 'is_feasible is not applied to this iteration\'s result', body.site(c.bb))
            errflow_calls(ctx, R + '/%s/is_feasible-error' % field, body, [c], 'is_feasible')
            loop_must(ctx, R + '/%s/is_feasible-every' % field, body, lo, lambda x: x is c, 'is_feasible')
        ins = [c for c in inserts if c.bb in blocks]
        ctx.check(len(ins) == 1, R + '/%s/one-insert' % field, 'T-LOOPMUST', body.name, 'expected one flag update per iteration, found %d' % len(ins), body.site(nextc.bb))
        for c in ins:
            ctx.check(root_local(body, c.args[0]) == target, R + '/%s/insert-target' % field, 'T-CARRY', body.name,
                      'infeasibility of self.%s is recorded in the wrong map' % field, body.site(c.bb))
            ctx.check(c.args[2]['k'] == 'const' and c.args[2]['v'] == 'false', R + '/%s/insert-false' % field, 'T-CONST', body.name, 'flag is overwritten with something other than `false`', body.site(c.bb))
            # inner loop over the per-sample result, insert under `!feasible_` keyed by the sample id of the same item
            inner = [l for l in T.for_loops(body) if c.bb in l[4] and l[1] != header and set(l[4]) < set(blocks)]
            okk = False
            for il in inner:
                itl = il[0].dst['l']
                ks = ctx.S.slice_operand(body, c.args[1])
                its = ctx.S.slice_operand(body, il[0].args[0])
                flag_sw = []
                for bi in il[4]:
                    t = body.blocks[bi]['term']
                    if t['k'] == 'switch' and t['d']['k'] != 'const' and body.locals[t['d']['pl']['l']] == 'bool':
                        if T.access_path(body, t['d'])[1] == itl:
                            m = {v: tg for v, tg in t['ts']}
                            flag_sw.append((m.get(0, None), t['else']))
                for ft, tt in flag_sw:
                    if ft is None: continue
                    fr = body.reach([ft], stop={il[1]}); tr = body.reach([tt], stop={il[1]})
                    if c.bb in fr and c.bb not in tr and T.must_pass(body, ft, {il[1]}, {c.bb}): okk = True
                okk = okk and itl in ks.locals and any(x in its.call_objs for x in fc)
            ctx.check(okk, R + '/%s/insert-only-infeasible' % field, 'T-BRANCHFX', body.name, 'the flag of a sample is not cleared exactly when that sample is infeasible', body.site(c.bb))
    ctx.check(len(pushes) == 2 and len(inserts) == 2, R + '/two-lists', 'T-LOOPMUST', body.name, 'expected 2 pushes / 2 flag updates, found %d / %d' % (len(pushes), len(inserts)), body.site())
    if 'constraints' in loops and clone:
        lo = loops['constraints']
        ctx.check(clone[0].bb not in lo[4] and body.dominates(lo[1], clone[0].bb), 'C06.keys/feasible-cloned-after-active-loop', 'T-BRANCHFX', body.name, 'feasible is not cloned after the active-constraint loop', body.site(clone[0].bb))
        if 'removed_constraints' in loops:
            ctx.check(body.dominates(clone[0].bb, loops['removed_constraints'][1]), 'C06.keys/feasible-cloned-before-removed-loop', 'T-BRANCHFX', body.name, 'feasible is cloned after the removed loop', body.site(clone[0].bb))
    cs = carry_field(ctx, R + '/constraints-field', body, ss, 'constraints', need_fields=[(INST, 'constraints'), (INST, 'removed_constraints')], site=body.site(sbi))
    if cs is not None:
        ctx.check(all(p in cs.call_objs for p in pushes), R + '/constraints-field-is-the-list', 'T-CARRY', body.name, 'SampleSet.constraints is not the list both loops push to', body.site(sbi))
    # ---- objective
    ex = T.expr(body, agg_field_operand(ss, 'objectives'), depth=14)
    okobj = any(x[0] == 'call' and x[1] == 'evaluate_samples' and 'v1::Function as evaluate::Evaluate' in x[2] and T.expr_has_call(x[3][0], 'objective') and T.strip_wrappers(x[3][1]) == ('place', 2, []) for x in T.expr_walk(ex))
    ctx.check(okobj and ex[0] == 'agg' and ex[1].endswith('Option::Some') and [f for a, f in T.own_fields(ex[2][0]) if a == 'tuple'][-1:] == ['0'], R + '/objective', 'T-CARRY', body.name,
              'SampleSet.objectives is not Some(`.0` of self.objective().evaluate_samples(samples))', body.site(sbi))
    errflow_calls(ctx, R + '/objective/error', body, [c for c in body.calls if c.item == 'evaluate_samples' and 'v1::Function as evaluate::Evaluate' in c.name], 'objective evaluation')
    carry_field(ctx, R + '/sense', body, ss, 'sense', need_fields=[(INST, 'sense')], site=body.site(sbi))
    ctx.check(T.access_path(body, agg_field_operand(ss, 'sense'))[0] == [(INST, 'sense')], R + '/sense-direct', 'T-CARRY', body.name, 'SampleSet.sense is not self.sense', body.site(sbi))
    # ---- decision variable values: dependencies evaluated and omitted variables completed for every state
    dvs = carry_field(ctx, R + '/decision_variables', body, ss, 'decision_variables', need_fields=[(INST, 'decision_variables')], need_calls=[r'impl v1::Samples>::transpose'], need_params=[2], site=body.site(sbi))
    sl = [l for l in T.for_loops(body) if ctx.S.slice_operand(body, l[0].args[0]).has_call(r'impl v1::Samples>::states_mut')]
    ctx.check(len(sl) == 1, 'C06.sibling/states-loop', 'T-LOOPMUST', body.name, 'expected one loop over samples.states_mut(), found %d' % len(sl), body.site())
    tr = [c for c in body.calls if c.item == 'transpose' and c.path.endswith('Samples>::transpose')]
    for lo in sl:
        nextc, header, some_bb, none_bb, blocks = lo
        ed = [c for c in body.calls if c.bb in blocks and c.item == 'eval_dependencies']
        ctx.check(len(ed) == 1, 'C06.sibling/eval_dependencies', 'T-LOOPMUST', body.name, 'eval_dependencies is not applied inside the state loop', body.site(nextc.bb))
        for c in ed:
            ctx.check(ctx.S.slice_operand(body, c.args[0]).has_field(INST, 'decision_variable_dependency') and nextc.dst['l'] in ctx.S.slice_operand(body, c.args[1]).locals,
                      'C06.sibling/eval_dependencies/args', 'T-CARRY', body.name, 'not (dependency map, this state)', body.site(c.bb))
            errflow_calls(ctx, 'C06.sibling/eval_dependencies/error', body, [c], 'eval_dependencies')
            loop_must(ctx, 'C06.sibling/eval_dependencies/every-state', body, lo, lambda x: x is c, 'eval_dependencies')
        # completion with nearest_to_zero (sibling of Instance::evaluate)
        vac = [c for c in body.calls if c.bb in blocks and c.item == 'insert' and 'VacantEntry' in c.name]
        okfill = False
        for c in vac:
            vex = T.expr(body, c.args[1], depth=14)
            inner = [l for l in loops_over(ctx, body, INST, 'decision_variables') if c.bb in l[4] and set(l[4]) < set(blocks)]
            ent = ctx.S.slice_operand(body, c.args[0])
            keyed = any(x.item == 'entry' and (DV, 'id') in T.access_path(body, x.args[1])[0] and nextc.dst['l'] in ctx.S.slice_operand(body, x.args[0]).locals for x in ent.call_objs)
            if T.expr_has_call(vex, 'nearest_to_zero') and any(re.search(r"TryFrom<&('\w+ )?v1::DecisionVariable>>::try_from|TryInto<bound::Bound>>::try_into", x[2]) for x in T.expr_calls(vex)) and inner and keyed:
                il = inner[0]
                okfill = il[0].dst['l'] in ctx.S.slice_operand(body, c.args[1]).locals and T.must_pass(body, some_bb, {header}, {il[1]}) and (not ed or body.dominates(ed[0].bb, il[1]))
        ctx.check(okfill, 'C06.sibling/fill-nearest_to_zero', 'T-SIBLING', body.name,
                  'omitted irrelevant variables are not completed with Bound::nearest_to_zero for every state (Instance::evaluate does this)', body.site(nextc.bb))
        for c in tr:
            ctx.check(body.dominates(none_bb, c.bb) and c.bb not in blocks, 'C06.sibling/transpose-after-completion', 'T-MUSTCALL', body.name, 'values are transposed before the states are completed', body.site(c.bb))
            ctx.check(root_local(body, c.args[0]) == root_local(body, [x for x in body.calls if x.item == 'states_mut'][0].args[0]), 'C06.sibling/transpose-same-samples', 'T-CARRY', body.name, 'transpose is applied to other samples than the completed ones', body.site(c.bb))
    ctx.check(len(tr) == 1, 'C06.sibling/transpose', 'T-MUSTCALL', body.name, 'expected one transpose, found %d' % len(tr), body.site())
    # per-variable samples: transposed.remove(&d.id) with the variable itself
    for cn in (dvs.closures if dvs is not None else ()):
        cb = ctx.F.bodies.get(cn)
        if cb is None or cb.parent != body.name: continue
        sa = find_aggregates(cb, 'v1::SampledDecisionVariable')
        for bi, st in sa:
            dvx = T.expr(cb, agg_field_operand(st, 'decision_variable'))
            smx = T.expr(cb, agg_field_operand(st, 'samples'), depth=12)
            rm = [x for x in T.expr_walk(smx) if x[0] == 'call' and x[1] in ('remove', 'get')]
            okk = bool(rm) and (DV, 'id') in T.expr_fields(rm[0][3][1]) and dvx[0] == 'agg' and dvx[1].endswith('Option::Some')
            ctx.check(okk, R + '/decision_variables/keyed-by-own-id', 'T-CARRY', cb.name, 'samples of a variable are not looked up under its own id', cb.site(bi))


def constraint_rules(ctx):
    R = 'C06.constraint'
    # Constraint::evaluate_samples
    b = ctx.method(R + '/evaluate_samples/anchor', CON, 'evaluate_samples', trait='Evaluate')
    if b is not None:
        aggs = find_aggregates(b, SC)
        ctx.check(len(aggs) == 1, R + '/evaluate_samples/aggregate', 'T-CARRY', b.name, 'expected one SampledConstraint aggregate', b.site())
        for bi, st in aggs:
            for f in ('id', 'equality', 'name', 'subscripts', 'parameters', 'description'):
                fs, root, calls = T.access_path(b, agg_field_operand(st, f))
                ctx.check(root == 1 and fs == [(CON, f)], R + '/evaluate_samples/carry/' + f, 'T-CARRY', b.name, 'SampledConstraint.%s is not self.%s' % (f, f), b.site(bi))
            ex = T.expr(b, agg_field_operand(st, 'evaluated_values'), depth=14)
            okv = any(x[0] == 'call' and x[1] == 'evaluate_samples' and 'v1::Function as evaluate::Evaluate' in x[2] and T.expr_has_call(x[3][0], 'function') and T.strip_wrappers(x[3][1]) == ('place', 2, []) for x in T.expr_walk(ex))
            ctx.check(okv, R + '/evaluate_samples/values', 'T-CARRY', b.name, 'evaluated_values is not self.function().evaluate_samples(samples)', b.site(bi))
            fs_ = slice_op(ctx, b, agg_field_operand(st, 'feasible'))
            ctx.check(fs_.has_call(r'impl v1::SampledValues>::iter') and any(cn.endswith('evaluate_samples::{closure#0}') or True for cn in fs_.closures) and fs_.has_call('v1::Function as evaluate::Evaluate>::evaluate_samples'),
                      R + '/evaluate_samples/feasible-from-values', 'T-CARRY', b.name, 'per-sample feasibility does not derive from the evaluated values', b.site(bi))
            rr = T.expr(b, agg_field_operand(st, 'removed_reason'))
            ctx.check(rr[0] == 'agg' and rr[1].endswith('Option::None'), R + '/evaluate_samples/no-reason', 'T-CONST', b.name, 'active constraint gets a removal reason', b.site(bi))
        errflow_calls(ctx, R + '/evaluate_samples/error', b, [c for c in b.calls if c.item == 'evaluate_samples'], 'function evaluation')
        # the third copy of the feasibility rule lives in the closure
        cls = [cb for cb in ctx.F.closures_of(b) if any(c.item in ('eq', 'ne') and re.search(r'v1::Equality$', c.self_ty or '') for c in cb.calls)]
        ctx.check(len(cls) == 1, 'C06.rule/Constraint::evaluate_samples/closure', 'T-SIBLING', b.name, 'feasibility closure not found', b.site())
        for cb in cls:
            ctx.fn(cb)
            check_feasibility_rule(ctx, 'C06.rule/Constraint::evaluate_samples', cb, TOL)
            # key of the produced pair is the sample id of the same item
            for e, k, rst in cb.ret_assignments():
                if k == 'ok':
                    ex = T.expr(cb, rst['rv']['ops'][0])
                    if ex[0] == 'agg' and ex[1] == 'tuple':
                        ctx.check(ex[2][0][0] == 'place' and ex[2][0][1] == 2, 'C06.rule/Constraint::evaluate_samples/key', 'T-CARRY', cb.name, 'pair key is not the sample id of the item', cb.site(e))
    # RemovedConstraint::evaluate_samples
    b = ctx.method(R + '/removed/anchor', RC, 'evaluate_samples', trait='Evaluate')
    if b is not None:
        ce = [c for c in b.calls if c.item == 'evaluate_samples' and re.search(r'<v1::Constraint as evaluate::Evaluate>::evaluate_samples', c.name)]
        ctx.check(len(ce) == 1, R + '/removed/delegates', 'T-MUSTCALL', b.name, 'does not evaluate the wrapped constraint', b.site())
        for c in ce:
            ctx.check((RC, 'constraint') in T.access_path(b, c.args[0])[0] and T.access_path(b, c.args[1])[1] == 2, R + '/removed/args', 'T-CARRY', b.name, 'not (self.constraint, samples)', b.site(c.bb))
            errflow_calls(ctx, R + '/removed/error', b, [c], 'constraint evaluation')
        for f in ('removed_reason', 'removed_reason_parameters'):
            ws = [(bi, st) for bi, st in b.stmts() if st['dst']['p'] and fields_of_place(st['dst'])[-1:] == [(SC, f)]]
            ok = False
            for bi, st in ws:
                ex = T.expr(b, st['rv']['ops'][0])
                if (RC, f) in T.expr_fields(ex) and all(b.dominates(bi, e) for e in b.strict_ok_exits()):
                    ok = f != 'removed_reason' or (ex[0] == 'agg' and ex[1].endswith('Option::Some'))
            ctx.check(ok, R + '/removed/' + f, 'T-CARRY', b.name, 'SampledConstraint.%s is not set from self.%s' % (f, f), b.site())
    # SampledConstraint::is_feasible (second copy of the rule)
    b = ctx.method('C06.rule/SampledConstraint::is_feasible/anchor', SC, 'is_feasible')
    if b is not None:
        check_feasibility_rule(ctx, 'C06.rule/SampledConstraint::is_feasible', b, 'given')
        opt = [c for c in b.calls if c.item == 'as_ref' and 'SampledValues' in c.name]
        errflow_calls(ctx, 'C06.rule/SampledConstraint::is_feasible/missing-values', b, opt, 'missing evaluated_values')
    # SampledConstraint::get
    b = ctx.method(R + '/get/anchor', SC, 'get')
    if b is not None:
        aggs = find_aggregates(b, EC)
        ctx.check(len(aggs) == 1, R + '/get/aggregate', 'T-CARRY', b.name, 'expected one EvaluatedConstraint aggregate', b.site())
        for bi, st in aggs:
            for f in ('id', 'equality', 'used_decision_variable_ids', 'name', 'subscripts', 'parameters', 'description', 'removed_reason', 'removed_reason_parameters'):
                fs, root, calls = T.access_path(b, agg_field_operand(st, f))
                ctx.check(root == 1 and fs == [(SC, f)], R + '/get/carry/' + f, 'T-CARRY', b.name, 'EvaluatedConstraint.%s is not self.%s (%s)' % (f, f, fs), b.site(bi))
            ex = T.expr(b, agg_field_operand(st, 'evaluated_value'), depth=14)
            gets = [x for x in T.expr_walk(ex) if x[0] == 'call' and x[1] == 'get' and 'SampledValues' in x[2]]
            ctx.check(bool(gets) and (SC, 'evaluated_values') in T.expr_fields(gets[0][3][0]) and T.strip_wrappers(gets[0][3][1]) == ('place', 2, []), R + '/get/value', 'T-CARRY', b.name,
                      'evaluated_value is not self.evaluated_values.get(sample_id)', b.site(bi))
        g = [c for c in b.calls if c.item == 'get' and c.path.endswith('SampledValues>::get')]
        errflow_calls(ctx, R + '/get/missing-sample-is-error', b, g, 'missing sample value')
        errflow_calls(ctx, R + '/get/missing-values-is-error', b, [c for c in b.calls if c.item == 'as_ref' and 'SampledValues' in c.name], 'missing evaluated_values')
        cover(ctx, 'C06.cover/SampledConstraint::get', b, SC, exempt=('feasible',))


def get_rules(ctx):
    R = 'C06.get'
    b = ctx.method(R + '/anchor', SS, 'get')
    if b is None: return
    cover(ctx, 'C06.cover/SampleSet::get', b, SS, exempt=('sense',))
    aggs = find_aggregates(b, 'v1::Solution')
    ctx.check(len(aggs) == 1, R + '/aggregate', 'T-CARRY', b.name, 'expected one Solution aggregate', b.site())
    for bi, st in aggs:
        # objective <- objectives.get(sample_id)
        ex = T.expr(b, agg_field_operand(st, 'objective'), depth=14)
        gets = [x for x in T.expr_walk(ex) if x[0] == 'call' and x[1] == 'get' and 'SampledValues' in x[2]]
        ctx.check(bool(gets) and T.expr_has_call(gets[0][3][0], 'objectives') and T.strip_wrappers(gets[0][3][1]) == ('place', 2, []), R + '/objective', 'T-CARRY', b.name,
                  'objective is not self.objectives()?.get(sample_id)', b.site(bi))
        # flags: which accessor feeds which
        for field, acc, other in (('feasible_relaxed', 'feasible_relaxed', 'feasible_unrelaxed'), ('feasible', 'feasible_unrelaxed', 'feasible_relaxed')):
            ex = T.expr(b, agg_field_operand(st, field), depth=16)
            names = [x[1] for x in T.expr_calls(ex)]
            gets = [x for x in T.expr_calls(ex) if x[1] == 'get' and 'HashMap' in x[2]]
            ok = acc in names and other not in names and bool(gets) and T.expr_has_call(gets[0][3][0], acc) and ('place', 2, []) in [T.strip_wrappers(y) for y in T.expr_walk(gets[0][3][1])]
            ctx.check(ok, R + '/flags/' + field, 'T-CARRY', b.name, 'Solution.%s is not *self.%s().get(&sample_id) (calls: %s)' % (field, acc, names), b.site(bi))
        ec = carry_field(ctx, R + '/evaluated_constraints', b, st, 'evaluated_constraints', need_fields=[(SS, 'constraints')], need_calls=[r'impl v1::SampledConstraint>::get'], need_params=[2], site=b.site(bi))
        carry_field(ctx, R + '/decision_variables', b, st, 'decision_variables', need_fields=[(SS, 'decision_variables'), ('v1::SampledDecisionVariable', 'decision_variable')], site=b.site(bi))
        carry_field(ctx, R + '/state', b, st, 'state', need_fields=[('v1::SampledDecisionVariable', 'samples')], need_params=[2], site=b.site(bi))
    # every missing entry is an error
    for c in b.calls:
        if c.item == 'get' and ('HashMap::<u64, bool>' in c.name or c.path.endswith('SampledValues>::get')) and b.locals[c.dst['l']].startswith('std::option::Option'):
            ex_uses = b.uses.get(c.dst['l'], ())
            # the one inside the state loop feeds and_then / match; handled below
            if any(k == 'call' and x.item in ('with_context', 'context', 'ok_or', 'ok_or_else') for k, bi, x in ex_uses):
                errflow_calls(ctx, R + '/missing-is-error', b, [c], 'missing entry for the sample')
    errflow_calls(ctx, R + '/constraint-error', b, [c for c in b.calls if c.item == 'collect' and 'Result<std::vec::Vec<v1::EvaluatedConstraint>' in c.name], 'SampledConstraint::get error')
    # state value: substituted value first, else the sampled value, else error
    loops = loops_over(ctx, b, SS, 'decision_variables')
    ctx.check(len(loops) == 1, R + '/state/loop', 'T-LOOPMUST', b.name, 'expected one loop over self.decision_variables', b.site())
    for lo in loops:
        nextc, header, some_bb, none_bb, blocks = lo
        ins = [c for c in b.calls if c.bb in blocks and c.item == 'insert' and 'HashMap::<u64, f64>::insert' in c.name]
        tests = [t for t in option_field_tests(b, DV, 'substituted_value') if t[0] in blocks]
        ctx.check(len(tests) == 1 and len(ins) == 2, R + '/state/substituted-first', 'T-BRANCHFX', b.name, 'expected `if let Some(v) = substituted_value {..} else if let Some(v) = sample {..}`', b.site(nextc.bb))
        if len(tests) == 1 and len(ins) == 2:
            sb, some_t, none_t = tests[0]
            sr = b.reach([some_t], stop={header}) - b.reach([none_t], stop={header}); nr = b.reach([none_t], stop={header}) - b.reach([some_t], stop={header})
            a = [c for c in ins if c.bb in sr]; o = [c for c in ins if c.bb in nr]
            ok = len(a) == 1 and len(o) == 1
            if ok:
                ok = any(f == 'substituted_value' for x, f in T.expr_fields(T.expr(b, a[0].args[2]))) and ctx.S.slice_operand(b, o[0].args[2]).has_call(r'impl v1::SampledValues>::get') and 2 in ctx.S.slice_operand(b, o[0].args[2]).params \
                     and ('v1::SampledDecisionVariable', 'samples') in [(x, f) for x, f in ctx.S.slice_operand(b, o[0].args[2]).fields]
                for c in a + o:
                    ok = ok and (DV, 'id') in T.access_path(b, c.args[1])[0]
            ctx.check(ok, R + '/state/table', 'T-BRANCHFX', b.name, 'state value is not {substituted_value if set, else samples.get(sample_id)} keyed by the variable id', b.site(nextc.bb))
            # neither => error
            errs = b.err_exits()
            via = {c.bb for c in ins}
            ctx.check(T.must_pass(b, some_bb, errs, via) is False and bool(b.reach([none_t], stop={header}) & errs), R + '/state/missing-is-error', 'T-ERRFLOW', b.name, 'a variable without any value is not an error', b.site(nextc.bb))
            ctx.check(T.must_pass(b, some_bb, {header}, via), R + '/state/every-variable', 'T-LOOPMUST', b.name, 'a variable can be skipped without a value', b.site(nextc.bb))


def compress_rules(ctx):
    R = 'C06.compress'
    # Samples::map: each entry -> value of that entry's state, with that entry's ids
    b = ctx.method(R + '/map/anchor', 'v1::Samples', 'map')
    if b is not None:
        cls = ctx.F.closures_of(b)
        ok = False
        for cb in cls:
            for bi, st in find_aggregates(cb, 'v1::sampled_values::SampledValuesEntry'):
                vx = T.expr(cb, agg_field_operand(st, 'value'), depth=14); ix = T.expr(cb, agg_field_operand(st, 'ids'), depth=8)
                vf = T.expr_fields(vx); idf = T.expr_fields(ix)
                ok = ('v1::samples::SamplesEntry', 'state') in vf and ('v1::samples::SamplesEntry', 'ids') in idf and any(x[0] == 'place' and x[1] == 2 for x in T.expr_walk(vx)) and any(x[0] == 'place' and x[1] == 2 for x in T.expr_walk(ix))
                ctx.fn(cb)
        ctx.check(ok, R + '/map/entry', 'T-CARRY', b.name, 'SampledValuesEntry is not {value: f(entry.state), ids: entry.ids} of the same entry', b.site())
        s = ctx.S.backslice(b, [0])
        restr = sorted({x.item for x in s.call_objs if x.item in RESTRICTING and 'Iterator' in (x.trait or '')})
        ctx.check(s.has_field('v1::Samples', 'entries') and not restr, R + '/map/all-entries', 'T-LOOPMUST', b.name, 'map does not visit every entry %s' % restr, b.site())
    # SampledValues::get
    b = ctx.method(R + '/get/anchor', 'v1::SampledValues', 'get')
    if b is not None:
        cont = [c for c in b.calls if c.item == 'contains']
        okk = False
        for c in cont:
            fs = T.access_path(b, c.args[0])[0]
            key = T.strip_wrappers(T.expr(b, c.args[1]))
            for g in T.guards_from_call(b, c):
                tr = b.reach([g.true_bb])
                for e, k, rst in b.ret_assignments():
                    if e in tr and k == 'ok' or (e in tr and k in ('ok', 'val')):
                        vx = T.expr(b, rst['rv']['ops'][0])
                        if ('v1::sampled_values::SampledValuesEntry', 'value') in T.expr_fields(vx) and ('v1::sampled_values::SampledValuesEntry', 'ids') in fs and key == ('place', 2, []):
                            # same entry: value and ids are fields of the same base expression
                            def base_of(e, field):
                                for x in T.expr_walk(e):
                                    if x[0] in ('proj', 'place') and x[2] and x[2][-1][1] == field:
                                        return str((x[0], x[1], x[2][:-1]))
                                return None
                            bv = base_of(vx, 'value'); bi_ = base_of(T.expr(b, c.args[0]), 'ids')
                            okk = bv is not None and bv == bi_
        ctx.check(okk, R + '/get/value-of-matching-entry', 'T-BRANCHFX', b.name, 'get does not return the value of the entry whose ids contain the sample id', b.site())
        nones = [e for e, k, rst in b.ret_assignments() if k == 'none']
        ctx.check(bool(nones), R + '/get/none-when-absent', 'T-BRANCHFX', b.name, 'no None result for an unknown sample id', b.site())
        lo = loops_over(ctx, b, 'v1::SampledValues', 'entries')
        ctx.check(len(lo) == 1, R + '/get/all-entries', 'T-LOOPMUST', b.name, 'expected one loop over entries', b.site())
    # SampledValues::iter: (id, value) of the same entry
    b = ctx.method(R + '/iter/anchor', 'v1::SampledValues', 'iter')
    if b is not None:
        ok = False
        for cb in [x for x in ctx.F.bodies.values() if x.kind == 'closure' and x.parent == b.name]:
            for bi, st in cb.stmts():
                if st['dst']['l'] == 0 and st['rv']['k'] == 'agg' and st['rv']['adt'] == 'tuple' and len(st['rv']['ops']) == 2:
                    vx = T.expr(cb, st['rv']['ops'][1])
                    if ('v1::sampled_values::SampledValuesEntry', 'value') in T.expr_fields(vx): ok = True
        s = ctx.S.backslice(b, [0])
        ctx.check(ok and s.has_field('v1::sampled_values::SampledValuesEntry', 'ids') and s.has_field('v1::SampledValues', 'entries'), R + '/iter/pairs', 'T-CARRY', b.name, 'iter does not yield (id, value-of-that-entry)', b.site())
    # Samples::ids / iter / transpose
    b = ctx.method(R + '/ids/anchor', 'v1::Samples', 'ids')
    if b is not None:
        s = ctx.S.backslice(b, [0])
        restr = sorted({x.item for x in s.call_objs if x.item in RESTRICTING and 'Iterator' in (x.trait or '')})
        ctx.check(s.has_field('v1::Samples', 'entries') and s.has_field('v1::samples::SamplesEntry', 'ids') and not restr, R + '/ids/all', 'T-CARRY', b.name, 'ids() does not enumerate the ids of every entry', b.site())
    b = ctx.method(R + '/transpose/anchor', 'v1::Samples', 'transpose')
    if b is not None:
        pu = [c for c in b.calls if c.item == 'push' and 'Vec::<u64>::push' in c.name]
        ctx.check(len(pu) == 1, R + '/transpose/push', 'T-LOOPMUST', b.name, 'expected one push of the sample id', b.site())
        for c in pu:
            rs = ctx.S.slice_operand(b, c.args[0]); vs = ctx.S.slice_operand(b, c.args[1])
            loops = T.for_loops(b)
            inner = [l for l in loops if ctx.S.slice_operand(b, l[0].args[0]).has_field('v1::State', 'entries') and c.bb in l[4]]
            outer = [l for l in loops if c.bb in l[4] and l not in inner and ctx.S.slice_operand(b, l[0].args[0]).has_call(r'impl v1::Samples>::iter')]
            ok = len(outer) == 1 and len(inner) == 1 and c.bb in outer[0][4]
            if ok:
                ents = [x for x in rs.call_objs if x.item == 'entry']
                keys = [T.expr(b, x.args[1]) for x in ents]
                ok = len(ents) == 2 and inner[0][0].dst['l'] in rs.locals and outer[0][0].dst['l'] in vs.locals and inner[0][0].dst['l'] not in vs.locals
                ok = ok and any(T.expr_has_call(k, 'OrderedFloat') or (k[0] == 'agg' and 'OrderedFloat' in k[1]) for k in keys)
                loop_must(ctx, R + '/transpose/every-value', b, inner[0], lambda x: x is c, 'push(sample_id)')
            ctx.check(ok, R + '/transpose/keyed', 'T-CARRY', b.name, 'sample id is not pushed under (variable id, value) of the same state entry', b.site(c.bb))


def check(ctx):
    body = ctx.method('C06.anchor/Instance::evaluate_samples', INST, 'evaluate_samples', trait='Evaluate')
    if body is not None: evaluate_samples_rules(ctx, body)
    constraint_rules(ctx)
    get_rules(ctx)
    compress_rules(ctx)
    ctx.floor('C06.samples', 40); ctx.floor('C06.keys', 3); ctx.floor('C06.sibling', 8); ctx.floor('C06.constraint', 25); ctx.floor('C06.rule', 10)
    ctx.floor('C06.get', 10); ctx.floor('C06.compress', 8); ctx.floor('C06.cover', 15)
