"""Check context: rule-instance bookkeeping, known findings, evidence, output contract."""
import json, os, sys, time, hashlib, re

VERIF = os.path.abspath(os.path.join(os.path.dirname(__file__), '..', '..'))
REPO = os.environ.get('VERIF_REPO', '/repo')


class CheckerFailure(Exception):
    pass


class Ctx:
    def __init__(self, prop, tier, facts, slicer, seed=0, extra=None):
        self.prop = prop; self.tier = tier; self.F = facts; self.S = slicer; self.seed = seed
        self.instances = []      # dicts: id, template, verdict(ok/violation/undecided/known), site, detail
        self.violations = []     # dicts: key, rule, fn, detail, site, extra
        self.functions = set()
        self.families = {}       # family -> decided count
        self.floors = {}
        self.samples = []
        self.extra = extra or {}
        self.counters = {'slices': 0, 'cfg_paths': 0, 'cones': 0, 'bodies_in_cones': 0}
        self.t0 = time.time()

    # ---- recording
    def _fam(self, rule):
        return rule.split('/')[0]

    def ok(self, rule, template, site='', **detail):
        rule = rule.replace(' ', '')
        self.instances.append(dict(id=rule, template=template, verdict='ok', site=site, **detail))
        f = self._fam(rule); self.families[f] = self.families.get(f, 0) + 1

    def undecided(self, rule, template, site='', why=''):
        self.instances.append(dict(id=rule, template=template, verdict='undecided', site=site, why=why))

    def bad(self, rule, template, fn, detail, site='', **extra):
        rule = rule.replace(' ', '')
        key = '%s|%s|%s' % (rule, fn, detail)
        self.instances.append(dict(id=rule, template=template, verdict='violation', site=site, detail=detail, fn=fn))
        f = self._fam(rule); self.families[f] = self.families.get(f, 0) + 1
        self.violations.append(dict(key=key, rule=rule, template=template, fn=fn, detail=detail, site=site, extra=extra))

    def lost(self, rule, what):
        self.bad(rule, 'ANCHOR', 'anchor-lost', what)

    def check(self, cond, rule, template, fn, detail, site='', **okdetail):
        if cond: self.ok(rule, template, site, **okdetail)
        else: self.bad(rule, template, fn, detail, site)
        return cond

    def floor(self, family, n):
        self.floors[family] = n

    def fn(self, body):
        if body is not None: self.functions.add(body.name)
        return body

    def sample(self, s):
        if len(self.samples) < 12: self.samples.append(s)

    # ---- anchors
    def method(self, rule, self_ty, item, trait=None, targs=None):
        b = self.F.one(self_ty, item, trait, targs)
        if b is None:
            self.lost(rule, '%s::%s%s' % (self_ty, item, (' (trait %s)' % trait) if trait else ''))
            return None
        self.functions.add(b.name)
        return b

    def free_fn(self, rule, suffix):
        b = self.F.free_fn(suffix)
        if b is None:
            self.lost(rule, suffix)
            return None
        self.functions.add(b.name)
        return b

    # ---- finish
    def finish(self, known):
        """apply floors, known findings; write evidence + replay files; print lines; return exit code"""
        for fam, n in sorted(self.floors.items()):
            got = self.families.get(fam, 0)
            if got < n:
                self.bad(fam + '/floor', 'FLOOR', 'rule-family', 'decided %d instances, floor is %d' % (got, n))
        known_keys = {k['key']: k for k in known.get('known', []) if k.get('property') == self.prop}
        outdir = os.path.join(os.environ.get('VERIF_OUT_DIR') or os.path.join(VERIF, 'out'), self.prop)
        os.makedirs(outdir, exist_ok=True)
        for f in os.listdir(outdir):
            if f.endswith('.json'):
                try: os.unlink(os.path.join(outdir, f))
                except OSError: pass
        lines = []; nviol = 0; nknown = 0
        for i, v in enumerate(self.violations):
            if v['key'] in known_keys:
                nknown += 1
                lines.append('KNOWN-FINDING: property=%s %s' % (self.prop, v['key']))
                for inst in self.instances:
                    if inst.get('verdict') == 'violation' and inst.get('id') == v['rule'] and inst.get('fn') == v['fn'] and inst.get('detail') == v['detail']:
                        inst['verdict'] = 'known-finding'
                continue
            nviol += 1
            rp = os.path.join(outdir, '%d.json' % i)
            with open(rp, 'w') as fh:
                json.dump(dict(property=self.prop, **v), fh, indent=1, default=str)
            lines.append('VIOLATION property=%s replay=%s' % (self.prop, (os.path.relpath(rp, VERIF) if rp.startswith(VERIF) else rp)))
            lines.append('  rule=%s fn=%s site=%s :: %s' % (v['rule'], v['fn'], v['site'], v['detail']))
        decided = [x for x in self.instances if x['verdict'] in ('ok', 'violation', 'known-finding')]
        undec = [x for x in self.instances if x['verdict'] == 'undecided']
        okc = sum(1 for x in self.instances if x['verdict'] == 'ok')
        distinct = len({(x['id'], x.get('site', ''), x.get('fn', '')) for x in decided})
        ev = {
            'property_id': self.prop, 'tier': self.tier, 'seed': self.seed, 'level': 'other',
            'wall_s': round(time.time() - self.t0 + self.extra.get('facts_wall_s', 0.0), 2),
            'violations': nviol,
            'coverage': {
                'explanation': self.extra.get('explanation', 'static rule checking of necessary structural conditions over the type-checked MIR of the current tree; numerical values are not decided (DESIGN.md §5 %s)' % self.prop),
                'obligations': len(decided), 'discharged': okc, 'undecided': len(undec), 'known_findings': nknown,
                'evaluations': len(decided), 'distinct_nontrivial': distinct,
                'rule': 'one evaluation = one rule instance decided on the current tree; distinct = distinct (rule id, site); non-trivial = anchor resolved and template precondition held (undecided instances are not counted)',
                'functions_analysed': sorted(self.functions),
                'rule_instances': self.instances,
                'families': self.families, 'floors': self.floors,
                'samples': self.samples or [dict(rule=x['id'], site=x.get('site', ''), verdict=x['verdict']) for x in decided[:5]],
                'counters': self.counters,
                'controls': self.extra.get('controls', {}),
                'release_twin': self.extra.get('release_twin'),
                'facts': self.extra.get('facts', {}),
                'cone_depth': self.S.depth if self.S else None,
            },
            'assumptions': ['nightly MIR (mir-opt-level=0) reflects the stable build of the same source',
                            'prost / ocipkg / std behave as documented',
                            'slices over-approximate dependence; rules are necessary conditions only'],
        }
        evdir = os.environ.get('VERIF_EVIDENCE_DIR') or os.path.join(VERIF, 'evidence')
        os.makedirs(evdir, exist_ok=True)
        with open(os.path.join(evdir, self.prop + '.json'), 'w') as fh:
            json.dump(ev, fh, indent=1, default=str)
        for l in lines: print(l)
        print('%s tier=%s: %d rule instances decided (%d ok, %d violations, %d known findings), %d undecided, %d functions' % (
            self.prop, self.tier, len(decided), okc, nviol, nknown, len(undec), len(self.functions)))
        return 1 if nviol else 0


def load_known():
    p = os.path.join(VERIF, 'known_findings.json')
    if not os.path.exists(p): return {'known': [], 'fixed': []}
    with open(p) as fh: return json.load(fh)
