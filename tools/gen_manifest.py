#!/usr/bin/env python3
"""Regenerates /verif/MANIFEST.json from the table below and the rule modules present."""
import json, os, sys
V = os.path.dirname(os.path.dirname(os.path.abspath(__file__)))

CLAIMS = {
 'C01': ('missing variable => error on every state lookup; used-id set fed by every id field; every coefficient field and oneof arm consumed; unset oneof => 0; no term skipped',
         'the numerical value (sign, operator, rounding) is not decided'),
 'C02': ('operator impl table floor and Output degree capacity for every Add/Sub/Mul/Neg impl; delegating impls delegate to the same operation with both operands; Function-level dispatch uses both payloads; term iterators read every coefficient and id field',
         'coefficient-level exactness and epsilon dropping are not decided'),
 'C03': ('per-branch effect tables of the partial_evaluate kernels (fixed => folded, removed and reported; free => kept); instance-level coverage of objective / constraints / removed constraints / dependencies / substituted_value; returned set is the union',
         'commutation with evaluation as a numerical identity is not decided'),
 'C04': ('Instance::substitute rewrites all four function holders and records the replacement map; Function::substitute branch table; eval_dependencies has the empty => Ok and no-progress => Err exits and stores each value under its own id',
         'composition as a numerical identity is not decided'),
 'C05': ('bound check (1e-7) dominates success; both constraint lists evaluated and pushed once per iteration; flag dataflow (feasible_relaxed from active constraints only, feasible from both); tolerance constants and comparison shape in all feasibility rules; carry-over of metadata / removal reason; state completion calls',
         'objective and constraint values are not decided'),
 'C06': ('sibling agreement evaluate <-> evaluate_samples; carry-over in SampledConstraint::get / SampleSet::get incl. which feasibility accessor feeds which flag; tables keyed from samples.ids(); compressed-value helpers keep the id list of the entry they read',
         'equality of numbers is not decided'),
 'C07': ('field number, wire codec, label, oneof membership and enum numbers agree between the .proto schema, the prost-derived encode_raw/merge_field MIR of the compiled Rust and the descriptors embedded in *_pb2.py; pinned schema tags never removed or retyped; stored 2024 artifact decodes under the current schema',
         'round-trip equality rests on prost / protobuf-python (trusted)'),
 'C08': ('both validators called and propagated; duplicate detection consults the insert result with one set across active+removed; used-subset-of-defined guard; used-id coverage; typed conversion: required field => MissingField, unspecified enum => error, bound via Bound::new, hint ids checked, every field carried; unset bound never defaulted through the prost Default',
         'that the rule set is exactly the accepted language is not decided'),
 'C09': ('every input field consumed/carried; every input constraint (active and already removed) flows into removed_constraints; no active constraints; objective slice contains f, one parameter and g*g; fresh ids derive from max defined id + 1; tags reference the constraint / parameter id',
         'the evaluation identity at arbitrary weights is not decided'),
 'C10': ('required-subset-of-given guard => error; partial evaluation applied to the objective and every active constraint with the given map; all fields carried, parameters: Some(given); From<Instance> carries all fields',
         'the numerical identity is not decided'),
 'C11': ('the three (PUBO) / four (QUBO) refusal guards dominate success with the right polarity; keys built only through the canonicalising constructors; zero filter present; every objective term reaches the map',
         'the exported numbers are not decided'),
 'C12': ('five error guards (unknown, non-integer, no bound, non-finite, empty) dominate the loop; errors and the single-integer return precede any push; pushed variables are binary / [0,1] / fresh id / tagged; loop bound from an f64->usize cast is guarded by a finiteness test',
         'that the coefficients cover exactly ceil(l)..floor(u) is not decided'),
 'C13': ('guard set of both slack functions incl. "is an inequality" (sibling agreement); fail-before-mutate; always-satisfied => relax and no new variable; infeasible => typed error; slack variable shape; coefficient derives from 1/a resp. -lower/upper-bound and the same value is returned',
         'feasible-set preservation on lattice points is not decided'),
 'C14': ('relax/restore move exactly one element between the two lists on every success path, nothing else of the instance is written, lookup failure precedes any mutation, reason stored',
         'consequence for feasibility flags follows from the C05 rules'),
 'C15': ('as_minimization_problem: early return on Minimize, else sense:=Minimize and objective:=-objective on the same path, nothing else written; best: the two sense branches compare with opposite argument order; accessor pairing and legacy-field fallback table; empty => error',
         'ties and NaN ordering are not decided'),
 'C17': ('keyword tables (rows, bounds, markers, sections, sense) contain the spec with error fallback; per-keyword effect table on the parsed tables; converter reads every parsed table incl. the objective row name; sign discipline per row type; kind/sense mappings; bound defaults',
         'that arbitrary files produce the right numbers is not decided'),
 'C18': ('writer dispatch literals equal the schema enum numbers; every keyword the writer can emit is accepted by the reader; non-linear => typed error naming the offender; a bound record is written on every path for every used variable; shared name prefixes',
         'numeric text round-trip of coefficients is not decided'),
 'C19': ('type-code / sense / var-type tables with error fallback; section dispatch per code; converter reads every parsed table; diagonal/off-diagonal distinction exists; sign discipline for the two sides; infinity threshold routed to the right list with the right sign; parse errors keep their line number',
         'numbers are not decided'),
 'C20': ('per layer kind: builder and reader use the same media-type function and message type, mismatch => error; media types distinct and equal to ARTIFACT.md; setter/getter of every annotation use the same key with the kind prefix; manifest type guard; unknown digest => error',
         'byte-for-byte storage rests on ocipkg / prost (trusted)'),
}

NA = {
 'C16': 'interval enclosure is a statement about real arithmetic on the extended line (min/max choice, >= vs >, branch conditions of pow, floor vs ceil); none of it is visible in control-flow, dataflow or table shape, and deciding it needs execution or a solver, which is outside the static-analysis family (DESIGN.md §6)',
}

TECH = {
 'C07': 'static schema comparison: proto3 parser vs prost-derived encode_raw/merge_field MIR vs embedded pb2 descriptors',
}


def main():
    checks = []; na = []
    for i in range(1, 21):
        pid = 'C%02d' % i
        have = os.path.exists(os.path.join(V, 'engine', 'sa', 'rules', pid + '.py'))
        if pid in NA:
            na.append(dict(property_id=pid, reason=NA[pid])); continue
        if not have:
            na.append(dict(property_id=pid, reason='rule module not armed yet in this round (design in DESIGN.md §5 %s); no claim is made until the check exists' % pid)); continue
        text, note = CLAIMS[pid]
        checks.append(dict(
            property_id=pid,
            quick_cmd='./run check %s --tier quick' % pid,
            thorough_cmd='./run check %s --tier thorough' % pid,
            evidence_file='evidence/%s.json' % pid,
            replay_cmd_template='cat {path}',
            engine='sa',
            level_claimed=dict(category='other',
                               text='Static rule checking of necessary structural conditions on the type-checked MIR of the current tree, for all inputs that can take a path: ' + text + '.',
                               design_ref='DESIGN.md §5 ' + pid),
            level_note='Decides the listed structural clauses only; ' + note + '. Trusted: rustc nightly front end / MIR construction (the repository itself builds with stable), prost, ocipkg, std.',
            technique=TECH.get(pid, 'custom MIR dataflow / CFG / call-graph rules (rustc_private fact extractor + Python rule engine) over a normal form of the facts (helpers unknown to the pinned tree inlined, iterator chains and closures desugared to explicit loops), kernels of other properties the behaviour goes through re-decided (RELIES_ON), positive controls on every run'),
        ))
    m = dict(
        version=1,
        setup_cmd='./run setup',
        hooks=dict(guard='ommx_verif_unused', enable='none needed: the checks analyse the unmodified library (cargo +nightly check with a rustc_private wrapper)',
                   baseline_off_cmd='cd /repo && cargo nextest run --workspace --no-fail-fast --offline || cargo test --workspace --lib --bins --tests --no-fail-fast --offline',
                   source_commits=[], add_only=True),
        engines=[dict(name='factdrv', path='engine/factdrv', serves_properties=[c['property_id'] for c in checks], kind_free_text='rustc_private driver exporting mini-MIR, ADT, impl and const facts of crate ommx as JSON lines'),
                 dict(name='sa', path='engine/sa', serves_properties=[c['property_id'] for c in checks], kind_free_text='Python static-analysis engine: CFG (dominators, exits, loops), backward slices with callee summaries, call-graph cones, normal form (sa.normalize: helper inlining, iterator desugaring, jump threading), rule templates; schema comparison for C07'),
                 dict(name='controls', path='engine/controls', serves_properties=[c['property_id'] for c in checks], kind_free_text='fixture crate with seeded bad/good twins per rule template, analysed by the same driver on every run')],
        checks=checks,
        not_applicable=na,
        notes='All checks are static: no SDK code is executed. Exit 2 = checker failure (no verdict). Known findings: known_findings.json.',
    )
    with open(os.path.join(V, 'MANIFEST.json'), 'w') as fh:
        json.dump(m, fh, indent=1)
    print('checks:', [c['property_id'] for c in checks], 'not_applicable:', [x['property_id'] for x in na])


if __name__ == '__main__':
    main()
