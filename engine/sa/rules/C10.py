"""C10 — instantiating parameters equals evaluating them (DESIGN §5 C10).

Written against the normal form (VIEW = 'norm') plus the local normal form of rules/pe.py; conditions are
on dataflow: which sets the guard compares, which functions the partial evaluation reaches, what the
result is built from."""
from .common import *
from . import pe

VIEW = 'norm'

PI = 'v1::ParametricInstance'; INST = 'v1::Instance'
FIELDS = ['description', 'objective', 'constraints', 'decision_variables', 'sense', 'constraint_hints', 'removed_constraints', 'decision_variable_dependency']


# with_parameters is partial evaluation of every function: the kernels' case tables are part of C10
RELIES_ON = {'C03': ['C03.linear', 'C03.quadratic', 'C03.polynomial', 'C03.delegate', 'C03.exact']}

NARROWING = RESTRICTING + ('intersection', 'difference', 'symmetric_difference', 'retain', 'remove', 'split_off')
SET_TY = r'(BTreeSet|HashSet)'


DIFF_VIEW = re.compile(r'::(peekable|into_iter|iter|by_ref|cloned|copied|rev|fuse|collect|from_iter)$')
DIFF_FIRST = ('next', 'peek', 'peek_mut', 'next_back', 'last', 'min', 'max', 'first')


class OptionGuard:
    """a `match` / `if let` on an Option seen as a test: true side = the None arm"""
    def __init__(self, body, sb, none_bb, some_bb):
        self.body = body; self.switch_bb = sb; self.true_bb = none_bb; self.false_bb = some_bb
    def describe(self): return 'match bb%d: None->bb%s Some->bb%s' % (self.switch_bb, self.true_bb, self.false_bb)


def local_op(l):
    return {'k': 'copy', 'pl': {'l': l, 'p': []}}


# ------------------------------------------------------------------------------------------------
# `A ⊆ B` tests.  Every entry yields (bool local, bb, polarity, A operand, B operand, idiom) with
#      (local == polarity)  <=>  A ⊆ B
# ------------------------------------------------------------------------------------------------
def subset_tests(ctx, body):
    out = []
    items = pe.loop_items(body)
    for c in body.calls:
        # (1) a.is_subset(&b)                      (2) b.is_superset(&a)
        if c.item == 'is_subset' and re.search(SET_TY, c.name): out.append((c.dst['l'], c.bb, True, c.args[0], c.args[1], 'a.is_subset(b)'))
        if c.item == 'is_superset' and re.search(SET_TY, c.name): out.append((c.dst['l'], c.bb, True, c.args[1], c.args[0], 'b.is_superset(a)'))
        # (3..5) emptiness of a.difference(&b), looked at through any view or complete copy of it
        #   d.next() / d.peek() / d.last() / d.min() / d.max()  .is_none() | .is_some() | `if let Some(_) = ..` / `match`
        #   d.count() == 0 | != 0 | > 0,   d.collect::<Vec<_>>().is_empty() / .len() == 0
        #   with d = a.difference(&b) [.peekable() | .into_iter() | .by_ref() | .cloned() | .copied() | .rev() | .fuse() | .collect()]
        if c.item == 'difference' and re.search(SET_TY, c.name):
            views = {c.dst['l']}
            for _ in range(4):
                for c2 in body.calls:
                    if c2.args and not c2.dst['p'] and c2.dst['l'] not in views and DIFF_VIEW.search(T.strip_generics_tail(c2.name)) and pe.root_of(body, c2.args[0]) in views:
                        views.add(c2.dst['l'])
            for c2 in body.calls:
                if not c2.args or pe.root_of(body, c2.args[0]) not in views: continue
                how = 'a.difference(b)..%s()' % c2.item
                if c2.item in DIFF_FIRST:
                    o = c2.dst['l']
                    for c3 in body.calls:
                        if c3.item in ('is_none', 'is_some') and c3.args and pe.root_of(body, c3.args[0]) == o:
                            out.append((c3.dst['l'], c3.bb, c3.item == 'is_none', c.args[0], c.args[1], how + '.%s()' % c3.item))
                    gs = [OptionGuard(body, sb, m.get(0, els), m.get(1, els)) for sb, m, els in T.option_arms(body, o)]
                    if gs: out.append((gs, c2.bb, True, c.args[0], c.args[1], how + ' matched'))
                if c2.item in ('count', 'len'):
                    for bi, st in body.stmts():
                        rv = st['rv']
                        if rv['k'] == 'bin' and rv['op'] in ('Eq', 'Ne', 'Gt') and any(o['k'] == 'const' and o['v'] == '0_usize' for o in rv['ops']) \
                                and any(o['k'] in ('copy', 'move') and len(T.expr(body, o)) > 4 and T.expr(body, o)[0] == 'call' and T.expr(body, o)[4] == c2.bb for o in rv['ops']):
                            out.append((st['dst']['l'], bi, rv['op'] == 'Eq', c.args[0], c.args[1], how + ' %s 0' % rv['op']))
                if c2.item == 'is_empty':
                    out.append((c2.dst['l'], c2.bb, True, c.args[0], c.args[1], how))
    # (6) m.is_empty()  /  m.len() == 0   where m collects the elements of a that b does not contain
    #        for x in &a { if !b.contains(x) { m.push(*x) } }   ==   a.iter().filter(|x| !b.contains(x)).cloned().collect()
    diffs = difference_collections(ctx, body, items)
    for c in body.calls:
        if c.item == 'is_empty' and c.args:
            m = pe.root_of(body, c.args[0])
            if m in diffs: out.append((c.dst['l'], c.bb, True, diffs[m][0], diffs[m][1], 'missing.is_empty()'))
        if c.item == 'len' and c.args and pe.root_of(body, c.args[0]) in diffs:
            m = pe.root_of(body, c.args[0])
            for bi, st in body.stmts():
                rv = st['rv']
                if rv['k'] == 'bin' and rv['op'] in ('Eq', 'Ne', 'Gt') and any(o['k'] == 'const' and o['v'] == '0_usize' for o in rv['ops']) \
                        and any(o['k'] in ('copy', 'move') and len(T.expr(body, o)) > 4 and T.expr(body, o)[0] == 'call' and T.expr(body, o)[4] == c.bb for o in rv['ops']):
                    out.append((st['dst']['l'], bi, rv['op'] == 'Eq', diffs[m][0], diffs[m][1], 'missing.len() %s 0' % rv['op']))
    # (7) a.iter().all(|x| b.contains(x))    (8) a.iter().any(|x| !b.contains(x)) [negated]
    #     normal form: a loop over a that leaves with one bool constant where b does not contain the element, with the other when exhausted
    for lo in T.for_loops(body):
        if restricted(ctx, body, lo): continue
        nxt, header, some_bb, none_bb, blocks = lo
        for k in contains_of_item(ctx, body, lo):
            for g in T.guards_from_call(body, k):
                if g.false_bb is None or g.true_bb is None: continue
                reg_f = pe.walk(body, [g.false_bb], stop={header})[0]
                reg_t = pe.walk(body, [g.true_bb], stop={header})[0]
                for bi, st in body.stmts():
                    d = st['dst']; rv = st['rv']
                    if bi in reg_f and not d['p'] and body.locals[d['l']] == 'bool' and rv['k'] == 'use' and rv['ops'][0]['k'] == 'const' and rv['ops'][0]['v'] in ('true', 'false'):
                        vf = rv['ops'][0]['v'] == 'true'
                        defs = body.defs_of(d['l'])
                        others = [(b2, x) for kk, b2, x in defs if not (kk == 'stmt' and x is st)]
                        if len(others) != 1 or others[0][0] in blocks and others[0][0] != none_bb: continue
                        b2, x = others[0]
                        if 'rv' not in x or x['rv']['k'] != 'use' or x['rv']['ops'][0]['k'] != 'const' or x['rv']['ops'][0]['v'] != ('false' if vf else 'true'): continue
                        if b2 not in body.reach([none_bb], {header}): continue
                        if not T.must_pass(body, g.false_bb, {header, b2}, {bi}): continue          # every missing element sets the flag
                        if any(b3 in reg_t and s3['dst'] == d for b3, s3 in body.stmts()): continue      # a contained element does not
                        A = loop_source(ctx, body, lo, k, items)
                        if A is not None: out.append((d['l'], bi, not vf, A, k.args[0], 'a.iter().%s(|x| %sb.contains(x))' % (('any', '!') if vf else ('all', ''))))
    return out


def restricted(ctx, body, lo, allow=()):
    """restricting adaptors between the collection and the loop (none may drop elements, except the ones in `allow`)"""
    si = ctx.S.slice_operand(body, lo[0].args[0])
    return sorted({x.item for x in si.call_objs if x.item in RESTRICTING and 'Iterator' in (x.trait or '') and not any(x is y for y in allow)})


def contains_of_item(ctx, body, lo):
    """`b.contains(item)` / `b.contains_key(item)` calls on the item of loop `lo`"""
    out = []
    for k in body.calls:
        if k.bb in lo[4] and k.item in ('contains', 'contains_key') and len(k.args) == 2 and lo[0].dst['l'] in ctx.S.slice_operand(body, k.args[1]).locals:
            out.append(k)
    return out


def difference_collections(ctx, body, items):
    """local collection m -> (local collection a, operand b) when the only insertions into m are
    `m.push(x)` / `m.insert(x)` for exactly the elements x of a with !b.contains(x)"""
    out = {}
    ins = {}
    for c in body.calls:
        if c.item in ('push', 'insert') and re.search(r'(Vec|BTreeSet|HashSet|VecDeque)::<.*>::(push|insert)$', c.name) and len(c.args) == 2:
            m = pe.root_of(body, c.args[0])
            if m is not None and m > body.argc: ins.setdefault(m, []).append(c)
    for m, pushes in ins.items():
        if len(pushes) != 1: continue
        p = pushes[0]
        if any(c is not p and T.MUT_CALL.search(c.name) and c.args and pe.root_of(body, c.args[0]) == m and '&mut' in body.locals[c.arg_local(0) or 0] for c in body.calls): continue
        los = [lo for lo in T.for_loops(body) if p.bb in lo[4]]
        if not los: continue
        lo = min(los, key=lambda l: len(l[4]))
        if items.get(lo[0].dst['l']) == m or restricted(ctx, body, lo): continue
        if lo[0].dst['l'] not in ctx.S.slice_operand(body, p.args[1]).locals: continue
        for k in contains_of_item(ctx, body, lo):
            for g in T.guards_from_call(body, k):
                if g.false_bb is None or g.true_bb is None: continue
                if p.bb in pe.walk(body, [g.false_bb], stop={lo[1]})[0] and p.bb not in pe.walk(body, [g.true_bb], stop={lo[1]})[0] \
                        and T.must_pass(body, g.false_bb, {lo[1]}, {p.bb}) and all(body.dominates(k.bb, x) for x in [p.bb]) and T.must_pass(body, lo[2], {lo[1]}, {k.bb}):
                    A = loop_source(ctx, body, lo, k, items)
                    if A is not None: out[m] = (A, k.args[0])
    return out


def loop_source(ctx, body, lo, contains_call, items):
    """what the elements tested by `b.contains(key)` inside loop `lo` are: the elements of a local id collection
    (operand of that local), or the ids of self.parameters when the loop runs over the declared parameters themselves
    (`for p in &self.parameters { .. given.contains(&p.id) .. }`): {'k': 'params-loop', ..}"""
    a = items.get(lo[0].dst['l'])
    if a is not None: return local_op(a)
    for sp in range(1, body.argc + 1):
        if pe.from_self_field(ctx, body, lo[0].args[0], PI, 'parameters', sp) and ('v1::Parameter', 'id') in pe.prov(ctx, body, contains_call.args[1]):
            return {'k': 'params-loop', 'self': sp}
    return None


def all_parameter_ids(ctx, body, A, self_param, depth=0):
    """A is a local set that holds the id of *every* element of self.parameters and is not shrunk afterwards:
         self.parameters.iter().map(|p| p.id).collect()   (normal form: loop over all parameters, unconditional insert of p.id)
         for p in &self.parameters { a.insert(p.id); }
         f(&self)  where f's returned set is built like that (e.g. defined_parameter_ids)"""
    a = pe.coll_root(body, A)
    if a is None or depth > 2: return False
    # no other mutation than inserts
    ins = [c for c in body.calls if c.item in ('insert', 'push') and re.search(r'(BTreeSet|HashSet|Vec)::<.*>::(insert|push)$', c.name) and c.args and pe.root_of(body, c.args[0]) == a]
    if any(c not in ins and T.MUT_CALL.search(c.name) and c.args and pe.root_of(body, c.args[0]) == a and '&mut' in body.locals[c.arg_local(0) or 0] for c in body.calls): return False
    defs = [d for d in body.defs_of(a) if not (d[0] == 'stmt' and d[2]['dst']['p'])]
    if len(defs) != 1: return False
    k, bi, d = defs[0]
    if k == 'stmt':
        # moved from another local
        rv = d['rv']
        if rv['k'] == 'use' and rv['ops'][0]['k'] in ('copy', 'move') and not rv['ops'][0]['pl']['p']: return all_parameter_ids(ctx, body, rv['ops'][0], self_param, depth)
        return False
    item = (d.get('ri') or {}).get('item')
    if item == 'new' and ins:
        ok = False
        for c in ins:
            los = [lo for lo in T.for_loops(body) if c.bb in lo[4]]
            if not los: return False
            lo = min(los, key=lambda l: len(l[4]))
            if not pe.from_self_field(ctx, body, lo[0].args[0], PI, 'parameters', self_param) or restricted(ctx, body, lo): return False
            if not T.must_pass(body, lo[2], {lo[1]}, {c.bb}): return False
            p = pe.prov(ctx, body, c.args[1])
            if ('v1::Parameter', 'id') not in p or not pe.from_self_field(ctx, body, c.args[1], PI, 'parameters', self_param): return False
            ok = True
        return ok
    cb = ctx.F.bodies.get(d.get('rp') or d.get('fp') or '')
    if cb is not None and cb.kind == 'fn' and not ins:
        # result of a crate function applied to self
        idx = [i + 1 for i, x in enumerate(d['args']) if ('param', self_param) in pe.prov(ctx, body, x)]
        if len(idx) != 1: return False
        return all_parameter_ids(ctx, pe.lnorm(ctx, cb), local_op(0), idx[0], depth + 1)
    return False


def option_field_projection(ctx, cb, adt, field):
    """closure `|c| c.<field>.as_mut()` / `.as_ref()`: returns exactly the Option field of its argument (on its only return path)"""
    rets = cb.ret_assignments()
    if len(rets) != 1 or rets[0][1] != 'callval': return False
    c = [x for x in cb.calls if x.bb == rets[0][0]]
    if c and c[0].item in ('as_mut', 'as_ref', 'as_deref_mut', 'as_deref') and 'Option' in c[0].name:
        fs, root, calls = T.access_path(cb, c[0].args[0])
        return root == 2 and fs[-1:] == [(adt, field)] and len(cb.calls) == 1
    return False


def check(ctx):
    body0 = ctx.method('C10.anchor/with_parameters', PI, 'with_parameters')
    body = pe.lnorm(ctx, body0)
    if body is not None:
        # ---- guard: required ⊆ given, else error
        def operands_ok(A, B):
            b = ctx.S.slice_operand(body, B)
            if A['k'] == 'params-loop':        # the loop visits every declared parameter and tests its id (checked by loop_source / restricted)
                return A['self'] == 1 and b.has_field('v1::Parameters', 'entries') and not b.has_field(PI, 'parameters')
            a = ctx.S.slice_operand(body, A)
            narrowing = sorted({x.item for x in a.call_objs if x.item in NARROWING})
            # A is the set of *all* declared parameter ids (decided on how it is built); if that cannot be decided, the
            # slice conditions of round 1 (they over-approximate when `&mut self` went through an inlined helper)
            a_ok = all_parameter_ids(ctx, body, A, 1) or (a.has_field(PI, 'parameters') and a.has_field('v1::Parameter', 'id') and not narrowing
                                                          and not a.has_field(PI, 'objective') and not a.has_field(PI, 'constraints'))
            return a_ok and b.has_field('v1::Parameters', 'entries') and not b.has_field(PI, 'parameters')
        tests = subset_tests(ctx, body)
        best = None; seen = []
        for l, bb, pol, A, B, how in tests:
            for g in (l if isinstance(l, list) else T.guards_from_local(body, l, bb)):
                ctx.counters['cfg_paths'] += 1
                seen.append('%s: %s' % (how, g.describe()))
                if pe.guard_requires(body, g, pol) and pe.before_every_ok(body, {g.switch_bb}) and operands_ok(A, B): best = (how, g, bb, pol); break
            if best: break
        R = 'C10.guard/required-subset-of-given'
        if best: ctx.ok(R, 'T-GUARD', body.site(best[2]), guard=best[0], shape=best[1].describe())
        elif not tests: ctx.bad(R, 'T-GUARD', body.name, 'no test `required_ids ⊆ given_ids` found (is_subset / difference / missing.is_empty() / all(contains))', body.site())
        else: ctx.bad(R, 'T-GUARD', body.name, 'test `required_ids.is_subset(given_ids)` does not guard the Ok-exits with the declared parameter ids on the left and the given ids on the right', body.site(tests[0][1]), seen='; '.join(seen)[:300])
        # ---- partial evaluation applied to objective and to every constraint, with the given values
        pes = [c for c in body.calls if c.item == 'partial_evaluate' and (c.trait or '').endswith('Evaluate')]
        # ---- "supplying all parameters produces an instance": with_parameters has one error of its own, the missing-parameter
        # guard; every other Err-exit lies behind a partial_evaluate call (no validation / conversion that can fail on a
        # complete assignment).  Path-sensitive: entry -> Err-exit avoiding the guard's failing side and the calls.
        R2 = 'C10.guard/only-stated-errors'
        if best:
            g, pol = best[1], best[3]
            failing = g.false_bb if pol else g.true_bb
            own = pe.walk(body, [0], avoid={c.bb for c in pes} | ({failing} if failing is not None else set()))[0] & body.err_exits()
            ctx.check(bool(pes) and not own, R2, 'T-ERRFLOW', body.name, 'with_parameters can fail for a complete assignment: an Err-exit is reachable without a missing parameter and without a failing partial_evaluate', body.site(min(own)) if own else body.site())
        else:
            ctx.bad(R2, 'T-ERRFLOW', body.name, 'the missing-parameter guard was not found, so the other error sources cannot be told apart', body.site())
        def self_is(c, ty): return re.search(ty + '$', c.self_ty or '') is not None or re.fullmatch(r'[A-Z]\w*', c.self_ty or '') is not None
        oks = body.strict_ok_exits()
        def common_rules(rule, c):
            s = ctx.S.slice_operand(body, c.args[1])
            ctx.check(2 in s.params and not s.has_field(PI, 'parameters'), rule + '/state', 'T-CARRY', body.name, 'state passed to partial_evaluate does not derive from the given parameters', body.site(c.bb))
            pe.errflow_calls(ctx, rule + '/error', body, [c], 'error of partial_evaluate')
        def loops_of(c, field):
            return [lo for lo in T.for_loops(body) if c.bb in lo[4] and pe.from_self_field(ctx, body, lo[0].args[0], PI, field)]
        def all_items(rule, lo, allow_fn=None):
            """every item of the loop reaches the call; the iterator drops nothing (except via `allow_fn`)"""
            si = ctx.S.slice_operand(body, lo[0].args[0])
            restr = [x for x in si.call_objs if x.item in RESTRICTING and 'Iterator' in (x.trait or '')]
            bad = sorted({x.item for x in restr if not (allow_fn and allow_fn(x))})
            ctx.check(not bad, rule + '/all-items', 'T-LOOPMUST', body.name, 'the loop iterator is restricted by %s' % bad, body.site(lo[0].bb))
        # objective
        cand = [c for c in pes if self_is(c, 'v1::Function') and pe.from_self_field(ctx, body, c.args[0], PI, 'objective')]
        ctx.check(bool(cand), 'C10.apply/objective/call', 'T-MUSTCALL', body.name, 'no Function::partial_evaluate call on self.objective', body.site())
        for c in cand[:1]:
            common_rules('C10.apply/objective', c)
            ls = loops_of(c, 'objective')
            if ls:
                # `for f in self.objective.iter_mut()` (possibly chained with the constraints' functions): every item, loop before every Ok-exit
                lo = min(ls, key=lambda l: len(l[4]))
                via = {c.bb}
                ok = T.must_pass(body, lo[2], {lo[1]}, via) and pe.before_every_ok(body, {lo[1]}) and not pe.early_exits(body, set(lo[4]), pe.for_loop_switch(body, lo), lo[1])
                allow = lambda x: is_function_projection(ctx, body, x)
                bad = sorted({x.item for x in ctx.S.slice_operand(body, lo[0].args[0]).call_objs if x.item in RESTRICTING and 'Iterator' in (x.trait or '') and not allow(x)})
                ctx.check(ok and not bad, 'C10.apply/objective/every-path', 'T-MUSTCALL', body.name, 'an Ok-exit is reachable without partially evaluating the objective', body.site(c.bb))
            else:
                pe.must_pass_or_none(ctx, 'C10.apply/objective/every-path', body, c, PI, 'objective', 'partially evaluating the objective')
        # constraints: Constraint::partial_evaluate on every element, or Function::partial_evaluate on every element's function
        cand = []
        for c in pes:
            r = pe.prov(ctx, body, c.args[0])
            if not pe.from_self_field(ctx, body, c.args[0], PI, 'constraints'): continue
            if self_is(c, 'v1::Constraint') and not re.search(r'v1::Function$', c.self_ty or ''): cand.append((c, 'constraint'))
            elif self_is(c, 'v1::Function') and ('v1::Constraint', 'function') in r: cand.append((c, 'function'))
        ctx.check(bool(cand), 'C10.apply/constraints/call', 'T-MUSTCALL', body.name, 'no partial_evaluate call on the elements of self.constraints', body.site())
        for c, how in cand[:1]:
            common_rules('C10.apply/constraints', c)
            lo = loops_of(c, 'constraints')
            ctx.check(len(lo) >= 1, 'C10.apply/constraints/loop', 'T-LOOPMUST', body.name, 'partial_evaluate is not inside a loop over self.constraints', body.site(c.bb))
            for l in sorted(lo, key=lambda l: len(l[4]))[:1]:
                via = {c.bb}
                if how == 'function':
                    # `if let Some(f) = c.function.as_mut() { f.partial_evaluate(..)? }`: a constraint without function has nothing to evaluate
                    via |= {none for sb, some, none in option_field_tests(body, 'v1::Constraint', 'function')}
                ok = T.must_pass(body, l[2], {l[1]}, via)
                ctx.check(ok, 'C10.apply/constraints/every-item', 'T-LOOPMUST', body.name, 'a path through the loop body skips `constraint.partial_evaluate`', body.site(l[0].bb))
                pe.no_early_exit(ctx, 'C10.apply/constraints/every-item/no-early-exit', body, l)
                all_items('C10.apply/constraints/every-item', l, (lambda x: is_function_projection(ctx, body, x)) if how == 'function' else None)
                r = ctx.S.slice_operand(body, c.args[0])
                ctx.check(l[0].dst['l'] in r.locals, 'C10.apply/constraints/receiver', 'T-CARRY', body.name, 'receiver is not the loop item', body.site(c.bb))
                ctx.check(pe.before_every_ok(body, {l[1]}), 'C10.apply/constraints/dominates', 'T-MUSTCALL', body.name, 'the constraint loop does not dominate the Ok-exit', body.site(c.bb))
        # ---- nothing else is modified
        writes_only(ctx, 'C10.unchanged/with_parameters', body, {'objective', 'constraints'})
        # ---- carry: every field of the returned Instance, however it is filled (aggregate, update syntax, field assignments)
        src, anchor = pe.struct_field_sources(ctx, body, INST)
        if src is None:
            ctx.bad('C10.carry/aggregate', 'ANCHOR', body.name, 'the returned v1::Instance: %s' % anchor)
        else:
            for f in FIELDS:
                carry_sources(ctx, 'C10.carry/with_parameters/' + f, body, src.get(f, []), f, need_fields=[(PI, f)])
            carry_sources(ctx, 'C10.carry/with_parameters/parameters', body, src.get('parameters', []), 'parameters', need_params=[2], not_fields=[(PI, 'parameters')])
            # "constraint IDs, removed constraints .. unchanged": the list fields are carried completely (moved, or rebuilt element by element)
            for f in ('constraints', 'decision_variables', 'removed_constraints', 'decision_variable_dependency'):
                vs = {pe.complete_field_copy(ctx, body, op, PI, f) for op in src.get(f, [])} or {'unknown'}
                rule = 'C10.carry/with_parameters/%s-complete' % f
                if 'no' in vs: ctx.bad(rule, 'T-CARRY', body.name, 'field `%s` of the result is rebuilt from self.%s without some of its elements (conditional push / filter / retain)' % (f, f), body.site())
                elif vs == {'yes'}: ctx.ok(rule, 'T-CARRY', body.site())
                else:
                    ctx.ok(rule, 'T-CARRY', body.site())          # weaker, decided: no evidence of dropped elements (dependence on self.<f> is C10.carry/../<f>)
                    ctx.undecided('C10.exact/carry/%s-complete' % f, 'T-CARRY', body.site(), 'cannot decide how field `%s` of the result is built from self.%s' % (f, f))
            some = bool(src.get('parameters'))
            for op in src.get('parameters', []):
                ex = T.strip_wrappers(T.expr(body, op)) if op['k'] in ('copy', 'move') else ('const',)
                some = some and ex[0] == 'agg' and ex[1].endswith('Option::Some')
            ctx.check(some, 'C10.carry/with_parameters/parameters-some', 'T-CARRY', body.name, '`parameters` of the result is not Some(given)', body.site())
            # the recorded values are the supplied ones, all of them: moved / cloned / converted there and back, never filtered
            whole = bool(src.get('parameters')) and all(pe.same_entries(ctx, body, op, 2) for op in src.get('parameters', []))
            ctx.check(whole, 'C10.carry/with_parameters/parameters-complete', 'T-CARRY', body.name, '`parameters` of the result is not the complete `parameters` argument (entries are dropped, filtered or rebuilt from something else)', body.site())
            fields = ctx.F.adt_fields(INST) or []
            ctx.check(set(fields) == set(FIELDS + ['parameters']), 'C10.carry/field-list', 'T-COVER', body.name, 'v1::Instance field list changed: %s' % sorted(set(fields) ^ set(FIELDS + ['parameters'])), body.site())
    # ---- From<Instance> for ParametricInstance
    fb = pe.lnorm(ctx, ctx.method('C10.anchor/from', PI, 'from', trait='From', targs=['v1::Instance']))
    if fb is not None:
        src, anchor = pe.struct_field_sources(ctx, fb, PI)
        if src is None:
            ctx.bad('C10.from/aggregate', 'ANCHOR', fb.name, 'the returned ParametricInstance: %s' % anchor)
        else:
            for f in FIELDS:
                s = carry_sources(ctx, 'C10.from/' + f, fb, src.get(f, []), f, need_fields=[(INST, f)])
                # and from no other field of the input
                if s is not None:
                    others = sorted(x for a, x in s if a.endswith(INST) and x != f)
                    ctx.check(not others, 'C10.from/%s/only' % f, 'T-CARRY', fb.name, 'field `%s` also depends on %s' % (f, others), fb.site())
            carry_sources(ctx, 'C10.from/parameters', fb, src.get('parameters', []), 'parameters', not_fields=[(INST, 'parameters')])
    pe.unmark(ctx)
    ctx.floor('C10.guard', 2); ctx.floor('C10.apply', 13); ctx.floor('C10.carry', 16); ctx.floor('C10.from', 17)


def carry_sources(ctx, rule, body, ops, what, need_fields=(), not_fields=(), need_params=()):
    """T-CARRY on every operand that may end up in field `what` of the result; returns the union of the slices' fields"""
    if not ops:
        ctx.bad(rule, 'T-CARRY', body.name, 'field `%s` of the result is never set' % what, body.site()); return None
    detail = []; allf = set()
    for op in ops:
        s = slice_op(ctx, body, op); allf |= s.fields
        missing = ['%s.%s' % (a, f) for a, f in need_fields if not s.has_field(a, f)] + ['parameter _%d' % p for p in need_params if p not in s.params]
        forbidden = ['%s.%s' % (a, f) for a, f in not_fields if s.has_field(a, f)]
        if missing: detail.append('field `%s` does not depend on: %s' % (what, ', '.join(missing)))
        if forbidden: detail.append('field `%s` depends on: %s' % (what, ', '.join(forbidden)))
    ctx.check(not detail, rule, 'T-CARRY', body.name, '; '.join(sorted(set(detail))), body.site())
    return allf


def is_function_projection(ctx, body, call):
    """`.filter_map(|c| c.function.as_mut())`: drops exactly the constraints that have no function (for which
    Constraint::partial_evaluate does nothing — C03.delegate/Constraint)"""
    if call.item != 'filter_map' or len(call.args) < 2: return False
    a = call.args[1]
    if a['k'] not in ('copy', 'move'): return False
    for k, bi, d in body.defs_of(a['pl']['l']):
        if k == 'stmt' and d['rv']['k'] == 'agg' and d['rv']['adt'].startswith('closure:'):
            cb = ctx.F.bodies.get(d['rv']['adt'][8:])
            if cb is not None and option_field_projection(ctx, cb, 'v1::Constraint', 'function'): return True
    return False
