#!/usr/bin/env python3
"""tools/refcheck.py <PROP> [--props A,B] [--from DIR]  — run the checks on behaviour-preserving refactorings.

Takes DIR/refactor<n>.diff (default /tmp/seed/R<PROP>/out), applies each to /repo (must be clean), runs
the quick check of PROP and of every property whose check relies on it (or --props), undoes the change,
and stores patch + verdict under /verif/refactors/<PROP>-<n>/.  A non-zero exit of a check here is a
FALSE ALARM candidate to be triaged by hand (the refactoring may also turn out not to preserve
behaviour)."""
import sys, os, subprocess, json, re, glob, tempfile, shutil

V = os.path.dirname(os.path.dirname(os.path.abspath(__file__)))
RELIED = {'C03': ['C10'], 'C17': ['C18'], 'C01': ['C05'], 'C05': ['C14']}


def sh(cmd, cwd=None, env=None):
    e = dict(os.environ); e['CARGO_NET_OFFLINE'] = 'true'
    if env: e.update(env)
    r = subprocess.run(cmd, shell=True, cwd=cwd, env=e, stdout=subprocess.PIPE, stderr=subprocess.STDOUT, text=True)
    return r.returncode, r.stdout


def main():
    prop = sys.argv[1]
    props = [prop] + RELIED.get(prop, [])
    if '--props' in sys.argv: props = sys.argv[sys.argv.index('--props') + 1].split(',')
    src = '/tmp/seed/R%s/out' % prop
    if '--from' in sys.argv: src = sys.argv[sys.argv.index('--from') + 1]
    if sh('git -C /repo status --porcelain')[1].strip():
        print('/repo is not clean, refusing'); sys.exit(2)
    scratch = tempfile.mkdtemp(prefix='refcheck-')
    alarms = 0
    try:
        for diff in sorted(glob.glob(src + '/refactor*.diff')):
            n = re.search(r'refactor(\d+)\.diff', diff).group(1)
            out = '%s/refactors/%s-%s' % (V, prop, n); os.makedirs(out, exist_ok=True)
            res = {}
            try:
                c, o = sh('git -C /repo apply %s' % diff)
                if c != 0:
                    print('%s-%s: patch does not apply: %s' % (prop, n, o.strip()[:300])); continue
                _, stat = sh('git -C /repo diff --stat | tail -4')
                for p in props:
                    c, o = sh('./run check %s --tier quick' % p, cwd=V,
                              env={'VERIF_EVIDENCE_DIR': scratch + '/ev', 'VERIF_OUT_DIR': scratch + '/out'})
                    rules = re.findall(r'^\s+rule=(\S+) fn=(.*?) site=(\S*) :: (.*)$', o, re.M)
                    res[p] = dict(exit=c, rules=[dict(rule=r[0], fn=r[1], detail=r[3][:300]) for r in rules])
                    if c == 2: res[p]['failure'] = o[-1500:]
                    print('%s-%s check %s exit=%d' % (prop, n, p, c))
                    for r in rules: print('    %s :: %s' % (r[0], r[3][:160]))
                    if c == 2: print(o[-1500:])
                    if c != 0: alarms += 1
            finally:
                sh('git -C /repo checkout -- .')
            shutil.copy(diff, out + '/patch.diff')
            mp = out + '/meta.json'
            meta = json.load(open(mp)) if os.path.exists(mp) else {}
            meta.update(property=prop, n=int(n), diffstat=stat.strip(), checks=res,
                        silent=all(v['exit'] == 0 for v in res.values()))
            json.dump(meta, open(mp, 'w'), indent=1)
            rp = src + '/REPORT.txt'
            if os.path.exists(rp): shutil.copy(rp, '%s/refactors/%s-AGENT_REPORT.txt' % (V, prop))
    finally:
        shutil.rmtree(scratch, ignore_errors=True)
    print('alarms:', alarms)


if __name__ == '__main__':
    main()
