"""C12 — log encoding (DESIGN §5 C12)."""
from .common import *

INST = 'v1::Instance'; DV = 'v1::DecisionVariable'


def check(ctx):
    R = 'C12'
    body = ctx.method(R + '.anchor/log_encode', INST, 'log_encode')
    if body is None: return
    # the encoding loop = the loop that pushes decision variables
    pushes = [c for c in body.calls if c.item == 'push' and re.search(r'Vec::<v1::DecisionVariable>::push', c.name)]
    ctx.check(len(pushes) == 1, R + '.loop/one-push', 'T-LOOPMUST', body.name, 'expected one decision_variables.push, found %d' % len(pushes), body.site())
    if len(pushes) != 1: return
    push = pushes[0]
    loop = [lo for lo in T.for_loops(body) if push.bb in lo[4]]
    ctx.check(len(loop) == 1, R + '.loop/found', 'T-LOOPMUST', body.name, 'the push is not inside exactly one loop', body.site(push.bb))
    if len(loop) != 1: return
    nextc, header, some_bb, none_bb, blocks = loop[0]

    def dominates_loop(g, rule, what):
        ctx.check(body.dominates(g.switch_bb, header), rule, 'T-GUARD', body.name, '%s does not dominate the encoding loop' % what, body.site(g.switch_bb))

    # ---- guard 1: unknown variable
    finds = [c for c in body.calls if c.item in ('find', 'position') and 'Iterator' in (c.trait or '')]
    ctx.check(len(finds) == 1, R + '.guards/unknown/lookup', 'T-ERRFLOW', body.name, 'expected one lookup of the variable, found %d' % len(finds), body.site())
    for c in finds:
        r = ctx.S.slice_operand(body, c.args[0]); cl = ctx.S.slice_operand(body, c.args[1])
        ctx.check(r.has_field(INST, 'decision_variables') and cl.has_field(DV, 'id') and 2 in cl.params, R + '.guards/unknown/by-id', 'T-CARRY', body.name,
                  'lookup does not search decision_variables by the given id', body.site(c.bb))
        errflow_calls(ctx, R + '.guards/unknown/none-is-error', body, [c], 'variable lookup')
        ctx.check(body.dominates(c.bb, header), R + '.guards/unknown/dominates', 'T-GUARD', body.name, 'lookup does not dominate the loop', body.site(c.bb))
    # ---- guard 2: integer kind
    kc = enum_eq_guard(ctx, R + '.guards/kind', body, r'decision_variable::Kind$', 'Integer', True, 'kind() == Integer', src_need=lambda s: s.has_field(DV, 'kind'))
    if kc is not None:
        ctx.check(body.dominates(kc.bb, header), R + '.guards/kind/dominates', 'T-GUARD', body.name, 'kind test does not dominate the loop', body.site(kc.bb))
    # ---- guard 3: bound present
    bopts = [c for c in body.calls if re.search(r'Option::<v1::Bound>::as_ref$|Option::<&v1::Bound>', c.name) and c.item in ('as_ref', 'ok_or', 'ok_or_else')]
    bopts = [c for c in body.calls if c.item == 'as_ref' and 'Option::<v1::Bound>' in c.name]
    ctx.check(len(bopts) >= 1, R + '.guards/no-bound/access', 'T-ERRFLOW', body.name, 'no access to the optional bound found', body.site())
    for c in bopts:
        r = ctx.S.slice_operand(body, c.args[0])
        ctx.check(r.has_field(DV, 'bound'), R + '.guards/no-bound/field', 'T-CARRY', body.name, 'not the variable\'s bound', body.site(c.bb))
        errflow_calls(ctx, R + '.guards/no-bound/none-is-error', body, [c], 'missing bound')
        ctx.check(body.dominates(c.bb, header), R + '.guards/no-bound/dominates', 'T-GUARD', body.name, 'bound test does not dominate the loop', body.site(c.bb))
    # bound must never be defaulted
    for c in body.calls:
        if 'v1::Bound' in c.name and c.item in ('unwrap_or_default', 'unwrap_or', 'unwrap_or_else'):
            ctx.bad(R + '.guards/no-bound/defaulted', 'T-ERRFLOW', body.name, 'missing bound is defaulted by ' + c.item, body.site(c.bb))
    # ---- guard 4: finiteness of both ends
    for side in ('lower', 'upper'):
        ok = None
        for c in body.calls:
            if c.item == 'is_finite' and 'f64' in c.name:
                fs, root, _ = T.access_path(body, c.args[0])
                if ('v1::Bound', side) in fs and ('v1::DecisionVariable', 'bound') in fs:
                    for g in T.guards_from_call(body, c):
                        ctx.counters['cfg_paths'] += 1
                        if g.requires(True) and body.dominates(g.switch_bb, header): ok = (c, g)
        ctx.check(ok is not None, R + '.guards/finite/' + side, 'T-GUARD', body.name,
                  'no `bound.%s.is_finite()` test guarding the encoding loop (an infinite bound makes the bit count unbounded)' % side, body.site())
    # ---- guard 5: the range contains an integer
    okr = None
    for bi, st in float_cmp_sites(body, ('Ge', 'Lt', 'Gt', 'Le')):
        ops = st['rv']['ops']
        if not any(o['k'] == 'const' and T.f64_const(o['v']) == 0.0 for o in ops): continue
        other = [o for o in ops if o['k'] != 'const']
        if not other: continue
        s = ctx.S.slice_operand(body, other[0])
        if s.has_call(r'f64>::floor$') and s.has_call(r'f64>::ceil$') and s.has_field('v1::Bound', 'upper') and s.has_field('v1::Bound', 'lower'):
            op = st['rv']['op']; const_right = ops[1]['k'] == 'const'
            # u_l >= 0 must hold: Ge(x,0) true / Lt(x,0) false / Le(0,x) true / Gt(0,x) false
            need = (op == 'Ge' and const_right) or (op == 'Le' and not const_right)
            need_false = (op == 'Lt' and const_right) or (op == 'Gt' and not const_right)
            for g in T.guards_from_local(body, st['dst']['l'], bi):
                if (need and g.requires(True)) or (need_false and g.requires(False)):
                    if body.dominates(g.switch_bb, header): okr = (bi, g)
    ctx.check(okr is not None, R + '.guards/empty-range', 'T-GUARD', body.name, 'no `floor(upper) - ceil(lower) >= 0` test guarding the loop', body.site())
    # floor on upper, ceil on lower (not swapped)
    for c in body.calls:
        if c.item in ('floor', 'ceil') and 'f64' in c.name and not (set(blocks) & {c.bb}):
            fs, root, _ = T.access_path(body, c.args[0])
            if ('v1::Bound', 'upper') in fs:
                ctx.check(c.item == 'floor', R + '.round/upper-floor', 'T-BRANCHFX', body.name, 'upper bound is rounded with ' + c.item, body.site(c.bb))
            elif ('v1::Bound', 'lower') in fs:
                ctx.check(c.item == 'ceil', R + '.round/lower-ceil', 'T-BRANCHFX', body.name, 'lower bound is rounded with ' + c.item, body.site(c.bb))
    # ---- C12.cast: f64 -> usize cast feeding the loop bound is dominated by finiteness tests
    si = ctx.S.slice_operand(body, nextc.args[0])
    casts = [(bi, st) for bi, st in body.stmts() if st['rv']['k'] == 'cast' and st['rv']['to'] == 'usize' and st['dst']['l'] in si.locals
             and st['rv']['ops'][0]['k'] in ('copy', 'move') and body.locals[st['rv']['ops'][0]['pl']['l']] == 'f64']
    for bi, st in casts:
        s = ctx.S.slice_operand(body, st['rv']['ops'][0])
        srcs = sorted(f for a, f in s.fields if a.endswith('v1::Bound'))
        guarded = []
        for c in body.calls:
            if c.item == 'is_finite':
                gs = [g for g in T.guards_from_call(body, c) if g.requires(True) and body.dominates(g.switch_bb, bi)]
                if gs: guarded += [f for a, f in T.access_path(body, c.args[0])[0] if a.endswith('v1::Bound')]
        ctx.check(set(srcs) <= set(guarded), R + '.cast/finite-before-usize', 'T-GUARD', body.name,
                  'loop trip count is an f64→usize cast of a value depending on %s without a dominating finiteness test' % sorted(set(srcs) - set(guarded)), body.site(bi))
    # ---- single-integer range: constant result, nothing pushed
    eq0 = None
    for bi, st in float_cmp_sites(body, ('Eq',)):
        if any(o['k'] == 'const' and T.f64_const(o['v']) == 0.0 for o in st['rv']['ops']):
            oth = [o for o in st['rv']['ops'] if o['k'] != 'const']
            ex = T.expr(body, oth[0]) if oth else ('local', -1)
            if not (T.expr_has_call(ex, 'floor') and T.expr_has_call(ex, 'ceil')): continue
            for g in T.guards_from_local(body, st['dst']['l'], bi):
                r = T.reach_cp(body, [g.true_bb])
                if (r & body.strict_ok_exits()) and push.bb not in r and not (r & set(blocks)): eq0 = (bi, g)
    ctx.check(eq0 is not None, R + '.single/returns-without-push', 'T-BRANCHFX', body.name, 'no `u - l == 0` early return that adds no variable', body.site())
    if eq0:
        r = T.reach_cp(body, [eq0[1].true_bb])
        for e, k, st in body.ret_assignments():
            if e in r and k == 'ok':
                s = ctx.S.slice_operand(body, st['rv']['ops'][0])
                ctx.check(s.has_call(r'From<f64> for v1::Linear>::from') and s.has_call(r'f64>::ceil$') and s.has_field('v1::Bound', 'lower'),
                          R + '.single/constant-is-lower', 'T-CARRY', body.name, 'the constant returned for a single-integer range is not ceil(lower)', body.site(e))
    # ---- atomic
    for what, bi, badexits in T.check_atomic(body, ctx.S, ctx.F):
        ctx.check(not badexits, R + '.atomic', 'T-ATOMIC', body.name, 'an Err-exit (bb%s) is reachable after mutation `%s`' % (badexits, what), body.site(bi))
    writes_only(ctx, R + '.only-decision-variables', body, {'decision_variables'})
    # ---- pushed variables
    aggs = [(bi, st) for bi, st in find_aggregates(body, DV) if bi in blocks]
    ctx.check(len(aggs) == 1, R + '.vars/one-aggregate', 'T-CARRY', body.name, 'expected one DecisionVariable aggregate in the loop, found %d' % len(aggs), body.site())
    for bi, st in aggs:
        ks = carry_field(ctx, R + '.vars/kind-binary', body, st, 'kind', need_consts=[r'Kind::Binary'], site=body.site(bi))
        if ks is not None:
            ctx.check(not ks.has_const(r'Kind::(Integer|Continuous|SemiInteger|SemiContinuous|Unspecified)'), R + '.vars/kind-only-binary', 'T-CONST', body.name, 'kind depends on another Kind constant', body.site(bi))
        bo = agg_field_operand(st, 'bound'); okb = False
        s = slice_op(ctx, body, bo)
        for b2, st2 in find_aggregates(body, 'v1::Bound'):
            if st2['dst']['l'] in s.locals:
                vals = [T.f64_const(o['v']) if o['k'] == 'const' else None for o in st2['rv']['ops']]
                fl = st2['rv']['fields']
                d = dict(zip(fl, vals))
                okb = d.get('lower') == 0.0 and d.get('upper') == 1.0
        ctx.check(okb, R + '.vars/bound-0-1', 'T-CONST', body.name, 'bound of the new variables is not Some([0,1])', body.site(bi))
        ids = fresh_id_rule(ctx, R + '.vars/fresh-id', body, agg_field_operand(st, 'id'), 'id of the new binary variable')
        ctx.check(nextc in ids.call_objs, R + '.vars/id-per-bit', 'T-CARRY', body.name, 'id does not depend on the bit index', body.site(bi))
        ss = carry_field(ctx, R + '.vars/subscripts', body, st, 'subscripts', need_params=[2], site=body.site(bi))
        if ss is not None:
            ctx.check(nextc in ss.call_objs, R + '.vars/subscripts-bit', 'T-CARRY', body.name, 'subscripts do not contain the bit index', body.site(bi))
        # the same id goes into the returned linear expression
        idop = agg_field_operand(st, 'id')
        idl = idop['pl']['l'] if idop['k'] in ('copy', 'move') else None
        for e, k, rst in body.ret_assignments():
            if k == 'ok' and e not in (T.reach_cp(body, [eq0[1].true_bb]) if eq0 else set()):
                rs = ctx.S.slice_operand(body, rst['rv']['ops'][0])
                src = None
                if idl is not None:
                    for k2, b2, d2 in body.defs_of(idl):
                        if k2 == 'stmt' and d2['rv']['k'] == 'use' and d2['rv']['ops'][0]['k'] in ('copy', 'move'): src = d2['rv']['ops'][0]['pl']['l']
                ctx.check(src is not None and src in rs.locals and rs.has_call(r'impl v1::Linear>::new') and rs.has_call(r'f64>::ceil$'),
                          R + '.result/uses-new-ids-and-lower', 'T-CARRY', body.name, 'returned Linear does not use the new ids / ceil(lower)', body.site(e))
    loop_must(ctx, R + '.loop/push-every-bit', body, loop[0], lambda c: c.bb == push.bb, 'decision_variables.push')
    # the loop starts at bit 0
    rng = [st for bi, st in body.stmts() if st['rv']['k'] == 'agg' and st['rv']['adt'].endswith('ops::Range') and st['dst']['l'] in si.locals]
    ctx.check(len(rng) == 1 and rng[0]['rv']['ops'][0].get('v') == '0_usize', R + '.loop/from-bit-0', 'T-CONST', body.name, 'bit loop does not start at 0', body.site())
    ctx.floor('C12.guards', 12); ctx.floor('C12.vars', 8); ctx.floor('C12.cast', 1); ctx.floor('C12.single', 2); ctx.floor('C12.atomic', 1)


