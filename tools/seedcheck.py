#!/usr/bin/env python3
"""tools/seedcheck.py <PROP> <n> [--props C01,C05] [--base DIR] [--offset K]  — confirm a sub-agent's seeded change and run the checks against it.

1. in the scratch worktree /tmp/seed/<PROP>/wt: demo passes on HEAD; with the change the lib tests
   still pass (102) and the demo fails;
2. apply the change to /repo, run ./run check for the property (and any extra ones), undo it;
3. store patch, demo and meta.json under /verif/seeded/<PROP>-<n>/ ."""
import sys, os, subprocess, json, re, shutil, time

V = os.path.dirname(os.path.dirname(os.path.abspath(__file__)))


def sh(cmd, cwd=None, env=None, timeout=3600):
    e = dict(os.environ); e['CARGO_NET_OFFLINE'] = 'true'
    if env: e.update(env)
    r = subprocess.run(cmd, shell=True, cwd=cwd, env=e, stdout=subprocess.PIPE, stderr=subprocess.STDOUT, text=True, timeout=timeout)
    return r.returncode, r.stdout


def main():
    prop = sys.argv[1]; n = sys.argv[2]
    props = [prop]
    if '--props' in sys.argv: props = sys.argv[sys.argv.index('--props') + 1].split(',')
    base = '/tmp/seed/%s' % prop
    if '--base' in sys.argv: base = sys.argv[sys.argv.index('--base') + 1]
    offset = int(sys.argv[sys.argv.index('--offset') + 1]) if '--offset' in sys.argv else 0
    wt = base + '/wt'; out = base + '/out'
    diff = '%s/change%s.diff' % (out, n); demo = '%s/seed_demo_%s.rs' % (out, n)
    tgt = {'CARGO_TARGET_DIR': base + '/target'}
    meta = dict(property=prop, n=int(n), confirmed=False)
    sh('git checkout -- . && rm -f rust/ommx/tests/seed_demo_*.rs', cwd=wt)
    os.makedirs(wt + '/rust/ommx/tests', exist_ok=True)
    shutil.copy(demo, wt + '/rust/ommx/tests/seed_demo_%s.rs' % n)
    c0, o0 = sh('cargo test -p ommx --offline --test seed_demo_%s 2>&1 | tail -15' % n, cwd=wt, env=tgt)
    demo_clean_pass = 'test result: ok' in o0
    c, o = sh('git apply %s' % diff, cwd=wt)
    if c != 0:
        print('patch does not apply:', o); meta['error'] = 'patch does not apply'
    c1, o1 = sh('cargo test -p ommx --lib --offline 2>&1 | grep -E "^test result|FAILED|error(\\[|:)" | head', cwd=wt, env=tgt)
    m = re.search(r'test result: ok\. (\d+) passed', o1)
    lib_pass = bool(m) and int(m.group(1)) >= 102
    c2, o2 = sh('cargo test -p ommx --offline --test seed_demo_%s 2>&1 | tail -25' % n, cwd=wt, env=tgt)
    demo_mut_fail = 'test result: FAILED' in o2 or 'panicked' in o2
    sh('git checkout -- . && rm -f rust/ommx/tests/seed_demo_*.rs', cwd=wt)
    meta.update(demo_passes_on_head=demo_clean_pass, lib_tests_pass_with_change=lib_pass, demo_fails_with_change=demo_mut_fail)
    meta['confirmed'] = demo_clean_pass and lib_pass and demo_mut_fail
    print('confirm: demo on HEAD pass=%s, lib tests with change pass=%s (%s), demo with change fails=%s' % (demo_clean_pass, lib_pass, m.group(0) if m else o1.strip()[-200:], demo_mut_fail))
    # run the checks on the scratch work tree (at /repo's HEAD) with the change applied; /repo is not touched
    results = {}
    head = subprocess.run('git -C /repo rev-parse HEAD', shell=True, stdout=subprocess.PIPE, text=True).stdout.strip()
    sh('git checkout -q --detach %s' % head, cwd=wt)
    try:
        c, o = sh('git apply %s' % diff, cwd=wt)
        if c != 0: print('cannot apply to the work tree at HEAD', o)
        for p in props:
            c, o = sh('./run check %s --tier quick' % p, cwd=V, env={'VERIF_REPO': wt, 'VERIF_CACHE': base + '/cache', 'VERIF_EVIDENCE_DIR': base + '/cache/evidence', 'VERIF_OUT_DIR': base + '/cache/outreplay'})
            rules = re.findall(r'^\s+rule=(\S+) fn=(.*?) site=(\S*) :: (.*)$', o, re.M)
            results[p] = dict(exit=c, rules=sorted({r[0] for r in rules}), first=(rules[0][3][:200] if rules else ''))
            print('  check %s exit=%d %s' % (p, c, sorted({r[0] for r in rules})[:6]))
            if c == 2: print(o[-800:])
    finally:
        sh('git checkout -- .', cwd=wt)
    meta['checks'] = results
    meta['detected'] = any(v['exit'] == 1 for v in results.values())
    d = os.path.join(V, 'seeded', '%s-%d' % (prop, int(n) + offset)); os.makedirs(d, exist_ok=True)
    meta['n'] = int(n) + offset
    meta['round'] = (int(n) + offset + 1) // 2
    shutil.copy(diff, d + '/patch.diff'); shutil.copy(demo, d + '/seed_demo.rs')
    for rep in (out + '/REPORT.md', out + '/REPORT.txt'):
        if os.path.exists(rep): shutil.copy(rep, d + '/AGENT_REPORT.md')
    meta['ran'] = ['cargo test -p ommx --offline --test seed_demo_%s (HEAD: pass, with change: fail)' % n, 'cargo test -p ommx --lib --offline (with change: 102 pass)',
                   'patch applied to a scratch work tree at /repo HEAD; VERIF_REPO=<work tree> ./run check %s --tier quick' % ','.join(props)]
    json.dump(meta, open(d + '/meta.json', 'w'), indent=1)
    print('detected' if meta['detected'] else 'MISSED', '->', d)


if __name__ == '__main__':
    main()
