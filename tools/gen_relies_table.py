#!/usr/bin/env python3
"""Regenerates the RELIES_ON table in DESIGN.md (between <!-- RELIES:BEGIN --> / <!-- RELIES:END -->) from the
module attributes, so that the document cannot drift from what the checks do."""
import importlib, os, re, sys
V = os.path.dirname(os.path.dirname(os.path.abspath(__file__)))
sys.path.insert(0, os.path.join(V, 'engine'))
WHY = {
 ('C03', 'C06'): 'a fixed variable is read back through SampleSet::get, where the recorded value must win (seed C03-9)',
 ('C03', 'C05'): 'evaluate after partial_evaluate passes check_bound again; it may refuse only a submitted value outside its bound (seed C03-20)',
 ('C04', 'C01'): 'substitution results are evaluated by the C01 kernels (seed C04-10)',
 ('C04', 'C02'): '`v * r`, `v * x_id`, `out + v` in Function::substitute are the C02 product / sum kernels (seed C04-15)',
 ('C04', 'C03'): 'partial evaluation must rewrite the dependency functions, or chains cannot be recovered afterwards (seed C04-12)',
 ('C04', 'C05'): 'the bound check applies to the submitted state (seed C04-14)',
 ('C05', 'C01'): "a Solution's numbers come from the evaluation kernels (seed C05-7, C05-14)",
 ('C05', 'C04'): 'dependent variables are recovered by eval_dependencies (seed C05-7)',
 ('C05', 'C03'): 'previously fixed values are reported from substituted_value, which partial_evaluate must only ever add to (seed C05-15)',
 ('C06', 'C01'): 'evaluate_samples shares the kernels with evaluate; used ids must not depend on the state (seed C06-11)',
 ('C06', 'C04'): 'evaluate_samples recovers dependent variables per sample (seeds C06-13, C04-16)',
 ('C06', 'C05'): 'completion of omitted variables is shared with evaluate (seed C06-10)',
 ('C06', 'C03'): 'after partial evaluation the dependency functions must not mention fixed variables (seed C06-15)',
 ('C07', 'C20'): 'readable artifacts need the published media types, plain decoding and unchanged bytes (seeds C07-4, C07-7, C07-8, C07-12, C07-16)',
 ('C07', 'C15'): 'a field kept for messages of earlier releases is readable only through its fallback accessor (seed C07-10)',
 ('C09', 'C14'): 'only when a penalty method calls relax_constraint (RELIES_IF): a `while let Some(c) = constraints.first() { relax_constraint(c.id, ..)? }` loop is read through the summary of relax_constraint that C14 decides (refactoring C09-106)',
 ('C09', 'C02'): 'the penalty objective is built with `weight * g`, `g * g`, `f + ..` (seed C09-12)',
 ('C10', 'C03'): 'with_parameters is partial evaluation (seeds C10-2, C10-12, C10-15)',
 ('C11', 'C08'): 'the binary-only refusal reads the used-id kernel (seed C11-5)',
 ('C13', 'C02'): '`f + b*s` uses the Add kernels (seed C13-9)',
 ('C13', 'C05'): 'slack ranges come from get_bounds (seed C13-11)',
 ('C14', 'C05'): 'feasibility after relax / restore is decided by evaluate (seeds C14-12, C14-15); whether a state is accepted at all by check_bound (seed C14-20)',
 ('C14', 'C06'): '… and by evaluate_samples (seeds C14-9, C14-15)',
 ('C15', 'C07'): 'best-of reads SampleSet tables whose layout is the schema (seed C15-4)',
 ('C15', 'C06'): 'best-of reads the compressed tables and the flags of SampleSet::get (seeds C15-6, C15-13)',
 ('C15', 'C02'): 'negation of the objective goes through the scalar kernels (seeds C15-11, C15-14, C15-15)',
 ('C18', 'C17'): 'the round trip reads back through the MPS reader (seeds C18-2, C18-10, C18-12, C18-13, C18-16)',
}

def short(prefixes):
    heads = []
    for p in prefixes:
        h = '/'.join(p.split('/')[:2]) if p.count('/') > 1 else p
        h = re.sub(r'#$', '', h)
        if h not in heads: heads.append(h)
    if len(heads) > 6: heads = heads[:5] + ['… (%d prefixes)' % len(prefixes)]
    return ', '.join('`%s`' % h for h in heads)

rows = ['| property | re-decides (rule-family prefixes) | because |', '|---|---|---|']
for i in range(1, 21):
    p = 'C%02d' % i
    try: m = importlib.import_module('sa.rules.' + p)
    except Exception: continue
    for dep, pre in sorted((getattr(m, 'RELIES_ON', None) or {}).items()):
        rows.append('| %s | %s: %s | %s |' % (p, dep, short(pre), WHY.get((p, dep), '')))
d = open(os.path.join(V, 'DESIGN.md')).read()
b, e = '<!-- RELIES:BEGIN -->', '<!-- RELIES:END -->'
assert b in d and e in d
d = d[:d.index(b) + len(b)] + '\n' + '\n'.join(rows) + '\n' + d[d.index(e):]
open(os.path.join(V, 'DESIGN.md'), 'w').write(d)
print(len(rows) - 2, 'rows')
