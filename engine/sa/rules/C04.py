"""C04 — substitution and dependent variables (DESIGN §5 C04).

Written against the normal form (`VIEW = 'norm'`): an extracted helper is seen where it is called, an
iterator pipeline with closures is the `next` loop a `for` lowers to.  On top of that the rules are
formulated on *routes* and *roles*, not on the number or order of syntactic items:

  C04.instance  for each of the four holders of functions (objective, constraints[].function,
                removed_constraints[].constraint.function, decision_variable_dependency values) there is a
                call `Function::substitute(r, map)` whose receiver `r` is reached from `self` along exactly
                that access path (followed through reborrows, destructuring of self, `as_mut`, `if let`,
                `for` loops, `Option::iter_mut`, `chain`, projection-only `filter_map`s …); `map` is the
                parameter; the error propagates; the result is stored through `r`; no element of the holder
                can be skipped on a path to an Ok-exit; the replacement map is recorded in the dependency
                map on every Ok path, after the existing dependencies were rewritten; nothing else is written.
  C04.function  one pass over the terms of *self* (simultaneous substitution): the sum accumulator starts
                from zero, gets `+ product` for every term and is returned; the product starts from
                `Function::from(coefficient)` and is multiplied, for every id of the term, by the
                replacement found for *that id* in the *parameter map* or else by `x_id`
                (`single_term(id, 1.0)`); an Ok-exit that bypasses the pass is only allowed for the empty map.
  C04.deps      work-list fixed point: the work list starts from every dependency; each taken entry is
                evaluated at the state being completed; Ok => state[id of the same entry] = value;
                Err => the same entry is kept as pending; Ok is only returned when nothing is pending; a
                round without progress is an error (comparison of the pending size with the size of the
                round's work list, on every retry path); pending entries become the next work list.
  C04.use       Instance::evaluate / evaluate_samples run eval_dependencies on the dependency map with the
                error propagated and before omitted variables are filled with defaults.
"""
from .common import *
from ..facts import Facts
from .. import normalize as NZ
from .. import dataflow as DF

VIEW = 'norm'

INST = 'v1::Instance'
SUBST = r'impl v1::Function>::substitute$'

# ------------------------------------------------------------------------------------------------ tables
# unary calls crossed on the way from `self.<holder>` to the `&mut Function` handed to substitute that
# neither drop nor duplicate an element that holds a function (first argument = what they are applied to)
TRAVERSE = {
    'as_mut': 'Option<T> -> Option<&mut T>: same payload',
    'as_ref': 'Option<T> -> Option<&T>',
    'as_deref_mut': 'Option<Box<T>> -> Option<&mut T>',
    'as_deref': 'Option<Box<T>> -> Option<&T>',
    'deref': 'Vec -> slice, Box -> T', 'deref_mut': 'Vec -> slice, Box -> T',
    'borrow': 'Borrow', 'borrow_mut': 'BorrowMut', 'as_slice': 'Vec::as_slice', 'as_mut_slice': 'Vec::as_mut_slice',
    'iter': 'every element once', 'iter_mut': 'every element once (slice, Vec, HashMap, Option)',
    'values': 'every value of a map once', 'values_mut': 'every value of a map once',
    'into_iter': 'IntoIterator of a collection / reference to it: every element once; identity on iterators',
    'by_ref': 'Iterator::by_ref', 'rev': 'order only', 'fuse': 'Iterator::fuse', 'peekable': 'Iterator::peekable',
    'enumerate': 'adds an index', 'flatten': 'over Option items: drops exactly the `None`s (nothing to rewrite)',
}
# binary: both operands are traversed completely
TRAVERSE_BOTH = {'chain': 'a.chain(b): all of a, then all of b'}
# adaptors with a closure: transparent iff the closure only projects its argument (fields, as_mut, …, no branch):
# then `filter_map(|c| c.function.as_mut())` drops exactly the elements whose Option on the path is None ≡ `if let Some(f) = c.function.as_mut()`
CLOSURE_PROJECTING = {'filter_map': 'keeps the Some payloads', 'map': 'one to one', 'flat_map': 'all items of the projected Option/collection'}
# the same on an Option instead of an iterator ("combinator instead of nested if-let"): `o.as_mut().and_then(|c| c.function.as_mut())`
# ≡ `if let Some(c) = o.as_mut() { if let Some(f) = c.function.as_mut() {..} }`: None (at either level) = nothing to rewrite
OPTION_PROJECTING = {'and_then': 'Option<T> -> Option<U> through a projection returning an Option', 'map': 'Option<T> -> Option<U> through a projection'}
# projections that are not part of the message schema
def _schema_field(adt):
    return not (adt == 'tuple' or adt.endswith('Option::Some') or adt.endswith('ControlFlow::Continue') or adt.endswith('Result::Ok'))

HOLDERS = {
    'objective': [(INST, 'objective')],
    'constraints': [(INST, 'constraints'), ('v1::Constraint', 'function')],
    'removed_constraints': [(INST, 'removed_constraints'), ('v1::RemovedConstraint', 'constraint'), ('v1::Constraint', 'function')],
    'decision_variable_dependency': [(INST, 'decision_variable_dependency')],
}


# ------------------------------------------------------------------------------------------------ generic helpers
def _whole_defs(b, l):
    return [d for d in b.defs_of(l) if not (d[0] == 'stmt' and d[2]['dst']['p'])]


def _call_at(b, bi):
    for c in b.calls:
        if c.bb == bi: return c
    return None


def _adt_is(a, want):
    return a == want or a.endswith('::' + want)


def _path_is(fields, want):
    fs = [(a, f) for a, f in fields if _schema_field(a)]
    return len(fs) == len(want) and all(f == wf and _adt_is(a, wa) for (a, f), (wa, wf) in zip(fs, want))


def _option_tests(b, l, prefix):
    """`match`/`if let` on the Option at place l.prefix: list of (switch_bb, some_target, none_target)"""
    out = []
    for kind, bi, st in b.uses.get(l, ()):
        if kind == 'stmt' and st['rv']['k'] == 'discr' and st['rv']['pl']['l'] == l and st['rv']['pl']['p'] == prefix:
            for k3, b3, sw in b.uses.get(st['dst']['l'], ()):
                if k3 == 'switch':
                    m = {v: t for v, t in sw['ts']}
                    out.append((b3, m.get(1, sw['else']), m.get(0, sw['else'])))
    return out


class Route:
    """one way a reference is derived from a parameter: schema fields crossed (outermost first), loops whose
    item it comes from (outermost first), None-targets of the Option tests crossed, calls crossed"""
    def __init__(self, root=None, unknown=None):
        self.root = root; self.fields = []; self.loops = []; self.none_bbs = set(); self.calls = []; self.unknown = list(unknown or [])

    def ok(self): return not self.unknown and self.root is not None

    def __repr__(self):
        return 'Route(root=%s %s loops=%s calls=%s none=%s unknown=%s)' % (self.root, '.'.join(f for a, f in self.fields if _schema_field(a)), [lo[1] for lo in self.loops], self.calls, sorted(self.none_bbs), self.unknown)


def trace_operand(F, b, op, depth=0):
    if op['k'] not in ('copy', 'move'): return [Route(unknown=['not a place'])]
    return trace_place(F, b, op['pl'], depth)


def trace_place(F, b, pl, depth=0):
    l = pl['l']
    routes = trace_local(F, b, l, depth)
    fs = fields_of_place(pl)
    none = set()
    d = _whole_defs(b, l)
    from_next = len(d) == 1 and d[0][0] == 'call' and (d[0][2].get('ri') or {}).get('item') == 'next'
    for i, p in enumerate(pl['p']):
        if isinstance(p, dict) and p.get('dc') == 'Some' and not (from_next and i == 0):
            # payload of an Option read after a test: the None side has nothing to rewrite
            for sb, some, nn in _option_tests(b, l, pl['p'][:i]): none.add(nn)
    for r in routes:
        r.fields = r.fields + fs; r.none_bbs |= none
    return routes


def _closure_projection(F, b, op):
    """Route inside the closure given by operand `op` from its returned value back to its argument, if the
    closure does nothing but project (no branch, no loop, only TRAVERSE calls); else None"""
    def fn_item(o):
        # a path to a function instead of a closure: `.and_then(Option::as_mut)`, `.map(Option::as_mut)`
        nm = (o.get('fnp') or o.get('fn') or '') if o['k'] == 'const' else ''
        it = T.strip_generics_tail(nm).split('::')[-1] if nm else None
        if it in TRAVERSE:
            r = Route(root=2); r.calls.append(it); return r
        return None
    if op['k'] == 'const': return fn_item(op)
    if op['k'] not in ('copy', 'move') or op['pl']['p']: return None
    l = op['pl']['l']
    for _ in range(6):
        d = _whole_defs(b, l)
        if len(d) != 1 or d[0][0] != 'stmt': return None
        rv = d[0][2]['rv']
        if rv['k'] == 'use' and rv['ops'][0]['k'] in ('copy', 'move') and not rv['ops'][0]['pl']['p']: l = rv['ops'][0]['pl']['l']; continue
        if rv['k'] == 'use' and rv['ops'][0]['k'] == 'const': return fn_item(rv['ops'][0])
        break
    if rv['k'] != 'agg' or not rv['adt'].startswith('closure:'): return None
    cb = F.bodies.get(rv['adt'][8:])
    if cb is None: return None
    if any(cb.blocks[bi]['term']['k'] == 'switch' for bi in cb.live): return None
    rs = trace_local(F, cb, 0, 0)
    if len(rs) != 1 or not rs[0].ok() or rs[0].root != 2 or rs[0].loops: return None
    return rs[0]


def trace_local(F, b, l, depth=0):
    if depth > 60: return [Route(unknown=['derivation too deep'])]
    if 1 <= l <= b.argc: return [Route(root=l)]
    defs = _whole_defs(b, l)
    if len(defs) != 1: return [Route(unknown=['_%d has %d definitions' % (l, len(defs))])]
    k, bi, d = defs[0]
    if k == 'stmt':
        rv = d['rv']
        if rv['k'] == 'use' and rv['ops'][0]['k'] in ('copy', 'move'): return trace_place(F, b, rv['ops'][0]['pl'], depth + 1)
        if rv['k'] == 'ref': return trace_place(F, b, rv['pl'], depth + 1)
        if rv['k'] == 'agg' and rv['adt'].endswith('Option::Some') and len(rv['ops']) == 1: return trace_operand(F, b, rv['ops'][0], depth + 1)      # Some(x): x is the payload read back later
        return [Route(unknown=['_%d is computed (%s)' % (l, rv['k'])])]
    c = _call_at(b, bi)
    item = c.item; tr = c.trait or ''
    if not c.args: return [Route(unknown=['call ' + item])]
    if item == 'next' and tr.endswith('Iterator'):
        lo = T.loop_of_next(b, c)
        rs = trace_operand(F, b, c.args[0], depth + 1)
        for r in rs:
            if lo: r.loops.append((c,) + lo)
            else: r.unknown.append('next() outside a loop')
        return rs
    if item in TRAVERSE_BOTH and tr.endswith('Iterator') and len(c.args) == 2:
        rs = trace_operand(F, b, c.args[0], depth + 1) + trace_operand(F, b, c.args[1], depth + 1)
        for r in rs: r.calls.append(item)
        return rs
    if ((item in CLOSURE_PROJECTING and tr.endswith('Iterator')) or (item in OPTION_PROJECTING and 'Option::<' in c.name)) and len(c.args) == 2:
        rs = trace_operand(F, b, c.args[0], depth + 1)
        pr = _closure_projection(F, b, c.args[1])
        for r in rs:
            if pr is None: r.calls.append(item); r.unknown.append('%s with a closure that is not a pure projection' % item)
            else: r.fields = r.fields + pr.fields; r.calls += pr.calls + [item + '(projection)']
        return rs
    if item in TRAVERSE:
        rs = trace_operand(F, b, c.args[0], depth + 1)
        for r in rs: r.calls.append(item)
        return rs
    rs = [Route(unknown=['call %s' % item])]
    rs[0].calls.append(item)
    return rs


def _ok_exits(b):
    return b.strict_ok_exits()


def _variant_tests(b, l, err_variant):
    """discriminant tests on the whole local l: (switch_bb, target of the other variants, target of variant `err_variant`)"""
    out = []
    for kind, bi, st in b.uses.get(l, ()):
        if kind == 'stmt' and st['rv']['k'] == 'discr' and st['rv']['pl'] == {'l': l, 'p': []}:
            for k3, b3, sw in b.uses.get(st['dst']['l'], ()):
                if k3 == 'switch':
                    m = {v: t for v, t in sw['ts']}
                    out.append((b3, m.get(1 - err_variant, sw['else']), m.get(err_variant, sw['else'])))
    return out


def _err_path_returns_err(b, start):
    """Follow the control path that starts in the Break arm of a `?` for as long as it is determined by the error value itself:
    the residual is converted (from_residual) into a local, possibly wrapped / moved, possibly consumed by another `?`
    (inlined helper `h(..)?`, spliced closure of try_for_each / collect::<Result<_>>) whose Break arm is then the only
    continuation, until the function returns.  True iff _0 then holds (a conversion of) that error."""
    errs = set(); branched = {}; discr_of = {}; x = start; ret_err = False
    def is_err(o): return o['k'] in ('copy', 'move') and o['pl']['l'] in errs
    for _ in range(400):
        blk = b.blocks[x]
        for st in blk['st']:
            if 'dst' not in st: continue
            rv = st['rv']; d = st['dst']
            if rv['k'] in ('use', 'agg') and any(is_err(o) for o in rv.get('ops', [])) and not d['p']:
                errs.add(d['l'])
                if d['l'] == 0: ret_err = True
            elif rv['k'] == 'discr' and rv['pl']['l'] in branched and not rv['pl']['p'] and not d['p']: discr_of[d['l']] = rv['pl']['l']
            elif not d['p'] and d['l'] in errs: errs.discard(d['l'])
        t = blk['term']; k = t['k']
        if k == 'return': return ret_err
        if k == 'call':
            nm = t['r'] or t['f']
            if t['t'] < 0: return False
            if 'from_residual' in nm and not t['dst']['p']:
                errs.add(t['dst']['l'])
                if t['dst']['l'] == 0: ret_err = True
            elif T.TRY_BRANCH.search(nm) and t['args'] and is_err(t['args'][0]) and not t['dst']['p']: branched[t['dst']['l']] = True
            x = t['t']
        elif k in ('goto', 'drop', 'assert'): x = t['t']
        elif k == 'switch':
            dl = t['d']['pl']['l'] if t['d']['k'] in ('copy', 'move') else None
            if dl in discr_of:
                m = {v: tg for v, tg in t['ts']}; x = m.get(1, t['else'])            # the value is an error: Break
            else:
                r = b.reach([y for y in b.succ(x) if not b.blocks[y]['cleanup']])
                return ret_err and not (r & _ok_exits(b))                            # (drop flags etc.) nothing behind it may turn it into a success
        else: return False
    return False


def _errflow(b, local):
    """T.errflow with the discriminant of the error variant chosen by type, plus `?` whose Break arm does not return directly"""
    nv = 1 if b.locals[local].lstrip().startswith('std::result::Result') else 0
    res = T.errflow(b, local, none_variant=nv)
    if any(k == 'bad' and 'side of match' in h for k, h in res) and len(_whole_defs(b, local)) == 1:
        # several reads of the discriminant (`if let Err(e) = r { return Err(e) }` + the drop elaboration's own reads later on): a test
        # that can only be reached through the success side of an earlier test of the same value cannot take its error side
        sw = [(sb, nn) for sb, some, nn in _variant_tests(b, local, nv)]
        live = [(sb, nn) for sb, nn in sw if not any(s1 != sb and b.dominates(s1, sb) and sb not in b.reach([n1]) for s1, n1 in sw)]
        if live and not any(b.reach([nn]) & _ok_exits(b) for sb, nn in live):
            res = [(k, h) if not (k == 'bad' and 'side of match' in h) else ('ok', 'match: error side of the deciding test reaches only Err-exits') for k, h in res]
    if not any(k == 'bad' and 'Break arm' in h for k, h in res): return res
    arms = T.try_arms(b, local)
    if not arms or not _err_path_returns_err(b, arms[1]): return res
    return [(k, h) if not (k == 'bad' and 'Break arm' in h) else ('ok', '? (error carried to the return through an inlined body)') for k, h in res]


def _errflow_calls(ctx, rule, b, calls, what):
    for c in calls:
        res = _errflow(b, c.dst['l'])
        ctx.counters['cfg_paths'] += 1
        bad = [h for k, h in res if k == 'bad']
        ctx.check(not bad, rule, 'T-ERRFLOW', b.name, '%s: %s' % (what, '; '.join(sorted(set(bad)))), b.site(c.bb), consumers=[h for k, h in res])


# ------------------------------------------------------------------------------------------------ C04.instance
def _written_back(ctx, b, c):
    """the Continue/Ok payload of call c's result is stored where the receiver was read from:
       `*f = f.substitute(..)?`  ≡  `let g = f.substitute(..)?; *f = g`  ≡  `*f = match f.substitute(..) { Ok(g) => g, Err(e) => return Err(e) }`
       ≡ by value into the Option that holds it: `c.function = Some(f.substitute(..)?)`, `self.objective = Some(..)`"""
    rf, rroot, _ = T.access_path(b, c.args[0], transparent=T.TRANSPARENT_NOCLONE)
    rf = [x for x in rf if _schema_field(x[0])]
    hits = []
    for bi, st in b.stmts():
        d = st['dst']; rv = st['rv']
        if not d['p']: continue
        by_ref = d['p'][0] == '*' and not fields_of_place(d) and rv['k'] == 'use'
        by_val = bool(fields_of_place(d)) and ((rv['k'] == 'agg' and rv['adt'].endswith('Option::Some')) or rv['k'] == 'use')
        if not (by_ref or by_val) or not rv.get('ops'): continue
        s = ctx.S.slice_operand(b, rv['ops'][0])
        if c not in s.call_objs: continue
        wf, wroot, _ = T.access_path(b, {'k': 'copy', 'pl': d}, transparent=T.TRANSPARENT_NOCLONE)
        wf = [x for x in wf if _schema_field(x[0])]
        if wroot == rroot and wf == rf and (by_ref or bool(wf)): hits.append(bi)
    return hits


def _route_checks(ctx, b, c, r):
    """(every-item, all-items, dominates) for substitute call c reached along route r"""
    oks = _ok_exits(b)
    via = {c.bb} | r.none_bbs
    every = True; dom = True
    if not r.loops:
        every = T.must_pass(b, 0, oks, via)
    else:
        inner_hdr = None
        for lo in reversed(r.loops):            # innermost first
            v = set(via) if inner_hdr is None else (r.none_bbs | {inner_hdr})
            if not T.must_pass(b, lo[2], {lo[1]}, v): every = False
            inner_hdr = lo[1]
        outer = r.loops[0]
        dom = T.must_pass(b, 0, oks, {outer[1]} | {nn for nn in r.none_bbs if nn not in outer[4]})
    restr = [x for x in r.calls if x.split('(')[0] in RESTRICTING and not x.endswith('(projection)')]
    return every, restr, dom


def instance_rules(ctx):
    R = 'C04.instance'
    b = ctx.method(R + '/anchor', INST, 'substitute')
    if b is None: return
    cover(ctx, R + '/cover', b, INST, exempt=('description', 'sense', 'parameters', 'constraint_hints', 'decision_variables'))
    subs = [c for c in b.calls if c.item == 'substitute' and re.search(SUBST, c.path)]
    routes = {id(c): trace_operand(ctx.F, b, c.args[0]) for c in subs}
    loops = T.for_loops(b)
    found = {}
    for f, want in HOLDERS.items():
        # ---- precise: a substitute call whose receiver is reached from self exactly along the holder's path
        cands = [(c, r) for c in subs for r in routes[id(c)] if r.ok() and r.root == 1 and _path_is(r.fields, want)]
        best = None
        for c, r in cands:
            every, restr, dom = _route_checks(ctx, b, c, r)
            res = dict(map=T.access_path(b, c.args[1])[1] == 2, wb=len(_written_back(ctx, b, c)) >= 1, every=every, restr=restr, dom=dom)
            score = sum(1 for k, v in res.items() if (not v if k == 'restr' else v))
            if best is None or score > best[0]: best = (score, c, r, res)
        if best is not None:
            _, c, r, res = best
            found[f] = (c, r)
            ctx.ok(R + '/rewrite/' + f, 'T-MUSTCALL', b.site(c.bb), route=repr(r))
            ctx.check(res['map'], R + '/rewrite/%s/map' % f, 'T-CARRY', b.name, 'not substituted with the given replacement map', b.site(c.bb))
            _errflow_calls(ctx, R + '/rewrite/%s/error' % f, b, [c], 'Function::substitute')
            ctx.check(res['wb'], R + '/rewrite/%s/written-back' % f, 'T-CARRY', b.name, 'the substituted function is not written back to where it was read', b.site(c.bb))
            ctx.check(res['every'], R + '/rewrite/%s/every-item' % f, 'T-LOOPMUST', b.name, 'an element of self.%s can be skipped (a path avoids the substitution without passing a `None` test of the holder)' % f, b.site(c.bb))
            ctx.check(not res['restr'], R + '/rewrite/%s/all-items' % f, 'T-LOOPMUST', b.name, 'iterator restricted by %s' % res['restr'], b.site(c.bb))
            ctx.check(res['dom'], R + '/rewrite/%s/dominates' % f, 'T-MUSTCALL', b.name, 'an Ok-exit is reachable without visiting self.%s' % f, b.site(c.bb))
            continue
        # ---- the receiver's derivation is not recognised step by step: weaker, slice based condition (undecided for the precise one)
        weak = [c for c in subs if all(ctx.S.slice_operand(b, c.args[0]).has_field(a, x) for a, x in want)]
        if not weak:
            ctx.bad(R + '/rewrite/' + f, 'T-MUSTCALL', b.name, 'functions held by self.%s are not substituted' % f, b.site()); continue
        c = weak[0]
        why = '; '.join(sorted({u for r in routes[id(c)] for u in r.unknown})) or 'no route along %s' % [x for _, x in want]
        ctx.undecided(R + '/rewrite/' + f, 'T-MUSTCALL', b.site(c.bb), 'receiver derivation not recognised: ' + why)
        ctx.ok(R + '/rewrite/%s~slice' % f, 'T-MUSTCALL', b.site(c.bb))
        ctx.check(T.access_path(b, c.args[1])[1] == 2, R + '/rewrite/%s/map' % f, 'T-CARRY', b.name, 'not substituted with the given replacement map', b.site(c.bb))
        _errflow_calls(ctx, R + '/rewrite/%s/error' % f, b, [c], 'Function::substitute')
        ctx.check(len(_written_back(ctx, b, c)) >= 1, R + '/rewrite/%s/written-back' % f, 'T-CARRY', b.name, 'the substituted function is not written back to where it was read', b.site(c.bb))
        ls = [lo for lo in loops if c.bb in lo[4]]
        nones = set()
        for adt, fld in (('v1::Constraint', 'function'), ('v1::RemovedConstraint', 'constraint'), (INST, 'objective')):
            for sb, sm, nn in option_field_tests(b, adt, fld): nones.add(nn)
        for x in b.calls:
            if x.item == 'as_mut' and 'Option::<v1::Function>' in x.name:
                for sb2, m2, els2 in T.option_arms(b, x.dst['l']): nones.add(m2.get(0, els2))
        if not ls:
            ctx.check(T.must_pass(b, 0, _ok_exits(b), {c.bb} | nones), R + '/rewrite/%s/every-item~slice' % f, 'T-LOOPMUST', b.name, 'an Ok-exit is reachable without substituting self.%s' % f, b.site(c.bb))
            ctx.ok(R + '/rewrite/%s/all-items~slice' % f, 'T-LOOPMUST', b.site(c.bb)); ctx.ok(R + '/rewrite/%s/dominates~slice' % f, 'T-MUSTCALL', b.site(c.bb))
        else:
            ctx.check(all(T.must_pass(b, lo[2], {lo[1]}, {c.bb} | nones | {l2[1] for l2 in ls if set(l2[4]) < set(lo[4])}) for lo in ls), R + '/rewrite/%s/every-item~slice' % f, 'T-LOOPMUST', b.name, 'an element can be skipped', b.site(c.bb))
            restr = sorted({x.item for lo in ls for x in ctx.S.slice_operand(b, lo[0].args[0]).call_objs if x.item in RESTRICTING and 'Iterator' in (x.trait or '')})
            ctx.check(not restr, R + '/rewrite/%s/all-items~slice' % f, 'T-LOOPMUST', b.name, 'iterator restricted by %s' % restr, b.site(c.bb))
            outer = max(ls, key=lambda lo: len(lo[4]))
            ctx.check(all(b.dominates(outer[1], e) for e in _ok_exits(b)), R + '/rewrite/%s/dominates~slice' % f, 'T-MUSTCALL', b.name, 'loop does not dominate the Ok-exit', b.site(c.bb))
        for u in ('every-item', 'all-items', 'dominates'):
            ctx.undecided(R + '/rewrite/%s/%s' % (f, u), 'T-LOOPMUST', b.site(c.bb), 'receiver derivation not recognised')
        found[f] = (c, None)
    # ---- the replacement map is recorded:  dvd.extend(replacement)  ≡  for (k, v) in replacement { dvd.insert(k, v) }
    oks = _ok_exits(b)
    rec = []          # (bb that must be passed, first bb of the recording, blocks of the recording)
    for c in b.calls:
        if c.item == 'extend' and len(c.args) == 2 and T.access_path(b, c.args[1])[1] == 2:
            rs = trace_operand(ctx.F, b, c.args[0])
            if any(r.ok() and r.root == 1 and _path_is(r.fields, HOLDERS['decision_variable_dependency']) for r in rs): rec.append((c.bb, c.bb, {c.bb}))
    for lo in loops:
        rs = trace_operand(ctx.F, b, lo[0].args[0])
        if not any(r.ok() and r.root == 2 and not [x for x in r.fields if _schema_field(x[0])] and not [x for x in r.calls if x in RESTRICTING] for r in rs): continue
        ins = [c for c in b.calls if c.bb in lo[4] and c.item == 'insert' and 'HashMap' in c.name and len(c.args) == 3
               and any(r.ok() and r.root == 1 and _path_is(r.fields, HOLDERS['decision_variable_dependency']) for r in trace_operand(ctx.F, b, c.args[0]))
               and all(lo[0].dst['l'] in ctx.S.slice_operand(b, a).locals for a in c.args[1:])]
        if ins and T.must_pass(b, lo[2], {lo[1]}, {c.bb for c in ins}): rec.append((lo[1], lo[1], set(lo[4])))
    good = [x for x in rec if T.must_pass(b, 0, oks, {x[0]})]
    ctx.check(bool(good), R + '/record-map', 'T-MUSTCALL', b.name, 'the replacement map is not added to decision_variable_dependency on every success path', b.site())
    if rec and found.get('decision_variable_dependency'):
        # existing dependencies are rewritten before the new ones are added (the new ones are not substituted into themselves)
        c, r = found['decision_variable_dependency']
        x = (good or rec)[0]
        los = r.loops if r is not None else [lo for lo in loops if c.bb in lo[4]]
        if los:
            outer = max(los, key=lambda lo: len(lo[4]))
            ok = not (x[2] & set(outer[4])) and T.must_pass(b, 0, {x[1]}, {outer[1]}) and not (b.reach([x[1]]) & {outer[1]})
        else:
            ok = T.must_pass(b, 0, {x[1]}, {c.bb}) and c.bb not in b.reach([x[1]])
        ctx.check(ok, R + '/record-after-rewrite', 'T-BRANCHFX', b.name, 'the map is recorded before existing dependencies are rewritten', b.site(x[1]))
    writes_only(ctx, R + '/only', b, {'objective', 'constraints', 'removed_constraints', 'decision_variable_dependency'})


# ------------------------------------------------------------------------------------------------ C04.function
# `it.sum::<T>()` / `it.product::<T>()` for a crate type T is `<T as Sum>::sum(it)`, which the crate writes as a fold.  The shared
# normal form only desugars sums of primitives (engine wish, see refactors/C04-NOTES.txt); until it does, this module builds a private
# normal form of the one function it needs in which such a call is replaced by the crate's impl *before* loops are desugared, so that
# `terms.map(f).sum()` is the same explicit loop as `let mut out = zero; for t in terms { out = out + f(t) }`.
FOLD_TRAITS = {'sum': 'std::iter::Sum', 'product': 'std::iter::Product'}
# The same private normal form turns the Option combinators that *consume* an Option with closures / default values into the
# `match` they abbreviate ("combinator instead of match"), closure bodies spliced:
#   o.unwrap_or_else(d) ≡ match o { Some(x) => x, None => d() }        o.unwrap_or(v) ≡ match o { Some(x) => x, None => v }
#   o.map_or_else(d, f) ≡ match o { Some(x) => f(x), None => d() }     o.map_or(v, f) ≡ match o { Some(x) => f(x), None => v }
# so that `replacements.get(id).cloned().unwrap_or_else(|| x_id)` is the same two-armed test as `if let Some(r) = replacements.get(id)`.
OPTION_CONSUMERS = {'unwrap_or_else': (None, 1, None), 'unwrap_or': (1, None, None), 'map_or_else': (None, 1, 2), 'map_or': (1, None, 2)}   # item -> (default value arg, default closure arg, map closure arg)


class _FoldNormalizer(NZ.Normalizer):
    def __init__(self, raw, known, impls):
        self.impls = impls                                   # (item, type) -> def path of `<T as Sum>::sum`
        names = set(impls.values())
        super().__init__(raw, (known or set()) - names, True)
        self.pre = NZ.Normalizer(raw, (known or set()) - names, False)
        self.touched = 0

    def body(self, name):
        if name in self.impls.values(): return self.pre.body(name)       # spliced with its fold still a call: the caller's adaptor chain is below it
        return super().body(name)

    def _normalize(self, d):
        hit = [bi for bi, blk in enumerate(d['blocks']) if self._impl_of(blk['term']) is not None]
        if hit:
            import copy
            self.touched += 1
            d = copy.deepcopy(d)
            for bi in hit:
                t = d['blocks'][bi]['term']; nm = self._impl_of(t)
                ty = (t.get('ga') or ['?'])[-1]
                t['f'] = t['r'] = t['fp'] = t['rp'] = nm
                t['ri'] = {'trait': FOLD_TRAITS[t['ri']['item']], 'targs': [ty], 'self': ty, 'item': t['ri']['item']}
        d = super()._normalize(d)
        if d.get('kind') == 'promoted': return d
        rw = NZ.Rewriter(d); rw.promoted_of = self._promoted_of
        for bi in range(len(rw.blocks)):
            try:
                self._desugar_option_consumer(rw, bi)
            except Exception:
                pass
        if rw.changed:
            self.touched += 1
            return rw.d
        return d

    def _desugar_option_consumer(self, rw, bi):
        blk = rw.blocks[bi]; t = blk['term']
        if blk['cleanup'] or t['k'] != 'call' or t.get('synthetic') or t['t'] < 0: return
        item = (t.get('ri') or {}).get('item')
        if item not in OPTION_CONSUMERS or 'Option::<' not in (t['r'] or t['f']): return
        vi, di, fi = OPTION_CONSUMERS[item]
        o = t['args'][0]
        if o['k'] not in ('copy', 'move') or o['pl']['p']: return
        dcl = self._closure_of(rw, t['args'][di]) if di is not None else None
        fcl = self._closure_of(rw, t['args'][fi]) if fi is not None else None
        if (di is not None and dcl is None) or (fi is not None and fcl is None): return
        span = t.get('span'); line = (span or {}).get('lo', 0); dst = t['dst']; cont = t['t']; ol = o['pl']['l']
        dl = rw.new_local('isize'); some = rw.new_block(); none = rw.new_block(); un = rw.new_block()
        env = NZ._const('()', 'env')
        if fcl is not None:
            rw.goto(some, rw.splice(fcl[0], [env, NZ._mv(ol, NZ.SOME0)], dst, cont, span, captures=fcl[1]))
        else:
            rw.blocks[some]['st'].append(NZ._use(dst, NZ._mv(ol, NZ.SOME0), line)); rw.goto(some, cont)
        if dcl is not None:
            rw.goto(none, rw.splice(dcl[0], [env], dst, cont, span, captures=dcl[1]))
        else:
            rw.blocks[none]['st'].append(NZ._use(dst, t['args'][vi], line)); rw.goto(none, cont)
        blk['st'].append(NZ._discr(dl, NZ._pl(ol), line))
        blk['term'] = {'k': 'switch', 'd': NZ._mv(dl), 'ts': [[0, none], [1, some]], 'else': un}
        rw.changed = True

    def _impl_of(self, t):
        if t['k'] != 'call' or t.get('synthetic'): return None
        ri = t.get('ri') or {}
        if ri.get('trait') != 'std::iter::Iterator' or ri.get('item') not in FOLD_TRAITS or len(t['args']) != 1 or not t.get('ga'): return None
        return self.impls.get((ri['item'], t['ga'][-1]))


def _fold_view(ctx, b):
    """(facts, slicer, body) to read function `b` in: the shared normal form, or the private one described above"""
    raw = getattr(ctx.F, 'raw', None)
    if raw is None: return ctx.F, ctx.S, b
    impls = {}
    for (tr, st, it), bs in raw._by_hdr.items():
        if it in FOLD_TRAITS and tr == FOLD_TRAITS[it] and st and len(bs) == 1: impls[(it, st)] = bs[0].name
    import os
    known = NZ.load_known(os.path.join(os.path.dirname(__file__), 'tables', 'known_fns.json'))
    N = _FoldNormalizer(raw, known, impls)
    try:
        d = N.body(b.name)
    except Exception:
        return ctx.F, ctx.S, b
    if not N.touched: return ctx.F, ctx.S, b                      # nothing of the above in this function: the shared normal form is used
    dicts = [d if n == b.name else x.d for n, x in ctx.F.bodies.items()]
    F2 = Facts(ctx.F.path, parts=(ctx.F.header, dicts, ctx.F.adts, ctx.F.impls, ctx.F.consts))
    F2.raw = raw
    return F2, DF.Slicer(F2, depth=ctx.S.depth), F2.bodies[b.name]


# the additive identity the sum starts from
def _is_zero_function(e0):
    if e0[0] == 'call' and e0[1] == 'zero' and 'v1::Function' in e0[2]: return True                       # Function::zero()
    if e0[0] == 'call' and e0[1] in ('from', 'into') and re.search(r'From<f64> for v1::Function|Into<v1::Function>', e0[2]) and e0[3] and e0[3][0][0] == 'const':
        return T.f64_const(e0[3][0][1]) == 0.0                                                            # Function::from(0.0)  (what `impl Sum for Function` folds from)
    return False


FROM_F64 = r'From<f64> for v1::Function>::from$|<f64 as std::convert::Into<v1::Function>>::into$'      # Function::from(c) ≡ c.into()
# how "is there a replacement for id" is asked:  item -> kind of answer
PROBES = {
    'get': 'option',              # match / if let on replacements.get(id): Some(r) = present
    'contains_key': 'bool',       # if replacements.contains_key(id) { .. replacements[id] .. }
}
OPTION_SAME = ('cloned', 'copied', 'as_ref', 'as_deref')
NO_CALLS = re.compile(r'^$')
# how the replacement is read on the `present` side
REPLACEMENT_READS = ('get', 'index')


def _def_expr(b, k, bi, d):
    if k == 'call':
        c = _call_at(b, bi)
        return ('call', c.item, c.name, [T.expr(b, a) for a in d['args']], bi)
    return T._rv_expr(b, d['rv'])


def _leaf_defs(b, l, keep, depth=0):
    """expressions assigned to local `l` in the blocks `keep(bb)`; a value that comes through a temporary with several
    definitions (`v = match .. { A => e1, B => e2 }`, `let t = if c { e1 } else { e2 }; v = t`) is expanded into e1, e2"""
    out = []
    for k, bi, d in _whole_defs(b, l):
        if not keep(bi): continue
        e = _def_expr(b, k, bi, d)
        t = e[1] if e[0] == 'local' or (e[0] == 'place' and not e[2]) else None
        if t is not None and t != l and t > b.argc and depth < 4 and len(_whole_defs(b, t)) > 1:
            out += _leaf_defs(b, t, lambda x: True, depth + 1)
        else:
            out.append(e)
    return out


def _acc_root(b, op):
    """the (possibly loop-carried, multiply defined) local an operand is a plain copy of"""
    return T.access_path(b, op, transparent=T.TRANSPARENT_NOCLONE)[1] if op['k'] in ('copy', 'move') else None


def _arm_values(b, op, arm_start, other_start, header, use_bb):
    """expressions the operand `op` of the call in `use_bb` can hold when control came through `arm_start` (and not
    `other_start`) of a test inside the loop with `header`; None if that cannot be told"""
    e = T.expr(b, op)
    if not (e[0] == 'local' or (e[0] == 'place' and not e[2])): return [e]
    l = e[1]
    defs = _whole_defs(b, l)
    A = b.reach([arm_start], stop={header}) - b.reach([other_start], stop={header})
    da = [(k, bi, d) for k, bi, d in defs if bi in A]
    if not da or not T.must_pass(b, arm_start, {use_bb}, {bi for k, bi, d in da}): return None
    return [_def_expr(b, k, bi, d) for k, bi, d in da]


# ---- what a constructor call builds, read from the constructor's body (not from its name)
def _callee(F, c):
    """body of the crate function a call resolves to; `x.into()` resolves to the crate's `From<X> for T`"""
    cb = F.bodies.get(c.path) or F.bodies.get(c.name)
    if cb is None and c.item == 'into' and (c.trait or '').endswith('Into') and len(c.gargs) >= 2:
        r = F.method(c.gargs[1], 'from', trait='From', targs=[c.gargs[0]])
        cb = r[0] if len(r) == 1 else None
    return cb if cb is not None and cb.kind == 'fn' else None


def _straight_line(cb):
    return not any(cb.blocks[bi]['term']['k'] == 'switch' for bi in cb.live) and not cb.loops()


def _src(cb, op):
    """('param', i) | ('const', text) | None for an operand of a straight-line constructor body"""
    e = T.expr(cb, op)
    if e[0] == 'const': return ('const', e[1])
    if e[0] == 'place' and not e[2] and 1 <= e[1] <= cb.argc: return ('param', e[1])
    return None


def _is_embedding(cb):
    """the function only wraps its single argument (`From<Linear> for Function` = Function { function: Some(Linear(l)) }):
    straight-line, and _0 is reached from parameter 1 through moves and one-operand aggregates only"""
    if cb.argc != 1 or not _straight_line(cb) or cb.calls: return False
    e = T.expr(cb, {'k': 'copy', 'pl': {'l': 0, 'p': []}})
    for _ in range(8):
        if e[0] == 'agg' and len(e[2]) == 1: e = e[2][0]; continue
        break
    return e == ('place', 1, [])


def _constant_source(F, S, cb, depth=0):
    """source ('param', i) | ('const', text) of c if the straight-line constructor `cb` returns the constant function c:
       From<f64> for Function = Function { function: Some(Constant(c)) },  Function::zero() = the same with 0.0,
       a Linear without terms (From<f64> for Linear), or one of these behind wrapper-only conversions; else None"""
    if cb is None or depth > 4 or not _straight_line(cb): return None
    ds = _whole_defs(cb, 0)
    if len(ds) != 1: return None
    k, bi, d = ds[0]
    if k == 'call':
        c = _call_at(cb, bi); g = _callee(F, c)
        if g is not None and _is_embedding(g) and c.args:
            e = T.expr(cb, c.args[0])
            if e[0] == 'call' and len(e) > 4:
                c = _call_at(cb, e[4]); g = _callee(F, c)
            else: return None
        sub = _constant_source(F, S, g, depth + 1)
        if sub is None or sub[0] == 'const': return sub
        return _src(cb, c.args[sub[1] - 1]) if sub[1] - 1 < len(c.args) else None
    e = T.expr(cb, {'k': 'copy', 'pl': {'l': 0, 'p': []}})
    inner = None
    for _ in range(8):
        if e[0] == 'agg' and len(e[2]) == 1: inner = e; e = e[2][0]; continue
        break
    if inner is not None and inner[1].endswith('::Constant'):
        if e[0] == 'const': return ('const', e[1])
        if e[0] == 'place' and not e[2] and 1 <= e[1] <= cb.argc: return ('param', e[1])
        return None
    sm = _linear_summary(F, S, cb, depth)
    if sm is not None and sm[0] == []: return sm[1]
    return None


def _constant_operand(F, S, b, e):
    """e (expression in body b) builds a constant function: returns ('const', value) or ('operand', op) for the f64 it is built from"""
    for _ in range(6):
        if e[0] != 'call' or len(e) < 5: return None
        c = _call_at(b, e[4]); cb = _callee(F, c) if c is not None else None
        if cb is None: return None
        if _is_embedding(cb) and e[3] and e[3][0][0] == 'call': e = e[3][0]; continue
        cs = _constant_source(F, S, cb)
        if cs is None: return None
        if cs[0] == 'const': return ('const', T.f64_const(cs[1]))
        a = c.args[cs[1] - 1] if cs[1] - 1 < len(c.args) else None
        if a is None: return None
        return ('const', T.f64_const(a['v'])) if a['k'] == 'const' else ('operand', a)
    return None


def _linear_summary(F, S, cb, depth=0):
    """(terms, constant) of the v1::Linear a straight-line constructor returns: terms = [(id source, coefficient source)], sources
    in terms of the constructor's parameters / constants; None if the body is not of that kind.
       single_term(id, c) = Linear { terms: vec![Term { id, coefficient: c }], constant: 0.0 }   -> ([(param 1, param 2)], 0.0)
       From<u64>::from(id) = Self::single_term(id, 1.0)                                          -> ([(param 1, 1.0)], 0.0)"""
    if cb is None or depth > 4 or not _straight_line(cb): return None
    ds = _whole_defs(cb, 0)
    if len(ds) != 1: return None
    k, bi, d = ds[0]
    if k == 'call':
        c = _call_at(cb, bi)
        sub = _linear_summary(F, S, _callee(F, c), depth + 1)
        if sub is None: return None
        def subst(x):
            if x is None or x[0] == 'const': return x
            return _src(cb, c.args[x[1] - 1]) if x[1] - 1 < len(c.args) else None
        return [(subst(a), subst(w)) for a, w in sub[0]], subst(sub[1])
    rv = d['rv']
    if rv['k'] == 'use': return None
    if rv['k'] != 'agg' or not rv['adt'].endswith('v1::Linear') or len(rv['ops']) != 2: return None
    fields = rv.get('fields') or ['terms', 'constant']
    ti = fields.index('terms') if 'terms' in fields else 0
    terms_op, const_op = rv['ops'][ti], rv['ops'][1 - ti]
    taggs = [(b2, st) for b2, st in cb.stmts() if st['rv']['k'] == 'agg' and st['rv']['adt'].endswith('linear::Term') and len(st['rv']['ops']) == 2]
    terms = []
    if taggs:
        if len(taggs) != 1 or taggs[0][1]['dst']['p']: return None
        st = taggs[0][1]
        if terms_op['k'] not in ('copy', 'move') or st['dst']['l'] not in S.slice_operand(cb, terms_op).locals: return None
        tf = st['rv'].get('fields') or ['id', 'coefficient']
        ii = tf.index('id') if 'id' in tf else 0
        terms = [(_src(cb, st['rv']['ops'][ii]), _src(cb, st['rv']['ops'][1 - ii]))]
    return terms, _src(cb, const_op)



def function_rules(ctx):
    R = 'C04.function'
    b0 = ctx.method(R + '/anchor', 'v1::Function', 'substitute')
    if b0 is None: return
    F, S, b = _fold_view(ctx, b0)
    loops = T.for_loops(b)
    oks = _ok_exits(b)

    def route_of(op):
        rs = trace_operand(F, b, op)
        return rs[0] if len(rs) == 1 and rs[0].ok() else None

    def tuple_fields(r):
        return [f for a, f in r.fields if a == 'tuple']

    # ---- one pass over the terms of self
    term = []
    for lo in loops:
        r = route_of(lo[0].args[0])
        if r is None or r.root != 1 or r.loops or [x for x in r.fields if _schema_field(x[0])]: continue
        if not any(c.item == 'into_iter' and re.search(r'IntoIterator for &(\'\w+ )?v1::Function>::into_iter', c.name) for c in b.calls if c.dst['l'] in S.slice_operand(b, lo[0].args[0]).locals): continue
        term.append((lo, r))
    ctx.check(bool(term), R + '/term-loop', 'T-LOOPMUST', b.name, 'no loop over the terms of self itself (substitution must be simultaneous: one pass over the original terms)', b.site())
    if not term: return
    def id_loops(o):
        out = []
        for lo in loops:
            if not set(lo[4]) < set(o[4]): continue
            r = route_of(lo[0].args[0])
            if r is not None and r.loops and r.loops[-1][0] is o[0] and tuple_fields(r) == ['0'] and not [x for x in r.calls if x in RESTRICTING]: out.append(lo)
        return out
    term.sort(key=lambda x: not id_loops(x[0]))
    o, ro = term[0]
    restr = [x for x in ro.calls if x in RESTRICTING]
    ctx.check(not restr, R + '/term-loop/all-terms-of-self', 'T-LOOPMUST', b.name, 'not all terms of self are visited: %s' % restr, b.site(o[0].bb))
    # ---- Ok-exits that bypass the pass: only for the empty map, returning self unchanged
    bypass = sorted(e for e in oks if not T.must_pass(b, 0, {e}, {o[1]}))
    guards = []
    for c in b.calls:
        if c.item == 'is_empty' and 'HashMap' in c.name and T.access_path(b, c.args[0])[1] == 2:           # replacements.is_empty()
            guards += [(g.true_bb, g.false_bb) for g in T.guards_from_call(b, c)]
    for bi, st in b.stmts():                                                                              # replacements.len() == 0
        rv = st['rv']
        if rv['k'] == 'bin' and rv['op'] in ('Eq', 'Ne'):
            xs = [T.expr(b, x) for x in rv['ops']]
            ln = [x for x in xs if x[0] == 'call' and x[1] == 'len' and 'HashMap' in x[2] and T.access_path(b, _call_at(b, x[4]).args[0])[1] == 2]
            zr = [x for x in xs if x[0] == 'const' and T.f64_const(x[1]) == 0.0]
            if ln and zr:
                for g in T.guards_from_local(b, st['dst']['l'], bi):
                    guards.append((g.true_bb, g.false_bb) if rv['op'] == 'Eq' else (g.false_bb, g.true_bb))
    sc_ok = True; why = ''
    for e in bypass:
        guarded = any(t is not None and e in T.reach_cp(b, [t]) and (f is None or e not in T.reach_cp(b, [f])) for t, f in guards)
        vals = [st for bi, k, st in b.ret_assignments() if bi == e and k == 'ok']
        ident = bool(vals) and all(T.strip_wrappers(T.expr(b, st['rv']['ops'][0])) == ('place', 1, []) and T.expr_has_call(T.expr(b, st['rv']['ops'][0]), 'clone') for st in vals)
        if not guarded: sc_ok = False; why = 'an Ok-exit that skips the pass over the terms is reachable with a non-empty replacement map'
        elif not ident: sc_ok = False; why = 'the empty-map shortcut does not return a clone of self'
    ctx.check(sc_ok, R + '/shortcut-only-for-empty-map', 'T-BRANCHFX', b.name, why, b.site(bypass[0]) if bypass else b.site())
    # ---- the ids of the current term
    inner = id_loops(o)
    ctx.check(bool(inner), R + '/id-loop', 'T-LOOPMUST', b.name, 'no loop over all ids of the current term', b.site(o[0].bb))
    if not inner: return
    def from_loop_item(op, lo):
        r = route_of(op)
        return r is not None and bool(r.loops) and r.loops[-1][0] is lo[0]
    best = None
    for i in inner:
        res = _id_loop_checks(F, S, b, o, i, from_loop_item)
        sc = sum(1 for x in res.values() if x is True)
        if best is None or sc > best[0]: best = (sc, i, res)
    _, i, res = best
    ctx.check(res['probe'], R + '/probe', 'T-BRANCHFX', b.name, 'no lookup of the id in the replacement map (get / contains_key)', b.site(i[0].bb))
    ctx.check(res['key'], R + '/probe/key', 'T-CARRY', b.name, 'the lookup is not replacements.<probe>(id of this term)', b.site(i[0].bb))
    ctx.check(res['every'], R + '/probe/every-id', 'T-LOOPMUST', b.name, 'an id of the term can bypass the lookup', b.site(i[0].bb))
    ctx.check(res['replaced'], R + '/case/replaced', 'T-BRANCHFX', b.name, 'a replaced id does not multiply the term by its replacement', b.site(i[0].bb))
    ctx.check(res['kept'], R + '/case/kept', 'T-BRANCHFX', b.name, 'an id without replacement does not multiply the term by x_id (single_term(id, 1.0))', b.site(i[0].bb))
    ctx.check(res['acc'], R + '/product/accumulates', 'T-CARRY', b.name, 'the factors are not multiplied into one running product per term', b.site(i[0].bb))
    ctx.check(res['init'], R + '/product-starts-from-coefficient', 'T-CARRY', b.name, 'the factor product does not start from Function::from(coefficient of the term)', b.site(i[0].bb))
    v = res['v']
    # ---- out = out + product for every term; starts from zero; returned
    adds = [c for c in b.calls if c.bb in o[4] and c.bb not in i[4] and c.item == 'add' and (c.trait or '').endswith('ops::Add') and 'v1::Function' in c.name]
    good = None
    for c in adds:
        ra, rb = _acc_root(b, c.args[0]), _acc_root(b, c.args[1])
        for s_, p_ in ((ra, rb), (rb, ra)):
            if s_ is None or p_ is None or s_ == p_ or p_ != v: continue
            inside = _leaf_defs(b, s_, lambda x: x in o[4]); outside = _leaf_defs(b, s_, lambda x: x not in o[4])
            upd = bool(inside) and all(e[0] == 'call' and e[4:5] == (c.bb,) for e in inside)
            zero = bool(outside) and all(_is_zero_function(e) or _constant_operand(F, S, b, e) == ('const', 0.0) for e in outside)
            every = T.must_pass(b, o[2], {o[1]}, {c.bb})
            rets = [st for e, k, st in b.ret_assignments() if k == 'ok' and e not in bypass]
            ret = bool(rets) and all(_acc_root(b, st['rv']['ops'][0]) == s_ for st in rets)
            cand = dict(c=c, upd=upd, zero=zero, every=every, ret=ret)
            if good is None or sum(map(bool, cand.values())) > sum(map(bool, good.values())): good = cand
    ctx.check(good is not None, R + '/sum/adds-the-product', 'T-CARRY', b.name, 'the factor product of a term is not added to the result', b.site(o[0].bb))
    if good is None: return
    ctx.check(good['every'], R + '/sum/every-term', 'T-LOOPMUST', b.name, 'a term can be skipped', b.site(good['c'].bb))
    ctx.check(good['upd'], R + '/sum/accumulates', 'T-CARRY', b.name, 'the result is not the running sum `out = out + product`', b.site(good['c'].bb))
    ctx.check(good['zero'], R + '/sum/starts-from-zero', 'T-CONST', b.name, 'the sum does not start from the zero function', b.site(good['c'].bb))
    ctx.check(good['ret'], R + '/sum/returned', 'T-CARRY', b.name, 'the accumulated sum is not what is returned', b.site(good['c'].bb))


def _id_loop_checks(F, S, b, o, i, from_loop_item):
    """rules about one candidate loop `i` over the ids of the term of loop `o`"""
    res = dict(probe=False, key=False, every=False, replaced=False, kept=False, acc=False, init=False, v=None)
    muls = [c for c in b.calls if c.bb in i[4] and c.item == 'mul' and (c.trait or '').endswith('ops::Mul') and 'for v1::Function' in c.name]
    def map_read(e, items):
        """e is `replacements.<item>(id of loop i)`"""
        if e[0] != 'call' or e[1] not in items or 'HashMap' not in e[2] or len(e) < 5: return False
        c = _call_at(b, e[4])
        return c is not None and len(c.args) >= 2 and T.access_path(b, c.args[0])[1] == 2 and from_loop_item(c.args[1], i)
    probes = []
    for c in b.calls:
        if c.bb in i[4] and c.item in PROBES and 'HashMap' in c.name and T.access_path(b, c.args[0])[1] == 2:
            if PROBES[c.item] == 'option':
                opts = {c.dst['l']}                  # the Option and what is made of it without changing Some/None: get(id).cloned(), .copied(), .as_ref()
                for _ in range(4):
                    for x in b.calls:
                        if x.item in OPTION_SAME and 'Option::<' in x.name and x.args and T.access_path(b, x.args[0], transparent=NO_CALLS)[1] in opts: opts.add(x.dst['l'])
                for ol in sorted(opts):
                    for sb, m, els in T.option_arms(b, ol): probes.append((c, m.get(1, els), m.get(0, els)))
            else:
                for g in T.guards_from_call(b, c):
                    if g.true_bb is not None and g.false_bb is not None: probes.append((c, g.true_bb, g.false_bb))
    res['probe'] = bool(probes)
    # the running product: the local every Mul of the loop reads its left operand from and is assigned to
    vroots = {}
    for m in muls:
        for a in (0, 1):
            r = _acc_root(b, m.args[a])
            if r is not None and len(_whole_defs(b, r)) > 1: vroots.setdefault(r, []).append((m, a))
    for p, present, absent in probes:
        if not (len(p.args) >= 2 and from_loop_item(p.args[1], i)): continue
        res['key'] = True
        if T.must_pass(b, i[2], {i[1]}, {p.bb}): res['every'] = True
        for v, uses in vroots.items():
            def arm_ok(start, other, want, raw=False):
                via = set()
                for m, a in uses:
                    vals = _arm_values(b, m.args[1 - a], start, other, i[1], m.bb)
                    if vals and all(want(x if raw else T.strip_wrappers(x)) for x in vals): via.add(m.bb)
                return bool(via) and T.must_pass(b, start, {i[1]}, via)
            def is_repl(e): return map_read(e, REPLACEMENT_READS)
            def is_xid(e):
                """e builds the variable x_id itself, id = this loop's item: a constructor whose *body* yields Linear { terms: [(id, 1.0)],
                constant: 0.0 } (Linear::single_term(id, 1.0), Linear::from(id), id.into(), ...), possibly embedded into a richer function
                type by wrapper-only conversions (Function::from(linear), .into()) or cloned"""
                for _ in range(8):
                    if e[0] == 'proj' and all(T.WRAPPER_OWNER.search(a) for a, f in e[2]): e = e[1]; continue
                    if e[0] != 'call' or len(e) < 5: return False
                    c = _call_at(b, e[4])
                    if c is None: return False
                    cb = _callee(F, c)
                    if cb is None:
                        if T.TRANSPARENT_NOCLONE.search(T.strip_generics_tail(e[2])) or e[1] in ('clone', 'to_owned', 'borrow'):
                            if not e[3]: return False
                            e = e[3][0]; continue
                        return False
                    if _is_embedding(cb) and e[3]: e = e[3][0]; continue
                    sm = _linear_summary(F, S, cb)
                    if sm is None: return False
                    terms, const = sm
                    def val(x):
                        if x is None: return None
                        if x[0] == 'const': return T.f64_const(x[1])
                        a = c.args[x[1] - 1] if x[1] - 1 < len(c.args) else None
                        return T.f64_const(a['v']) if a is not None and a['k'] == 'const' else None
                    if len(terms) != 1 or val(const) != 0.0 or val(terms[0][1]) != 1.0: return False
                    ids = terms[0][0]
                    return ids is not None and ids[0] == 'param' and ids[1] - 1 < len(c.args) and from_loop_item(c.args[ids[1] - 1], i)
                return False
            rep = arm_ok(present, absent, is_repl); kept = arm_ok(absent, present, is_xid, raw=True)
            inside = _leaf_defs(b, v, lambda x: x in i[4]); outside = _leaf_defs(b, v, lambda x: x not in i[4])
            outside_in_term = all(bi in o[4] for k, bi, d in _whole_defs(b, v) if bi not in i[4])
            acc = bool(inside) and all(e[0] == 'call' and len(e) > 4 and any(m.bb == e[4] for m, a in uses) for e in inside)
            def is_coef(e):
                if e[0] != 'call' or len(e) < 5: return False
                co = _constant_operand(F, S, b, e)                  # by the constructor's body: the constant function of an f64 ...
                if co is not None and co[0] == 'operand': op = co[1]
                elif re.search(FROM_F64, e[2]): op = _call_at(b, e[4]).args[0]          # ... or the conversion by name (body not available)
                else: return False
                rs = trace_operand(b.facts, b, op)
                return len(rs) == 1 and rs[0].ok() and bool(rs[0].loops) and rs[0].loops[-1][0] is o[0] and [f for a, f in rs[0].fields if a == 'tuple'] == ['1']
            init = bool(outside) and outside_in_term and all(is_coef(e) for e in outside)
            sc = (rep, kept, acc, init)
            if res['v'] is None or sum(sc) > sum((res['replaced'], res['kept'], res['acc'], res['init'])):
                res.update(replaced=rep, kept=kept, acc=acc, init=init, v=v)
    return res


# ------------------------------------------------------------------------------------------------ C04.deps
# taking one entry out of the work list: the call's Option result, Some(entry)
TAKE = {
    'pop': 'Vec::pop / VecDeque::pop_back in a `while let`',
    'pop_back': 'VecDeque', 'pop_front': 'VecDeque',
    'next': 'for entry in work.into_iter() / .rev() / .drain(..)',
}
# between the work list and the take call: every entry once, any order
WORK_TRAVERSE = re.compile(r'::(into_iter|iter|rev|by_ref|deref|deref_mut|as_slice|as_mut_slice|into_vec)(::<.*>)?$')
# keeping an entry for the next round
PUT = {'push': 'Vec', 'push_back': 'VecDeque', 'push_front': 'VecDeque'}
# pending size vs size of the round's work list: (op, position of pending len) -> value of the comparison that means "no progress"
#   entries of a round are either evaluated or pending, so pending <= work; progress <=> pending < work
NO_PROGRESS = {
    ('Eq', 0): True, ('Eq', 1): True,        # pending == work
    ('Ne', 0): False, ('Ne', 1): False,      # pending != work  is progress
    ('Lt', 0): False,                        # ensure!(pending < work)
    ('Gt', 1): False,                        # work > pending
    ('Ge', 0): True,                         # pending >= work
    ('Le', 1): True,                         # work <= pending
}


def _taken(b, op):
    """operand is (a projection of) the entry produced by a TAKE call: (call, tuple fields) or None"""
    e = T.expr(b, op)
    e = T.strip_wrappers(e)
    if e[0] == 'proj' and e[1][0] == 'call' and e[1][1] in TAKE and len(e[1]) > 4:
        return _call_at(b, e[1][4]), [f for a, f in e[2] if a == 'tuple']
    if e[0] == 'call' and e[1] in TAKE and len(e) > 4:            # the whole entry (its `Some` payload projection is a wrapper)
        return _call_at(b, e[4]), []
    return None


def _root(b, op, tr=None):
    return T.access_path(b, op, transparent=tr or T.TRANSPARENT_NOCLONE)[1] if op['k'] in ('copy', 'move') else None


def _work_root(b, op):
    """the collection local a TAKE call takes from: through WORK_TRAVERSE calls and `drain(..)` over the full range"""
    for _ in range(6):
        r = _root(b, op, WORK_TRAVERSE)
        ds = _whole_defs(b, r) if r is not None and r > b.argc else []
        if len(ds) == 1 and ds[0][0] == 'call':
            t = ds[0][2]; c = _call_at(b, ds[0][1])
            if c.item == 'drain' and len(t['args']) == 2 and t['args'][0]['k'] in ('copy', 'move'):
                a = t['args'][1]
                ty = a.get('ty', '') if a['k'] == 'const' else (b.locals[a['pl']['l']] if a['k'] in ('copy', 'move') and not a['pl']['p'] else '')
                if 'RangeFull' in ty: op = t['args'][0]; continue             # v.drain(..): every entry once
        return r
    return None


def _transfers(b, src, dst):
    """blocks in which the whole content of collection local `src` is moved into collection local `dst`:
       dst = src  |  *(&mut dst) = src  |  dst.append(&mut src)  |  dst = mem::take(&mut src)  |  dst.extend(src)  |  mem::swap(&mut dst, &mut src)"""
    out = set()
    def taken_from(t):
        return bool(re.search(r'mem::(take|replace)', t['r'] or t['f'])) and bool(t['args']) and _root(b, t['args'][0]) == src
    for k, bi, d in _whole_defs(b, dst):
        if k == 'stmt' and d['rv']['k'] == 'use' and d['rv']['ops'][0]['k'] == 'move':
            r = _root(b, d['rv']['ops'][0])
            ds = _whole_defs(b, r) if r is not None and r > b.argc else []
            if r == src or (len(ds) == 1 and ds[0][0] == 'call' and taken_from(ds[0][2])): out.add(bi)
        if k == 'call' and taken_from(d): out.add(bi)
    for bi, st in b.stmts():                               # `*dst_ref = src` (an inlined helper that keeps the rest in its `&mut Vec` argument)
        d = st['dst']; rv = st['rv']
        if d['p'] == ['*'] and rv['k'] == 'use' and rv['ops'][0]['k'] == 'move' and _root(b, {'k': 'copy', 'pl': {'l': d['l'], 'p': []}}) == dst:
            r = _root(b, rv['ops'][0])
            ds = _whole_defs(b, r) if r is not None and r > b.argc else []
            if r == src or (len(ds) == 1 and ds[0][0] == 'call' and taken_from(ds[0][2])): out.add(bi)
    for c in b.calls:
        if c.item in ('append', 'extend') and len(c.args) == 2 and _root(b, c.args[0]) == dst and _root(b, c.args[1]) == src: out.add(c.bb)
        if c.item == 'swap' and re.search(r'mem::swap', c.name) and len(c.args) == 2 and {_root(b, c.args[0]), _root(b, c.args[1])} == {src, dst}: out.add(c.bb)
    return out


def deps_rules(ctx):
    R = 'C04.deps'
    b = ctx.free_fn(R + '/anchor', 'evaluate::eval_dependencies')
    if b is None: return
    oks = _ok_exits(b); errs = b.err_exits()
    hdrs = set(b.loops())
    best = None
    for ev in [c for c in b.calls if c.item == 'evaluate' and 'v1::Function as evaluate::Evaluate' in c.name]:
        res = _step_checks(b, ev, hdrs)
        sc = sum(1 for k in ('popped', 'state', 'store', 'requeue') if res[k])
        if best is None or sc > best[0]: best = (sc, ev, res)
    ctx.check(best is not None and best[2]['take'] is not None, R + '/step/evaluate', 'T-LOOPMUST', b.name, 'no step `entry taken from the work list; f.evaluate(state)`', b.site())
    if best is None or best[2]['take'] is None: return
    _, ev, res = best
    t = res['take']; step = res['step']; W = res['W']
    ctx.check(res['popped'], R + '/step/evaluates-popped-function', 'T-CARRY', b.name, 'the evaluated function is not the one of the taken entry', b.site(ev.bb))
    ctx.check(res['state'], R + '/step/at-current-state', 'T-CARRY', b.name, 'not evaluated at the state being completed', b.site(ev.bb))
    ctx.check(res['store'], R + '/step/store-under-own-id', 'T-BRANCHFX', b.name, 'a successfully evaluated dependency is not stored as state[id] = value of the same entry', b.site(ev.bb))
    ctx.check(res['requeue'], R + '/step/requeue-same-entry', 'T-BRANCHFX', b.name, 'a dependency that cannot be evaluated yet is not kept unchanged for the next round', b.site(ev.bb))
    # ---- the work list starts from every dependency
    first = [(k, bi, d) for k, bi, d in _whole_defs(b, W) if not any(bi in bl for bl in b.loops().values())] if W is not None else []
    def all_deps(k, bi, d):
        if k != 'call': return False
        c = _call_at(b, bi)
        if c.item not in ('collect', 'from_iter') or not c.args: return False            # dependencies.iter().collect()  ≡  Vec::from_iter(dependencies)
        rs = trace_operand(ctx.F, b, c.args[0])
        return len(rs) == 1 and rs[0].ok() and rs[0].root == 1 and not rs[0].loops and not [x for x in rs[0].calls if x in RESTRICTING]
    if first and all(all_deps(*x) for x in first):
        ctx.ok(R + '/queue/all-dependencies', 'T-CARRY', b.site(first[0][1]))
    else:
        s = ctx.S.backslice(b, [W], depth=0) if W is not None else None
        restr = sorted({x.item for x in s.call_objs if x.item in RESTRICTING and 'Iterator' in (x.trait or '')}) if s else ['?']
        if s is not None and 1 in s.params and any(c.item in ('collect', 'from_iter', 'push', 'extend') for c in s.call_objs) and not restr:
            ctx.undecided(R + '/queue/all-dependencies', 'T-CARRY', b.site(), 'initialisation of the work list not recognised step by step')
            ctx.ok(R + '/queue/all-dependencies~slice', 'T-CARRY', b.site())
        else:
            ctx.bad(R + '/queue/all-dependencies', 'T-CARRY', b.name, 'the work list is not initialised with every dependency', b.site())
    if not res['requeue']: return
    P = res['P']
    # ---- the retry loop around the step loop
    outer = [h for h, bl in b.loops().items() if step[0] in bl and h != step[0]]
    outer_h = max(outer, key=lambda h: len(b.loops()[h])) if outer else None
    ctx.check(outer_h is not None, R + '/retry-loop', 'T-LOOPMUST', b.name, 'the step loop is not repeated (chains of dependencies need several rounds)', b.site(t.bb))
    if outer_h is None: return
    tails = {tl for tl, hh in b.back_edges() if hh == outer_h}
    none_bb = step[2]
    # ---- (a) Ok only when nothing is pending
    tests = []          # (collection local, true=empty start, false start, switch bb)
    for c in b.calls:
        if c.item == 'is_empty' and c.args:
            for g in T.guards_from_call(b, c): tests.append((_root(b, c.args[0]), g.true_bb, g.false_bb, g.switch_bb))
    for bi, st in b.stmts():
        rv = st['rv']
        if rv['k'] == 'bin' and rv['op'] in ('Eq', 'Ne') and rv.get('ty') == 'usize':          # x.len() == 0
            xs = [T.expr(b, x) for x in rv['ops']]
            ln = [x for x in xs if x[0] == 'call' and x[1] == 'len' and len(x) > 4]
            zr = [x for x in xs if x[0] == 'const' and T.f64_const(x[1]) == 0.0]
            if ln and zr:
                for g in T.guards_from_local(b, st['dst']['l'], bi):
                    tt, ff = (g.true_bb, g.false_bb) if rv['op'] == 'Eq' else (g.false_bb, g.true_bb)
                    tests.append((_root(b, _call_at(b, ln[0][4]).args[0]), tt, ff, g.switch_bb))
    a_ok = False
    def holds_pending(X, at):
        """in block `at`, collection local X holds exactly the entries the round just finished could not evaluate: it is the list they
        were pushed to (read after the step loop), or that list's whole content has been moved into it on every path from the
        step loop's exit (`x = p`, `x.append(&mut p)`, mem::take/swap, a helper returning p by value; the work-list variable itself
        may play this role)"""
        if X is None: return False
        if X == P: return T.must_pass(b, 0, {at}, {step[0]})
        tb = _transfers(b, P, X)
        return bool(tb) and T.must_pass(b, none_bb, {at}, tb)
    for X, tt, ff, sb in tests:
        if tt is None or ff is None or not holds_pending(X, sb): continue           # else: what is tested is not the pending list of the round just finished
        tr = T.reach_cp(b, [tt]); fr = T.reach_cp(b, [ff], stop={sb})
        if oks and oks <= tr and not (fr & oks) and all(b.dominates(sb, e) for e in oks): a_ok = True
    ctx.check(a_ok, R + '/exit/ok-only-when-nothing-pending', 'T-GUARD', b.name, 'Ok can be returned while dependencies are still pending (partial answer)', b.site())
    # ---- (b) a round without progress is an error
    stall = None
    for bi, st in b.stmts():
        rv = st['rv']
        if rv['k'] != 'bin' or rv.get('ty') != 'usize' or rv['op'] not in ('Eq', 'Ne', 'Lt', 'Le', 'Gt', 'Ge'): continue
        xs = [T.expr(b, x) for x in rv['ops']]
        for pos in (0, 1):
            x = xs[pos]; y = xs[1 - pos]
            if not (x[0] == 'call' and x[1] == 'len' and len(x) > 4): continue
            if (rv['op'], pos) not in NO_PROGRESS: continue
            # the pending size: taken from a holder of the pending entries, after the step loop of this round
            if not holds_pending(_root(b, _call_at(b, x[4]).args[0]), x[4]) or not T.must_pass(b, outer_h, {x[4]}, {step[0]}): continue
            for g in T.guards_from_local(b, st['dst']['l'], bi):
                es, ps = (g.true_bb, g.false_bb) if NO_PROGRESS[(rv['op'], pos)] else (g.false_bb, g.true_bb)
                if es is None or ps is None: continue
                r = T.reach_cp(b, [es])
                if (r & errs) and not (r & oks) and outer_h not in r:
                    stall = dict(bb=bi, sw=g.switch_bb, progress=ps, nexpr=y)
    ctx.check(stall is not None, R + '/exit/no-progress-is-error', 'T-GUARD', b.name, 'no `pending size not smaller than the work list => error` test (cyclic dependencies would loop forever)', b.site())
    if stall is not None:
        ctx.check(bool(tails) and all(T.must_pass(b, none_bb, {tl}, {stall['sw']}) for tl in tails), R + '/exit/stall-test-before-retry', 'T-LOOPMUST', b.name, 'a retry round can start without the stall test', b.site(stall['bb']))
        # (c) the size compared with is the size of the work list of this very round
        ndefs = []
        y = stall['nexpr']
        if y[0] == 'call' and y[1] == 'len' and len(y) > 4: ndefs = [('call', y[4], _call_at(b, y[4]))]
        elif y[0] in ('local', 'place') and not (y[0] == 'place' and y[2]):
            for k, bi, d in _whole_defs(b, y[1]):
                e = _def_expr(b, k, bi, d)
                ndefs.append(('call', bi, _call_at(b, e[4])) if e[0] == 'call' and e[1] == 'len' and len(e) > 4 else ('other', bi, None))
        sizes_ok = bool(ndefs) and all(k == 'call' and _root(b, c.args[0]) in (W, P) and (_root(b, c.args[0]) == W or bool(_transfers(b, P, W))) for k, bi, c in ndefs)
        before_step = bool(ndefs) and all(T.must_pass(b, bi, {stall['bb']}, {step[0]}) for k, bi, c in ndefs)
        ctx.check(sizes_ok and before_step, R + '/exit/initial-measure', 'T-CARRY', b.name, 'the size the pending list is compared with is not the size of the work list at the start of the round', b.site(stall['bb']))
        fresh = bool(ndefs) and T.must_pass(b, stall['progress'], {stall['bb']}, {bi for k, bi, c in ndefs})
        ctx.check(fresh, R + '/exit/progress-measure-updated', 'T-BRANCHFX', b.name, 'the remembered work-list size is not updated before retrying', b.site(stall['bb']))
    # ---- pending entries are the next round's work list
    tb = _transfers(b, P, W) if W is not None else set()         # (before or after the exit tests: from the step loop's exit to every back edge)
    ctx.check(bool(tb) and bool(tails) and all(T.must_pass(b, none_bb, {tl}, tb) for tl in tails), R + '/queue/pending-requeued', 'T-BRANCHFX', b.name, 'pending entries are not moved back into the work list', b.site())


def _step_checks(b, ev, hdrs):
    res = dict(take=None, step=None, W=None, P=None, popped=False, state=False, store=False, requeue=False)
    tk = _taken(b, ev.args[0])
    if tk is None: return res
    t, tf = tk
    step = T.loop_of_next(b, t)
    if step is None: return res
    res.update(take=t, step=step, W=_work_root(b, t.args[0]), popped=(tf[-1:] == ['1']))
    res['state'] = T.strip_wrappers(T.expr(b, ev.args[1])) == ('place', 2, [])
    stop = hdrs | {t.bb}
    for sb, m, els in T.option_arms(b, ev.dst['l']):
        okb = m.get(0, els); erb = m.get(1, els)
        okr = b.reach([okb], stop=stop) - b.reach([erb], stop=stop); err = b.reach([erb], stop=stop) - b.reach([okb], stop=stop)
        for c in b.calls:
            if c.bb in okr and c.item == 'insert' and 'HashMap::<u64, f64>::insert' in c.name:
                kt = _taken(b, c.args[1]); vx = T.expr(b, c.args[2])
                key_ok = kt is not None and kt[0] is t and kt[1] == ['0'] and T.expr(b, c.args[1])[0] == 'proj'
                val_ok = any(x[0] == 'call' and x[1] == 'evaluate' and len(x) > 4 and x[4] == ev.bb for x in T.expr_walk(vx)) and [f for a, f in T.own_fields(vx) if a == 'tuple'][-1:] == ['0']
                ap = T.access_path(b, c.args[0])
                tgt_ok = ('v1::State', 'entries') in ap[0] and ap[1] == 2
                if key_ok and val_ok and tgt_ok and T.must_pass(b, okb, {t.bb}, {c.bb}): res['store'] = True
            if c.bb in err and c.item in PUT and len(c.args) == 2:
                px = T.expr(b, c.args[1])
                if px[0] == 'agg' and px[1] == 'tuple' and len(px[2]) == 2:
                    same = []
                    for j, y in enumerate(px[2]):
                        y = T.strip_wrappers(y)
                        same.append(y[0] == 'proj' and y[1][0] == 'call' and len(y[1]) > 4 and y[1][4] == t.bb and [f for a, f in y[2] if a == 'tuple'] == [str(j)])
                    if all(same) and T.must_pass(b, erb, {t.bb}, {c.bb}):
                        res['requeue'] = True; res['P'] = _root(b, c.args[0])
                else:
                    kt = _taken(b, c.args[1])          # the entry pushed as a whole
                    if kt is not None and kt[0] is t and kt[1] == [] and T.must_pass(b, erb, {t.bb}, {c.bb}):
                        res['requeue'] = True; res['P'] = _root(b, c.args[0])
    return res


# ------------------------------------------------------------------------------------------------ C04.use
# writes into a map id -> value: item -> index of the value argument (an index past the arguments = a default is written)
STATE_WRITES = {
    'insert': -1,                  # HashMap::insert(map, k, v) / VacantEntry::insert(e, v): last argument
    'or_insert': 1,                # entry(k).or_insert(v)
    'or_insert_with': 1,           # entry(k).or_insert_with(|| v): the closure is the value
    'or_default': 99,              # entry(k).or_default()
    'insert_entry': -1,
}


# calls on a map id -> value (or on an entry of it) that can change or remove a value that is already there
PRESENT_ENTRY_ACCESS = {
    'get_mut': 'map.get_mut(k) / Occupied entry', 'values_mut': 'every value', 'iter_mut': 'every entry', 'into_mut': 'Occupied entry', 'and_modify': 'entry(k).and_modify(f)',
    'remove': 'map / Occupied entry', 'remove_entry': '', 'clear': '', 'retain': '', 'drain': '', 'extend': 'overwrites equal keys', 'index_mut': 'map[k] = ..',
    'insert': 'overwrites unless on the absent side of a presence test (VacantEntry::insert is always on the absent side)',
    'insert_entry': 'Occupied entry', 'get_many_mut': '', 'swap': 'mem::swap of the map',
}


def use_rules(ctx):
    for item in ('evaluate', 'evaluate_samples'):
        b = ctx.method('C04.use/%s/anchor' % item, INST, item, trait='Evaluate')
        if b is None: continue
        oks = _ok_exits(b)
        ed = [c for c in b.calls if c.item == 'eval_dependencies' and c.args and ctx.S.slice_operand(b, c.args[0]).has_field(INST, 'decision_variable_dependency')]
        def every_time(c):
            # once per evaluation, or once per sample state: for every element of a loop that lies on every success path
            if T.must_pass(b, 0, oks, {c.bb}): return True
            for lo in T.for_loops(b):
                if c.bb in lo[4] and T.must_pass(b, lo[2], {lo[1]}, {c.bb}) and T.must_pass(b, 0, oks, {lo[1]}):
                    if not [x.item for x in ctx.S.slice_operand(b, lo[0].args[0]).call_objs if x.item in RESTRICTING and 'Iterator' in (x.trait or '')]: return True
            return False
        on_path = [c for c in ed if every_time(c)]
        ctx.check(bool(on_path), 'C04.use/%s/calls-eval_dependencies' % item, 'T-MUSTCALL', b.name, 'eval_dependencies is not applied to the dependency map on every success path', b.site())
        _errflow_calls(ctx, 'C04.use/%s/error' % item, b, on_path or ed, 'eval_dependencies')
        # variables without a value must still be missing when the dependencies are evaluated: a default filled in earlier would
        # hide cyclic / unsatisfiable dependencies and feed placeholders into chains.  So whatever is written into a
        # HashMap<u64, f64> on the way to eval_dependencies is a value the instance has fixed (substituted_value), never a
        # default derived from the bound.
        if on_path or ed:
            e0 = (on_path or ed)[0]
            early = []
            for c in b.calls:
                if 'u64, f64>' not in c.name or c.item not in STATE_WRITES: continue
                if b.dominates(e0.bb, c.bb) or e0.bb not in b.reach([c.bb]): continue
                k = STATE_WRITES[c.item]
                if k < 0: k = len(c.args) - 1
                s = ctx.S.slice_operand(b, c.args[k]) if k < len(c.args) else None
                if s is None or not s.has_field('v1::DecisionVariable', 'substituted_value') or s.has_field('v1::DecisionVariable', 'bound') or s.has_call(r'nearest_to_zero|Default>::default'):
                    early.append(b.site(c.bb))
            ctx.check(not early, 'C04.use/%s/no-defaults-before-dependencies' % item, 'T-MUSTCALL', b.name,
                      'omitted variables are filled with default values before eval_dependencies runs (%s)' % early, b.site(e0.bb))
        # The bounds are those of the problem as submitted: a replaced variable keeps its bound, but its recovered value is whatever its
        # replacement evaluates to (binary x1 := x2 + x3 at (1, 1)).  So a bound check looks at the state AS GIVEN, never at a state
        # that eval_dependencies or a value write of this function has already touched (seed C04-14: check moved behind the recovery ->
        # Err for an in-bound state of the remaining variables).  No bound check at all is not C04's business.
        cbs = [c for c in b.calls if c.item == 'check_bound' and re.search(r'Instance>::check_bound$', c.path) and len(c.args) >= 2]
        writers = [(c, c.args[1]) for c in b.calls if c.item == 'eval_dependencies' and len(c.args) >= 2]
        writers += [(c, c.args[0]) for c in b.calls if 'u64, f64>' in c.name and (c.item in STATE_WRITES or c.item in ('entry', 'extend', 'remove', 'clear', 'retain')) and c.args]
        late = []
        for cb in cbs:
            rc = _root(b, cb.args[1])
            for w, wop in writers:
                if w.target < 0 or rc is None or _root(b, wop) != rc: continue
                same_iteration = {h for h, bl in b.loops().items() if w.bb in bl}
                if cb.bb in b.reach([w.target], stop=same_iteration): late.append(b.site(cb.bb)); break
        ctx.check(not late, 'C04.use/%s/bound-check-on-submitted-state' % item, 'T-GUARD', b.name,
                  'check_bound is applied to a state after dependent / fixed / default values were written into it (%s)' % late, b.site(cbs[0].bb) if cbs else b.site())
        # The value eval_dependencies stored under a dependent id is the value of the replacement: it reaches the reported state unchanged.
        # After the call (within the same sample iteration) the state's map is only *completed*: nothing takes mutable access to entries
        # that are present (get_mut / values_mut / iter_mut / Occupied entry / remove / retain / extend ..), and a plain insert sits on
        # the absent side of a presence test of the same map (seed C04-20: recovered Binary / Integer values rounded by a helper).
        touched = []
        for e0 in (on_path or ed):
            if e0.target < 0 or len(e0.args) < 2: continue
            rs = _root(b, e0.args[1])
            if rs is None: continue
            region = b.reach([e0.target], stop={h for h, bl in b.loops().items() if e0.bb in bl})
            def map_root(op):
                r = _root(b, op)
                ds = _whole_defs(b, r) if r is not None and r > b.argc else []
                if len(ds) == 1 and ds[0][0] == 'call' and _call_at(b, ds[0][1]).item == 'entry' and ds[0][2]['args']: return _root(b, ds[0][2]['args'][0])
                return r
            absent = set(); present = set()
            def side(start, test_bb):                  # what one outcome of a presence test leads to within the same loop iteration
                return T.reach_cp(b, [start], stop={h for h, bl in b.loops().items() if test_bb in bl}) if start is not None else set()
            for c in b.calls:
                if 'u64, f64>' not in c.name or 'HashMap' not in c.name or not c.args or map_root(c.args[0]) != rs: continue
                if c.item == 'contains_key':                                   # if !map.contains_key(k) { insert }
                    for g in T.guards_from_call(b, c):
                        absent |= side(g.false_bb, c.bb); present |= side(g.true_bb, c.bb)
                elif c.item == 'get':                                          # match map.get(k) { None => insert }  /  map.get(k).is_none()
                    for sb, m, els in T.option_arms(b, c.dst['l']):
                        absent |= side(m.get(0, els), c.bb); present |= side(m.get(1, els), c.bb)
                    for x in b.calls:
                        if x.item in ('is_none', 'is_some') and x.args and T.access_path(b, x.args[0], transparent=NO_CALLS)[1] == c.dst['l']:
                            for g in T.guards_from_call(b, x):
                                t_, f_ = (g.true_bb, g.false_bb) if x.item == 'is_none' else (g.false_bb, g.true_bb)
                                absent |= side(t_, c.bb); present |= side(f_, c.bb)
            for c in b.calls:
                if c.bb not in region or 'u64, f64>' not in c.name or not c.args or map_root(c.args[0]) != rs: continue
                if c.item in PRESENT_ENTRY_ACCESS and not ('VacantEntry' in c.name):
                    if c.item == 'insert' and 'OccupiedEntry' not in c.name:
                        if c.bb in absent - present: continue                  # completion of an id the state lacks
                    elif c.item == 'insert': pass
                    touched.append('%s at %s' % (c.item, b.site(c.bb)))
        ctx.check(not touched, 'C04.use/%s/recovered-values-untouched' % item, 'T-BRANCHFX', b.name,
                  'after eval_dependencies the state is not only completed: entries that are present can be rewritten (%s)' % touched[:3], b.site((on_path or ed)[0].bb) if (on_path or ed) else b.site())


# eval_dependencies treats "the dependency could not be evaluated yet" as Err from the evaluation kernels:
# a kernel that swallows a missing variable (seed C04-10: zero-factor shortcut) breaks the clean-failure
# clause.  The kernels are decided by the C01 rule families, re-decided here.
# evaluate_samples does not restore `substituted_value` into the sample states before eval_dependencies: it relies on
# Instance::partial_evaluate having rewritten the functions of decision_variable_dependency with the fixed values
# (seed C04-12: that loop removed -> after substitute, partial_evaluate, evaluate_samples a chain refers to a variable without
# a value).  That clause of Instance::partial_evaluate is decided by the C03 rule family, re-decided here.
# Function::substitute builds its result with `v * replacement`, `v * x_id` and `out + v`: composition holds only if these products
# and sums are exact for every representation of the operands, also non-normalised ones (seed C04-15: `Linear + Linear` overwrote
# repeated ids of the left operand -> a non-normalised replacement loses coefficients).  The kernels substitution goes through
# (Function Mul/Add dispatch and delegations, the Linear/Quadratic/Polynomial merge and product kernels, their keys) are decided by
# the C02 rule families, re-decided here (C09 and C13 rely on the same families).
RELIES_ON = {'C01': ['C01.lookup', 'C01.fields', 'C01.every-term'],
             # C02.branches: the Option-linear-part case tables of Quadratic + {Quadratic, Linear, f64} and Quadratic * f64, which the
             # Function dispatch of `out + v` / `v * r` lands in (seed C04-17: `rhs.linear.map(..)` dropped the left linear part when rhs has none)
             'C02': ['C02.kernel', 'C02.keys', 'C02.dispatch', 'C02.branches', 'C02.deleg/v1::Function_Mul_v1::Function', 'C02.deleg/v1::Function_Mul_v1::Linear',
                     'C02.deleg/v1::Function_Add_v1::Function'],
             'C03': ['C03.instance/cover/decision_variable_dependency', 'C03.instance/apply/decision_variable_dependency']}


def check(ctx):
    instance_rules(ctx); function_rules(ctx); deps_rules(ctx); use_rules(ctx)
    ctx.floor('C04.instance', 35); ctx.floor('C04.function', 16); ctx.floor('C04.deps', 13); ctx.floor('C04.use', 10)
