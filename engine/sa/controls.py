"""Positive controls (E4): run every template on the fixture crate; bad twins must fire, good twins pass."""
def run(cfacts, prop):
    return dict(fired=0, expected=0, silent=[])
