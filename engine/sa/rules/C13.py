"""C13 — integer slack conversions (DESIGN §5 C13)."""
from .common import *

INST = 'v1::Instance'; DV = 'v1::DecisionVariable'; CON = 'v1::Constraint'
ALLOWED_KINDS = {'Binary', 'Integer'}


def slack_rules(ctx, name, convert):
    R = 'C13.%s' % ('convert' if convert else 'add')
    body = ctx.method(R + '/anchor', INST, name)
    if body is None: return {}
    feats = {}
    pushes = [c for c in body.calls if c.item == 'push' and re.search(r'Vec::<v1::DecisionVariable>::push', c.name)]
    ctx.check(len(pushes) == 1, R + '/vars/one-push', 'T-CARRY', body.name, 'expected one decision_variables.push, found %d' % len(pushes), body.site())
    if len(pushes) != 1: return feats
    push = pushes[0]

    def before_push(bb): return body.dominates(bb, push.bb)
    # ---- g1: constraint lookup
    finds = [c for c in body.calls if c.item in ('find', 'position') and 'Iterator' in (c.trait or '') and ctx.S.slice_operand(body, c.args[0]).has_field(INST, 'constraints')]
    ctx.check(len(finds) == 1, R + '/guards/lookup/one', 'T-ERRFLOW', body.name, 'expected one constraint lookup, found %d' % len(finds), body.site())
    for c in finds:
        cl = ctx.S.slice_operand(body, c.args[1])
        ctx.check(cl.has_field(CON, 'id') and 2 in cl.params, R + '/guards/lookup/by-id', 'T-CARRY', body.name, 'lookup does not compare the constraint id with the argument', body.site(c.bb))
        errflow_calls(ctx, R + '/guards/lookup/none-is-error', body, [c], 'constraint lookup')
        ctx.check(before_push(c.bb), R + '/guards/lookup/dominates', 'T-GUARD', body.name, 'lookup does not dominate the mutation', body.site(c.bb))
        feats['lookup'] = True
    # ---- g2: must be an inequality
    ec = enum_eq_guard(ctx, R + '/guards/is-inequality', body, r'v1::Equality$', 'LessThanOrEqualToZero', True, 'constraint.equality() == LessThanOrEqualToZero',
                       src_need=lambda s: s.has_field(CON, 'equality'))
    if ec is not None:
        ctx.check(before_push(ec.bb), R + '/guards/is-inequality/dominates', 'T-GUARD', body.name, 'equality test does not dominate the mutation', body.site(ec.bb))
        feats['is-inequality'] = True
    # ---- g3: function present
    fopts = [c for c in body.calls if c.item == 'as_ref' and 'Option::<v1::Function>' in c.name and (CON, 'function') in [(a.split('::', 0)[-1] if False else a, f) for a, f in T.access_path(body, c.args[0])[0]]]
    ctx.check(len(fopts) == 1, R + '/guards/function/access', 'T-ERRFLOW', body.name, 'expected one access to constraint.function, found %d' % len(fopts), body.site())
    for c in fopts:
        errflow_calls(ctx, R + '/guards/function/none-is-error', body, [c], 'missing function')
        ctx.check(before_push(c.bb), R + '/guards/function/dominates', 'T-GUARD', body.name, 'function test does not dominate the mutation', body.site(c.bb))
        feats['function'] = True
    # ---- g4: every used variable is known and binary / integer
    loops = [lo for lo in T.for_loops(body) if ctx.S.slice_operand(body, lo[0].args[0]).has_call(r'impl v1::Function>::used_decision_variable_ids')]
    ctx.check(len(loops) == 1, R + '/guards/kinds/loop', 'T-LOOPMUST', body.name, 'expected one loop over the used variable ids, found %d' % len(loops), body.site())
    for lo in loops:
        nextc, header, some_bb, none_bb, blocks = lo
        ctx.check(before_push(header), R + '/guards/kinds/dominates', 'T-GUARD', body.name, 'kind loop does not dominate the mutation', body.site(nextc.bb))
        gets = [c for c in body.calls if c.bb in blocks and c.item == 'get' and 'HashMap' in c.name and 'Kind' in c.name]
        ctx.check(len(gets) == 1, R + '/guards/kinds/get', 'T-ERRFLOW', body.name, 'expected one kinds.get(id) in the loop, found %d' % len(gets), body.site(nextc.bb))
        for c in gets:
            k = ctx.S.slice_operand(body, c.args[1])
            ctx.check(nextc in k.call_objs, R + '/guards/kinds/get-by-item', 'T-CARRY', body.name, 'kind is not looked up by the loop item', body.site(c.bb))
            m = ctx.S.slice_operand(body, c.args[0])
            ctx.check(m.has_call(r'impl v1::Instance>::get_kinds'), R + '/guards/kinds/from-get_kinds', 'T-CARRY', body.name, 'kind table does not come from get_kinds()', body.site(c.bb))
            errflow_calls(ctx, R + '/guards/kinds/unknown-is-error', body, [c], 'unknown variable')
        loop_must(ctx, R + '/guards/kinds/every-id', body, lo, lambda c: c in gets, 'kinds.get(id)')
        # discriminant table
        kadt = ctx.F.adt('v1::decision_variable::Kind')
        sw = []
        for bi in blocks:
            t = body.blocks[bi]['term']
            if t['k'] == 'switch' and t['d']['k'] != 'const':
                for k2, b2, d in body.defs_of(t['d']['pl']['l']):
                    if k2 == 'stmt' and d['rv']['k'] == 'discr':
                        bl = d['rv']['pl']['l']
                        if re.fullmatch(r"&?('\w+ )?v1::decision_variable::Kind", body.locals[bl]): sw.append((bi, t))
        ctx.check(len(sw) == 1 and kadt is not None, R + '/guards/kinds/match', 'T-TABLE', body.name, 'expected one match on the variable kind, found %d' % len(sw), body.site(nextc.bb))
        if len(sw) == 1 and kadt is not None:
            bi, t = sw[0]; m = {v: tg for v, tg in t['ts']}
            errs = body.err_exits(); table = {}
            for v in kadt['variants']:
                tg = m.get(v['discr'], t['else'])
                r = T.reach_cp(body, [tg], stop={header})
                cont = any(header in body.succ(x) for x in r)
                table[v['name']] = 'continue' if cont and not (r & errs) else ('error' if (r & errs) and not cont else 'mixed')
            want = {v['name']: ('continue' if v['name'] in ALLOWED_KINDS else 'error') for v in kadt['variants']}
            ctx.check(table == want, R + '/guards/kinds/table', 'T-TABLE', body.name, 'kind table is %s, expected %s' % (table, want), body.site(bi))
            feats['kinds'] = tuple(sorted(table.items()))
    # ---- g5 / g6: interval tests
    infeasible = None; always = None
    for bi, st in float_cmp_sites(body, ('Gt', 'Ge', 'Lt', 'Le')):
        ops = st['rv']['ops']
        if not any(o['k'] == 'const' and T.f64_const(o['v']) == 0.0 for o in ops): continue
        other = [o for o in ops if o['k'] != 'const']
        if not other: continue
        fs, root, calls = T.access_path(body, other[0])
        s = ctx.S.slice_operand(body, other[0])
        if not s.has_call(r'impl v1::Function>::evaluate_bound'): continue
        op = st['rv']['op']; const_right = ops[1]['k'] == 'const'
        if not const_right: op = {'Gt': 'Lt', 'Lt': 'Gt', 'Ge': 'Le', 'Le': 'Ge'}[op]
        direct = [c for c in body.calls if c.dst['l'] == other[0]['pl']['l']]
        which = direct[0].item if direct else None
        for g in T.guards_from_local(body, st['dst']['l'], bi):
            if which == 'lower' and op == 'Gt': infeasible = (bi, g)
            if which == 'upper' and op == 'Le': always = (bi, g)
    ctx.check(infeasible is not None, R + '/guards/infeasible/test', 'T-GUARD', body.name, 'no `bound.lower() > 0` test', body.site())
    if infeasible:
        bi, g = infeasible
        r = T.reach_cp(body, [g.true_bb])
        ctx.check(not (r & body.strict_ok_exits()) and bool(r & body.err_exits()) and push.bb not in r, R + '/guards/infeasible/is-error', 'T-GUARD', body.name,
                  '`lower > 0` does not lead to an error before any mutation', body.site(bi))
        agg = [b2 for b2, st2 in body.stmts() if b2 in r and st2['rv']['k'] == 'agg' and 'InfeasibleDetected::InequalityConstraintBound' in st2['rv']['adt']]
        ctx.check(bool(agg), R + '/guards/infeasible/typed', 'T-GUARD', body.name, 'the error is not InfeasibleDetected::InequalityConstraintBound', body.site(bi))
        ctx.check(before_push(bi), R + '/guards/infeasible/dominates', 'T-GUARD', body.name, 'test does not dominate the mutation', body.site(bi))
        feats['infeasible'] = True
    ctx.check(always is not None, R + '/guards/always/test', 'T-GUARD', body.name, 'no `bound.upper() <= 0` test', body.site())
    if always:
        bi, g = always
        r = T.reach_cp(body, [g.true_bb])
        relax = [c for c in body.calls if c.bb in r and c.item == 'relax_constraint' and c.path.endswith('relax_constraint')]
        ctx.check(bool(relax) and push.bb not in r and bool(r & body.strict_ok_exits()), R + '/guards/always/relax-and-return', 'T-BRANCHFX', body.name,
                  '`upper <= 0` does not relax the constraint and return without a new variable', body.site(bi))
        for c in relax:
            ctx.check(c.args[1]['k'] in ('copy', 'move') and T.access_path(body, c.args[1])[1] == 2, R + '/guards/always/relax-same-id', 'T-CARRY', body.name, 'relax_constraint is not called with the given id', body.site(c.bb))
            errflow_calls(ctx, R + '/guards/always/relax-error', body, [c], 'relax_constraint result')
        fr = T.reach_cp(body, [g.false_bb])
        ctx.check(push.bb in fr, R + '/guards/always/else-continues', 'T-BRANCHFX', body.name, 'the other side never reaches the slack construction', body.site(bi))
        ctx.check(before_push(bi), R + '/guards/always/dominates', 'T-GUARD', body.name, 'test does not dominate the mutation', body.site(bi))
        # no write to the constraint function on the relaxed path
        fw = [b2 for b2, st2 in body.stmts() if b2 in r and st2['dst']['p'] and (CON, 'function') in [(a, f) for a, f in fields_of_place(st2['dst'])]]
        ctx.check(not fw, R + '/guards/always/unchanged', 'T-BRANCHFX', body.name, 'constraint function is rewritten on the always-satisfied path', body.site(bi))
        feats['always'] = True
    if convert:
        # g7: slack range limit
        lim = None
        for bi, st in float_cmp_sites(body, ('Gt', 'Ge', 'Lt', 'Le')):
            ops = st['rv']['ops']
            ss = [ctx.S.slice_operand(body, o) for o in ops]
            if any(3 in s.params for s in ss) and any(s.has_call(r'bound::Bound::width') for s in ss):
                wi = [i for i, s in enumerate(ss) if s.has_call(r'bound::Bound::width')][0]
                op = st['rv']['op']
                if wi == 1: op = {'Gt': 'Lt', 'Lt': 'Gt', 'Ge': 'Le', 'Le': 'Ge'}[op]
                for g in T.guards_from_local(body, st['dst']['l'], bi):
                    if op in ('Gt', 'Ge') and g.requires(False) and before_push(g.switch_bb): lim = (bi, g)
                    if op in ('Lt', 'Le') and g.requires(True) and before_push(g.switch_bb): lim = (bi, g)
        ctx.check(lim is not None, R + '/guards/range-limit', 'T-GUARD', body.name, 'no `width > max_integer_range` => error test before the mutation', body.site())
    # ---- atomic
    for what, bi, badexits in T.check_atomic(body, ctx.S, ctx.F, atomic_callees=('relax_constraint',)):
        ctx.check(not badexits, R + '/atomic', 'T-ATOMIC', body.name, 'an Err-exit (bb%s) is reachable after mutation `%s`' % (badexits, what), body.site(bi))
    # ---- the slack variable
    aggs = find_aggregates(body, DV)
    ctx.check(len(aggs) == 1, R + '/vars/one-aggregate', 'T-CARRY', body.name, 'expected one DecisionVariable aggregate, found %d' % len(aggs), body.site())
    for bi, st in aggs:
        ks = carry_field(ctx, R + '/vars/kind-integer', body, st, 'kind', need_consts=[r'Kind::Integer'], site=body.site(bi))
        ids = fresh_id_rule(ctx, R + '/vars/fresh-id', body, agg_field_operand(st, 'id'), 'slack variable id')
        carry_field(ctx, R + '/vars/subscripts', body, st, 'subscripts', need_params=[2], site=body.site(bi))
        bs = slice_op(ctx, body, agg_field_operand(st, 'bound'))
        if convert:
            okb = False
            for c in bs.call_objs:
                if c.item == 'new' and c.path.endswith('Bound::new'):
                    a0 = c.args[0]; a1 = c.args[1]
                    lo0 = a0['k'] == 'const' and T.f64_const(a0['v']) == 0.0
                    s1 = ctx.S.slice_operand(body, a1)
                    neg = False
                    if a1['k'] in ('copy', 'move'):
                        for k2, b2, d2 in body.defs_of(a1['pl']['l']):
                            if k2 == 'stmt' and d2['rv']['k'] == 'un' and d2['rv']['op'] == 'Neg':
                                src = d2['rv']['ops'][0]
                                dc = [x for x in body.calls if src['k'] in ('copy', 'move') and x.dst['l'] == src['pl']['l']]
                                neg = bool(dc) and dc[0].item == 'lower'
                    okb = lo0 and neg and s1.has_call('as_integer_bound') and s1.has_call('evaluate_bound')
            ctx.check(okb, R + '/vars/bound', 'T-CARRY', body.name, 'slack bound is not Bound::new(0, -lower) of the integer bound of a*f', body.site(bi))
        else:
            okb = False
            for b2, st2 in find_aggregates(body, 'v1::Bound'):
                if st2['dst']['l'] in bs.locals:
                    d = dict(zip(st2['rv']['fields'], st2['rv']['ops']))
                    lo0 = d['lower']['k'] == 'const' and T.f64_const(d['lower']['v']) == 0.0
                    up = ctx.S.slice_operand(body, d['upper'])
                    okb = lo0 and 3 in up.params and not up.has_call('evaluate_bound')
            ctx.check(okb, R + '/vars/bound', 'T-CARRY', body.name, 'slack bound is not [0, slack_upper_bound]', body.site(bi))
    # ---- coefficient and the rewritten function
    fw = [(bi, st) for bi, st in body.stmts() if st['dst']['p'] and fields_of_place(st['dst'])[-1:] == [(CON, 'function')] or (st['dst']['p'] and (CON, 'function') in fields_of_place(st['dst']))]
    ctx.check(len(fw) == 1, R + '/coef/one-write', 'T-CARRY', body.name, 'expected one write to constraint.function, found %d' % len(fw), body.site())
    for bi, st in fw:
        s = ctx.S.slice_operand(body, st['rv']['ops'][0])
        st_calls = [c for c in s.call_objs if c.item == 'single_term' and c.path.endswith('Linear>::single_term')]
        ctx.check(len(st_calls) == 1 and s.has_call(r'ops::Add<v1::Linear> for v1::Function>::add|Function as std::ops::Add'), R + '/coef/f-plus-slack-term', 'T-CARRY', body.name,
                  'new function is not `f + single_term(slack id, coefficient)`', body.site(bi))
        ctx.check(s.has_field(CON, 'function'), R + '/coef/keeps-f', 'T-CARRY', body.name, 'new function does not contain the old one', body.site(bi))
        for c in st_calls:
            idop = agg_field_operand(aggs[0][1], 'id') if aggs else None
            same_id = False
            if idop and idop['k'] in ('copy', 'move') and c.args[0]['k'] in ('copy', 'move'):
                a = T.copies_of(body, idop['pl']['l']); 
                def src_of(l):
                    for k2, b2, d2 in body.defs_of(l):
                        if k2 == 'stmt' and d2['rv']['k'] == 'use' and d2['rv']['ops'][0]['k'] in ('copy', 'move'): return d2['rv']['ops'][0]['pl']['l']
                    return l
                same_id = src_of(idop['pl']['l']) == src_of(c.args[0]['pl']['l'])
            ctx.check(same_id, R + '/coef/slack-id', 'T-CARRY', body.name, 'the slack term does not use the new variable id', body.site(c.bb))
            co = c.args[1]
            cdef = None
            if co['k'] in ('copy', 'move'):
                l = co['pl']['l']
                for _ in range(3):
                    ds = [d for d in body.defs_of(l) if d[0] == 'stmt']
                    if len(ds) == 1 and ds[0][2]['rv']['k'] == 'use' and ds[0][2]['rv']['ops'][0]['k'] in ('copy', 'move'): l = ds[0][2]['rv']['ops'][0]['pl']['l']
                    else: break
                ds = [d for d in body.defs_of(l) if d[0] == 'stmt']
                if len(ds) == 1: cdef = ds[0][2]; coef_local = l
            if convert:
                ok = False
                if cdef and cdef['rv']['k'] == 'bin' and cdef['rv']['op'] == 'Div':
                    n, dn = cdef['rv']['ops']
                    ok = n['k'] == 'const' and T.f64_const(n['v']) == 1.0 and ctx.S.slice_operand(body, dn).has_call(r'impl v1::Function>::content_factor')
                ctx.check(ok, R + '/coef/one-over-a', 'T-CARRY', body.name, 'slack coefficient is not 1/a with a = content_factor()', body.site(c.bb))
            else:
                ok = False
                if cdef and cdef['rv']['k'] == 'bin' and cdef['rv']['op'] == 'Div':
                    n, dn = cdef['rv']['ops']
                    nn = False
                    if n['k'] in ('copy', 'move'):
                        for k2, b2, d2 in body.defs_of(n['pl']['l']):
                            if k2 == 'stmt' and d2['rv']['k'] == 'un' and d2['rv']['op'] == 'Neg':
                                src = d2['rv']['ops'][0]
                                dc = [x for x in body.calls if src['k'] in ('copy', 'move') and x.dst['l'] == src['pl']['l']]
                                nn = bool(dc) and dc[0].item == 'lower'
                    ok = nn and 3 in ctx.S.slice_operand(body, dn).params
                ctx.check(ok, R + '/coef/minus-lower-over-upper', 'T-CARRY', body.name, 'slack coefficient is not -lower / slack_upper_bound', body.site(c.bb))
                # the same value is returned
                rets = [(e, rst) for e, k, rst in body.ret_assignments() if k == 'ok' and e in body.reach([bi])]
                okr = False
                for e, rst in rets:
                    op0 = rst['rv']['ops'][0]
                    if op0['k'] in ('copy', 'move'):
                        for k2, b2, d2 in body.defs_of(op0['pl']['l']):
                            if k2 == 'stmt' and d2['rv']['k'] == 'agg' and d2['rv']['adt'].endswith('Option::Some'):
                                o = d2['rv']['ops'][0]
                                if o['k'] in ('copy', 'move'):
                                    l = o['pl']['l']
                                    for _ in range(3):
                                        ds = [d for d in body.defs_of(l) if d[0] == 'stmt']
                                        if len(ds) == 1 and ds[0][2]['rv']['k'] == 'use' and ds[0][2]['rv']['ops'][0]['k'] in ('copy', 'move'): l = ds[0][2]['rv']['ops'][0]['pl']['l']
                                        else: break
                                    okr = cdef is not None and l == coef_local
                ctx.check(okr, R + '/coef/returned', 'T-CARRY', body.name, 'the returned coefficient is not the one used in the slack term', body.site(bi))
    if convert:
        se = [c for c in body.calls if c.item == 'set_equality']
        okk = False
        for c in se:
            v = enum_variant_of_operand(ctx, body, c.args[1])
            okk = bool(v) and v.endswith('Equality::EqualToZero') and all(body.dominates(c.bb, e) or e not in body.reach([push.bb]) for e in body.strict_ok_exits())
        ctx.check(okk, R + '/coef/set-equality', 'T-BRANCHFX', body.name, 'constraint is not turned into an equality', body.site())
    else:
        wr = self_writes(ctx, body)
        eqw = [bi for bi, st in body.stmts() if st['dst']['p'] and (CON, 'equality') in fields_of_place(st['dst'])]
        ctx.check(not eqw and not [c for c in body.calls if c.item == 'set_equality'], R + '/coef/equality-untouched', 'T-BRANCHFX', body.name, 'equality kind is modified', body.site())
    writes_only(ctx, R + '/only', body, {'decision_variables', 'constraints', 'removed_constraints'})
    return feats


def check(ctx):
    a = slack_rules(ctx, 'convert_inequality_to_equality_with_integer_slack', True)
    b = slack_rules(ctx, 'add_integer_slack_to_inequality', False)
    # sibling agreement on the shared guard set
    ctx.check(a == b, 'C13.sibling/guard-set', 'T-SIBLING', 'convert_… vs add_…', 'guard sets differ: convert=%s add=%s' % (sorted(a.items()), sorted(b.items())))
    ctx.floor('C13.convert', 35); ctx.floor('C13.add', 34)
