"""C14 — relaxing and restoring constraints only moves them (DESIGN §5 C14).

Written against the normal form (`VIEW = 'norm'`): `iter().position(p)` and a hand-written counting loop
look the same (a `next` loop with a counter that starts at 0 and is incremented once per element), a
spliced predicate closure is ordinary control flow inside that loop.

What is decided for each of the two operations (src list -> dst list):

  lookup   the index handed to the removal is the value of a counter of a loop over *self.src itself*
           (no reordering / restricting adaptor, incremented exactly once per element), read only where an
           `element.id == argument` comparison has succeeded, and `not found` can only lead to Err-exits;
  move     every successful path passes exactly one removal from self.src and exactly one push onto
           self.dst, the pushed value is (built from) the removed one, no other size-changing operation
           touches the two lists;
  reason   (relax) the wrapper carries the removed constraint and both reason arguments;
  frame    nothing else of self is written, no Err-exit after a mutation, the moved element is not
           modified on its way.
"""
from .common import *

VIEW = 'norm'

INST = 'v1::Instance'
KEY_PARAM = 2          # `constraint_id: u64`  (public signature)

# --------------------------------------------------------------------------------------------- tables
# ways of taking one element out of a Vec, element = the call's result
REMOVE_ITEMS = {
    'remove': 'v.remove(i): the tail is shifted',
    'swap_remove': 'v.swap_remove(i): the last element fills the hole (order is not part of C14)',
}
# ways of putting one element into a Vec, element = last argument
PUSH_ITEMS = {
    'push': 'v.push(x)   (also what the normal form makes of v.extend([x]))',
    'insert': 'v.insert(i, x): the position is not part of C14 (set semantics)',
}
#   + v.extend(opt) / v.extend(Some(x)) / v.extend(std::iter::once(x)): at most one element (extend_by_at_most_one); an absent
#     payload adds nothing and there is no constraint to conserve in that case
# calls that may appear between `self.list` and the search loop without changing which element has which index
INDEX_PRESERVING = {
    'iter': 'slice::iter', 'iter_mut': 'slice::iter_mut', 'into_iter': '(&Vec).into_iter()', 'by_ref': 'Iterator::by_ref',
    'next': 'the loop\'s own next()', 'deref': 'Vec -> slice', 'deref_mut': 'Vec -> slice', 'as_slice': 'Vec::as_slice',
    'as_mut_slice': 'Vec::as_mut_slice', 'as_ref': 'AsRef<[T]>', 'borrow': 'Borrow<[T]>', 'copied': 'Iterator::copied', 'cloned': 'Iterator::cloned',
}
# adaptors that may sit between `enumerate()` and the search: they drop or reorder (index, element) pairs but do not change a pair
PAIR_PRESERVING = {'enumerate', 'rev', 'skip', 'take', 'filter', 'skip_while', 'take_while', 'step_by', 'peekable', 'fuse'}
# mutating Vec operations that keep the multiset of elements (C14 speaks about the lists as sets)
ORDER_ONLY = {'sort', 'sort_by', 'sort_by_key', 'sort_by_cached_key', 'sort_unstable', 'sort_unstable_by', 'sort_unstable_by_key', 'reverse', 'swap',
              'rotate_left', 'rotate_right', 'reserve', 'reserve_exact', 'shrink_to_fit', 'shrink_to'}
# bool-valued calls `f(opt, |c| <pred c>)` that are false whenever the predicate closure is false
#   item -> (index of the closure argument, extra condition on the call)
CLOSURE_PREDICATES = {
    'is_some_and': (1, None),                                                     # opt.is_some_and(|c| c.id == k)
    'is_ok_and': (1, None),                                                       # res.is_ok_and(|c| c.id == k)
    'map_or': (2, lambda c: c.args[1]['k'] == 'const' and c.args[1]['v'].replace('const ', '') == 'false'),   # opt.map_or(false, |c| c.id == k)
    'any': (1, None),                                                             # opt.iter().any(|c| c.id == k)  (not spliced: base is not a closure chain)
}


def _cv(o):
    return o['v'].replace('const ', '').strip() if o['k'] == 'const' else None


def _is_local(o, l):
    return o['k'] in ('copy', 'move') and o['pl']['l'] == l and not o['pl']['p']


# path-sensitive reachability with assumed comparison results, and the T-ERRFLOW variant built on it (see C15.py; both modules
# have the same owner -- candidates for a shared engine file)
from .C15 import reach_x, errflow_g


# ------------------------------------------------------------------------------------- the search loop
def recv_field(body, call):
    """field of `self` a Vec method call operates on (receiver followed through borrows / copies), or None"""
    if not call.args: return None
    fs, root, _ = T.access_path(body, call.args[0])
    if root == 1 and fs and (fs[0][0] == INST or fs[0][0].endswith('::' + INST)): return fs[0][1]
    return None


def vec_calls(body, items, field):
    return [c for c in body.calls if c.item in items and re.search(r'\bVec::<.*>::(%s)$' % '|'.join(items), c.name) and recv_field(body, c) == field]


def extend_by_at_most_one(body, field):
    """`v.extend(x)` where x yields at most one element: an Option (`extend(removed.constraint)`, `extend(Some(c))`) or
    `std::iter::once(c)`.  (`extend([c])` is a push in the normal form.)  Element = the argument."""
    out = []
    for c in body.calls:
        if c.item == 'extend' and 'Extend' in (c.trait or c.name) and len(c.args) == 2 and recv_field(body, c) == field:
            l = c.arg_local(1)
            ty = body.locals[l].strip() if l is not None else ''
            if ty.startswith('std::option::Option<') or ty.startswith('std::iter::Once<'): out.append(c)
    return out


def counter_defs(body, l):
    """`l` is a position counter: every definition is `l = 0` or `l = l + 1`.  Returns (init_bbs, inc_bbs, inc_stmt_ids) or None"""
    inits = []; incs = []; ids = set()
    for k, bi, d in body.defs_of(l):
        if k != 'stmt' or d['dst']['p']: return None
        rv = d['rv']; ops = rv.get('ops') or []
        if rv['k'] == 'use' and _cv(ops[0]) == '0_usize':
            inits.append(bi)
        elif rv['k'] == 'bin' and rv['op'] in ('Add', 'AddUnchecked') and ((_is_local(ops[0], l) and _cv(ops[1]) == '1_usize') or (_is_local(ops[1], l) and _cv(ops[0]) == '1_usize')):
            incs.append(bi); ids.add(id(d))                                   # i = i + 1   (normal form of position / wrapping form)
        elif rv['k'] == 'use' and ops[0]['k'] in ('copy', 'move') and [p.get('f') for p in ops[0]['pl']['p'] if isinstance(p, dict)] == ['0']:
            # i += 1 in a debug build:  t = AddWithOverflow(i, 1); assert(!t.1); i = t.0
            tds = body.defs_of(ops[0]['pl']['l'])
            if len(tds) != 1 or tds[0][0] != 'stmt': return None
            trv = tds[0][2]['rv']
            if not (trv['k'] == 'bin' and trv['op'] == 'AddWithOverflow' and _is_local(trv['ops'][0], l) and _cv(trv['ops'][1]) == '1_usize'): return None
            incs.append(bi); ids.add(id(d)); ids.add(id(tds[0][2]))
        else:
            return None
    return (inits, incs, ids) if inits and incs else None


def closure_of(body, op):
    """def path of the closure an operand *is* (followed through plain moves to its `closure` aggregate).  Not the
    `closures` of a slice: those also contain every closure used inside callees the value passed through."""
    if op['k'] not in ('copy', 'move') or op['pl']['p']: return None
    l = op['pl']['l']
    for _ in range(8):
        ds = body.defs_of(l)
        if len(ds) != 1 or ds[0][0] != 'stmt' or ds[0][2]['dst']['p']: return None
        rv = ds[0][2]['rv']
        if rv['k'] == 'agg' and rv['adt'].startswith('closure:'): return rv['adt'][8:]
        if rv['k'] == 'use' and rv['ops'][0]['k'] in ('copy', 'move') and not rv['ops'][0]['pl']['p']: l = rv['ops'][0]['pl']['l']; continue
        if rv['k'] == 'ref' and not rv['pl']['p']: l = rv['pl']['l']; continue
        return None
    return None


def item_fields(body, lo, op, depth=14):
    """tuple components selected from the item of loop `lo` by an operand ([] = the item itself, ['0'] = item.0);
    None if the operand is not a projection / copy / reference of the item"""
    e = T.expr(body, op, depth=depth)
    for _ in range(6):
        if e[0] == 'call' and T.TRANSPARENT.search(T.strip_generics_tail(e[2])) and e[3]: e = e[3][0]; continue
        break
    if e[0] == 'call' and len(e) > 4 and e[4] == lo[0].bb: return []
    if e[0] == 'proj' and e[1][0] == 'call' and len(e[1]) > 4 and e[1][4] == lo[0].bb: return [f for a, f in e[2] if a == 'tuple']
    return None


def id_comparisons(ctx, body, lo):
    """comparisons `item.id == key` of the search loop `lo`.  Returns (assume_stmt, assume_call, sites):
    the value each comparison's result has when the ids differ."""
    nxt = lo[0]
    def is_id(s): return s.has_field('v1::Constraint', 'id') and nxt in s.call_objs
    def is_key(s): return KEY_PARAM in s.params and not s.has_field('v1::Constraint', 'id')
    a_st = {}; a_call = {}; sites = []
    for bi, st in body.stmts():
        rv = st['rv']
        # x.id == k / k == x.id / x.id != k on the integers themselves
        if rv['k'] == 'bin' and rv['op'] in ('Eq', 'Ne') and not st['dst']['p']:
            a, b = [ctx.S.slice_operand(body, o) for o in rv['ops']]
            if (is_id(a) and is_key(b)) or (is_id(b) and is_key(a)):
                a_st[id(st)] = (rv['op'] == 'Ne'); sites.append(bi)
    for c in body.calls:
        # <u64 as PartialEq>::eq(&x.id, &k);  opt.map(|c| c.id) == Some(k)  (Option<u64>: equal only if both ids are there and equal)
        if c.item in ('eq', 'ne') and 'PartialEq' in (c.trait or '') and re.search(r'^<&*(std::option::Option<&*u64>|u64)as', c.name.replace(' ', '')) and len(c.args) == 2:
            a, b = [ctx.S.slice_operand(body, o) for o in c.args]
            if (is_id(a) and is_key(b)) or (is_id(b) and is_key(a)):
                a_call[c.bb] = (c.item == 'ne'); sites.append(c.bb)
        # opt.is_some_and(|c| c.id == k) and relatives: closure not spliced by the normal form
        ent = CLOSURE_PREDICATES.get(c.item)
        if ent and len(c.args) > ent[0] and (ent[1] is None or ent[1](c)) and re.search(r'(Option|Result|Iterator)', c.name):
            recv = ctx.S.slice_operand(body, c.args[0]); cl = ctx.S.slice_operand(body, c.args[ent[0]])
            if not (nxt in recv.call_objs and KEY_PARAM in cl.params): continue
            good = False
            for cn in [closure_of(body, c.args[ent[0]])]:
                cb = ctx.F.bodies.get(cn)
                if cb is None: continue
                rets = [d for d in cb.defs_of(0)]
                if not rets: continue
                ok = True
                for k, b2, d in rets:
                    # the closure's value is the comparison of its argument's id with the captured key
                    if not (k == 'stmt' and not d['dst']['p'] and d['rv']['k'] == 'bin' and d['rv']['op'] == 'Eq'): ok = False; break
                    x, y = [ctx.S.slice_operand(cb, o) for o in d['rv']['ops']]
                    def arg_id(s): return s.has_field('v1::Constraint', 'id') and 2 in s.params
                    def cap(s): return 1 in s.params and not s.has_field('v1::Constraint', 'id')
                    if not ((arg_id(x) and cap(y)) or (arg_id(y) and cap(x))): ok = False; break
                good = good or ok
            if good:
                a_call[c.bb] = False; sites.append(c.bb)
    return a_st, a_call, sites


def lookup(ctx, R, body, rm, src_field, dst_field):
    """the index of removal `rm` is the position, in self.src_field, of an element whose id is the argument"""
    ix_op = rm.args[1]
    ix = ctx.S.slice_operand(body, ix_op)
    counters = {l: counter_defs(body, l) for l in sorted(ix.locals) if l > body.argc}
    counters = {l: v for l, v in counters.items() if v}
    loops = T.for_loops(body)
    found = []
    for l, (inits, incs, inc_ids) in counters.items():
        cands = [lo for lo in loops if all(b in lo[4] for b in incs)]
        if cands: found.append((l, inits, incs, inc_ids, min(cands, key=lambda lo: len(lo[4]))))
    # (b) no counter: the index component of the pairs of `enumerate()` over the list (`for (i, c) in list.iter().enumerate()`)
    enum_found = []
    if not found:
        for lo in loops:
            en = [x for x in ctx.S.slice_operand(body, lo[0].args[0]).call_objs if x.item == 'enumerate' and 'Iterator' in (x.trait or '')]
            hits = [(bi, st) for bi, st in body.stmts() if st['rv']['k'] == 'agg' and st['rv']['adt'].endswith('Option::Some') and not st['dst']['p']
                    and st['dst']['l'] in ix.locals and item_fields(body, lo, st['rv']['ops'][0]) == ['0']]
            if len(en) == 1 and (hits or item_fields(body, lo, ix_op) == ['0']): enum_found.append((lo, en[0], hits))
    ctx.check(len(found) + len(enum_found) >= 1, R + '/lookup/index-from-search', 'T-CARRY', body.name,
              'the removed index is neither the position counter of a search loop (counter from 0, +1 per element) nor the index of an enumerate() over the list', body.site(rm.bb))
    sources = [dict(l=l, inits=inits, incs=incs, inc_ids=inc_ids, lo=lo, en=None) for l, inits, incs, inc_ids, lo in found] + \
              [dict(l=None, inits=[], incs=[], inc_ids=set(), lo=lo, en=en, hits=hits) for lo, en, hits in enum_found]
    for src in sources:
        l, inits, incs, inc_ids, lo = src['l'], src['inits'], src['incs'], src['inc_ids'], src['lo']
        nxt, header, some_bb, none_bb, blocks = lo
        site = body.site(nxt.bb)
        # ---- which list, and is the counter / enumerate index an index into it
        whole = ctx.S.slice_operand(body, nxt.args[0])
        # what is counted / numbered: the loop's iterator resp. the receiver of enumerate(), as an expression (precise;
        # a slice comes back to everything done with `self` as soon as self is reborrowed, e.g. for an inlined helper)
        e = T.expr(body, nxt.args[0] if src['en'] is None else src['en'].args[0], depth=16)
        fl = [f for a, f in T.expr_fields(e) if a == INST or a.endswith('::' + INST)]
        if fl:
            on_list = src_field in fl and dst_field not in fl
            adaptors = sorted({x[1] for x in T.expr_calls(e) if x[1] not in INDEX_PRESERVING})
        else:
            # not a single-definition chain: fall back to the slice (over-approximate)
            on_list = whole.has_field(INST, src_field) and not whole.has_field(INST, dst_field)
            adaptors = sorted({x.item for x in whole.call_objs if ('Iterator' in (x.trait or '') or 'Iterator' in x.name) and x.item not in INDEX_PRESERVING and x is not src['en']})
        ctx.check(on_list, R + '/lookup/list', 'T-CARRY', body.name, 'lookup does not search self.%s' % src_field, site)
        ctx.check(not adaptors, R + '/lookup/index-of-the-list-itself', 'T-CARRY', body.name,
                  'the position is computed on an adapted iterator (%s), so it is not an index into self.%s' % (adaptors, src_field), site)
        if src['en'] is None:
            once = (all(b not in blocks for b in inits) and T.must_pass(body, some_bb, {header}, set(incs))
                    and not any(body.reach(body.succ(b), stop={header}) & set(incs) for b in incs))
            ctx.check(once, R + '/lookup/counts-every-element', 'T-LOOPMUST', body.name,
                      'the position counter is not incremented exactly once for every element that is not the match', site)
        else:
            # between enumerate() and the loop only adaptors that hand the (index, element) pairs on unchanged
            above = sorted({x.item for x in whole.call_objs if ('Iterator' in (x.trait or '') or 'Iterator' in x.name)
                            and x.item not in INDEX_PRESERVING and x.item not in PAIR_PRESERVING})
            ctx.check(not above, R + '/lookup/counts-every-element', 'T-LOOPMUST', body.name,
                      'the (index, element) pairs of enumerate() are transformed by %s before the search sees them' % above, site)
        # ---- where the position is read: only as `Some(position)` under a successful id comparison
        # a hit is `Some(position)` (search first, act later) or the removal itself taking the position (search and act in the loop)
        hits = []; other = []; direct = False
        if src['en'] is not None:
            hits = src['hits']
            direct = item_fields(body, lo, ix_op) == ['0']
        else:
            aliases = T.copies_of(body, l, through_refs=False)
            direct = ix_op['k'] in ('copy', 'move') and not ix_op['pl']['p'] and ix_op['pl']['l'] in aliases
            for a in aliases:
                for kind, bi, x in body.uses.get(a, ()):
                    if kind == 'stmt':
                        if id(x) in inc_ids: continue
                        rv = x['rv']
                        if rv['k'] == 'use' and not x['dst']['p'] and x['dst']['l'] in aliases: continue
                        if rv['k'] == 'agg' and rv['adt'].endswith('Option::Some') and not x['dst']['p']: hits.append((bi, x))
                        else: other.append(bi)
                    elif kind == 'call' and x is rm and direct: continue
                    else: other.append(bi)
        hit_bbs = {bi for bi, x in hits} | ({rm.bb} if direct else set())
        src['hit_bbs'] = hit_bbs
        ctx.check(bool(hit_bbs) and not other and not (direct and hits), R + '/lookup/result-is-position', 'T-CARRY', body.name,
                  'the position is used other than as the `Some(position)` result of the search or as the index of the removal (bb%s)' % sorted(set(other)), site)
        a_st, a_call, sites = id_comparisons(ctx, body, lo)
        ctx.check(bool(sites), R + '/lookup/by-id', 'T-CARRY', body.name,
                  'the search loop does not compare the element\'s constraint id with the argument', site)
        if sites:
            r = reach_x(body, [0], assume_stmt=a_st, assume_call=a_call)
            reached = sorted({bi for bi in hit_bbs if bi in r} | {bi for bi in other if bi in r})
            ctx.check(not reached, R + '/lookup/eq', 'T-BRANCHFX', body.name,
                      'the position is taken (bb%s) on a path on which no id comparison succeeded' % reached, site)
        # ---- not found => Err, nothing else
        if direct:
            # the removal sits in the loop: leaving the loop without a match must not end in an Ok-exit
            ctx.ok(R + '/lookup/result-some-only-on-match', 'T-ERRFLOW', site, shape='position consumed where it is found')
            ctx.counters['cfg_paths'] += 1
            ctx.check(not (reach_x(body, [none_bb]) & body.strict_ok_exits()), R + '/lookup/none-is-error', 'T-ERRFLOW', body.name, 'the search loop can be exhausted and an Ok-exit reached', site)
            ctx.ok(R + '/move/remove-index', 'T-CARRY', body.site(rm.bb)); ctx.ok(R + '/move/remove-index-plain', 'T-CARRY', body.site(rm.bb))
            continue
        res0 = sorted({x['dst']['l'] for bi, x in hits})
        res = set()                                   # the Option the search leaves its result in, and the locals it is moved through
        for rl in res0: res |= T.copies_of(body, rl, through_refs=False)
        def res_def_ok(k, d):
            if k != 'stmt' or d['dst']['p']: return False
            rv = d['rv']
            if rv['k'] == 'agg': return (rv['adt'].endswith('Option::Some') and any(id(d) == id(x) for _, x in hits)) or rv['adt'].endswith('Option::None')
            return rv['k'] == 'use' and rv['ops'][0]['k'] in ('copy', 'move') and not rv['ops'][0]['pl']['p'] and rv['ops'][0]['pl']['l'] in res
        defs_ok = all(res_def_ok(k, d) for rl in res for k, bi, d in body.defs_of(rl))
        ctx.check(defs_ok, R + '/lookup/result-some-only-on-match', 'T-ERRFLOW', body.name, 'the search result is also assigned something else than Some(position) / None', site)
        for rl in res0:
            out = errflow_g(body, rl); ctx.counters['cfg_paths'] += 1
            bad = sorted({h for k, h in out if k == 'bad'})
            ctx.check(not bad, R + '/lookup/none-is-error', 'T-ERRFLOW', body.name, 'lookup result: %s' % '; '.join(bad), site, consumers=[h for k, h in out])
        # ---- the index is that result, unchanged
        ctx.check((l is None or l in ix.locals) and bool(res0) and all(rl in ix.locals for rl in res0), R + '/move/remove-index', 'T-CARRY', body.name, 'removed index does not come from the lookup', body.site(rm.bb))
        fs, root, _ = T.access_path(body, ix_op)
        plain = (root in res and all(T.WRAPPER_OWNER.search(a) for a, f in fs)) or flows_plainly_from(body, ix_op, res)
        # anything computed on the way (index + 1, index.min(..), a cast) makes it another index
        computed = sorted({bi for x in ix.locals if x > body.argc for k, bi, d in body.defs_of(x)
                           if (k == 'stmt' and d['rv']['k'] in ('bin', 'un', 'cast') and id(d) not in inc_ids) or
                              (k == 'call' and re.fullmatch(r'[ui](8|16|32|64|128|size)', body.locals[x].strip()))})
        if plain: ctx.ok(R + '/move/remove-index-plain', 'T-CARRY', body.site(rm.bb))
        elif computed: ctx.bad(R + '/move/remove-index-plain', 'T-CARRY', body.name, 'the removed index is computed from the lookup result (bb%s), not the result itself' % computed, body.site(rm.bb))
        else: ctx.undecided(R + '/move/remove-index-plain', 'T-CARRY', body.site(rm.bb), 'the index reaches remove() through more than copies / `?` / Some-payload; only its dependence on the lookup is decided')
    return sources


# calls that hand a String / map on as the same value (for `records the given reason`): templates.TRANSPARENT + the string copies
SAME_VALUE = re.compile(r'::(to_string|to_owned|as_str|as_ref|as_mut|as_deref|deref|deref_mut|branch|with_context|context|ok_or|ok_or_else|unwrap|expect|'
                        r'clone|cloned|copied|into_owned|borrow|as_slice|into|from)(::<.*>)?$')
SUCCESS_ADT = ('Result::Ok', 'Option::Some', 'ControlFlow::Continue'); FAILURE_ADT = ('Result::Err', 'Option::None', 'ControlFlow::Break')


def flows_plainly_from(body, op, targets, depth=20, transparent=None):
    """the operand is one of `targets` handed on unchanged: through copies, references, success wrappers (Ok / Some /
    Continue built and taken apart again: `?`, `Ok(index)` of an inlined helper), transparent adaptors (with_context,
    ok_or, branch, ...); definitions that only carry the failure (from_residual, Err / None) are not on the way"""
    if depth == 0 or op['k'] not in ('copy', 'move'): return False
    pl = op['pl']
    if not all(T.WRAPPER_OWNER.search(a) for a, f in fields_of_place(pl)): return False
    if pl['l'] in T._mut_borrowed(body): return False              # changed in place on the way (`reason.push_str(..)`, `params.insert(..)`)
    if pl['l'] in targets: return True
    if 1 <= pl['l'] <= body.argc: return False
    nxt = []
    for k, bi, d in body.defs_of(pl['l']):
        if k == 'call':
            nm = d['r'] or d['f']
            if 'from_residual' in nm: continue
            if (transparent or T.TRANSPARENT_NOCLONE).search(T.strip_generics_tail(nm)) and d['args']: nxt.append(d['args'][0]); continue
            return False
        if d['dst']['p']: return False
        rv = d['rv']
        if rv['k'] == 'use': nxt.append(rv['ops'][0])
        elif rv['k'] == 'ref': nxt.append({'k': 'copy', 'pl': rv['pl']})
        elif rv['k'] == 'agg' and rv['adt'].endswith(SUCCESS_ADT) and len(rv['ops']) == 1: nxt.append(rv['ops'][0])
        elif rv['k'] == 'agg' and rv['adt'].endswith(FAILURE_ADT): continue
        else: return False
    return bool(nxt) and all(flows_plainly_from(body, o, targets, depth - 1, transparent) for o in nxt)


def field_operands(body, root, field):
    """operands that initialise `root.field`: the field's slot in an aggregate assigned to root, and assignments `root.field = x`"""
    out = []
    for k, bi, d in body.defs_of(root):
        if k != 'stmt': continue
        rv = d['rv']
        if not d['dst']['p'] and rv['k'] == 'agg' and field in rv.get('fields', []): out.append(rv['ops'][rv['fields'].index(field)])
        elif [p.get('f') for p in d['dst']['p'] if isinstance(p, dict)] == [field] and rv['k'] == 'use': out.append(rv['ops'][0])
    return out


def atomic_ps(ctx, body):
    """templates.check_atomic with path-sensitive reachability: (what, bb, Err-exits reachable after the mutation).
    After `Some(items.remove(i))` of an inlined helper the caller's `.with_context(..)?` cannot take its Err arm."""
    errs = body.err_exits(); out = []
    for bi, what, kind, call in T.mutation_sites(body, ctx.S, ctx.F):
        start = body.succ(bi) if kind == 'assign' else ([call.target] if call.target >= 0 else [])
        out.append((what, bi, sorted(reach_x(body, start) & errs)))
    return out


def value_root(body, op):
    """local a moved value was built in: follow plain single-definition moves backwards"""
    if op['k'] not in ('copy', 'move') or op['pl']['p']: return None
    l = op['pl']['l']
    for _ in range(12):
        ds = body.defs_of(l)
        if len(ds) == 1 and ds[0][0] == 'stmt' and not ds[0][2]['dst']['p']:
            rv = ds[0][2]['rv']
            if rv['k'] == 'use' and rv['ops'][0]['k'] in ('copy', 'move') and not rv['ops'][0]['pl']['p']:
                l = rv['ops'][0]['pl']['l']; continue
        break
    return l


def one_move(ctx, name, src_field, src_ty, dst_field, dst_ty):
    R = 'C14.%s' % name
    body = ctx.method(R + '/anchor', INST, name)
    if body is None: return
    oks = body.strict_ok_exits()
    rm = vec_calls(body, REMOVE_ITEMS, src_field)
    pu = vec_calls(body, PUSH_ITEMS, dst_field) + extend_by_at_most_one(body, dst_field)
    # restore: an entry without a body carries no constraint -- the None side of a test of the removed entry's `.constraint` has
    # nothing to move (HEAD panics there: `.unwrap()`), so it counts like the push:  `if let Some(c) = removed.constraint { push(c) }`
    nothing_to_move = set()
    if name == 'restore_constraint':
        for bi, st in body.stmts():
            if st['rv']['k'] != 'discr' or st['dst']['p']: continue
            e = T.expr(body, {'k': 'copy', 'pl': st['rv']['pl']}, depth=10)
            own = [x for x in T.own_fields(e) if not T.WRAPPER_OWNER.search(x[0])]
            if own and own[-1] == (('v1::RemovedConstraint', 'constraint')) or (own and own[-1][1] == 'constraint' and own[-1][0].endswith('::RemovedConstraint')):
                if any(len(x) > 4 and any(x[4] == r.bb for r in rm) for x in T.expr_calls(e)):
                    for k3, b3, sw in body.uses.get(st['dst']['l'], ()):
                        if k3 == 'switch': nothing_to_move.add({v: t for v, t in sw['ts']}.get(0, sw['else']))
    # ---- the move itself: exactly one element out of src and one into dst on every successful path
    for what, calls, fld in (('remove', rm, src_field), ('push', pu, dst_field)):
        bbs = {c.bb for c in calls}
        ctx.counters['cfg_paths'] += 1
        # path-sensitive: `None` handed out by an inlined search-and-take helper only reaches the Err side of the caller's `.with_context(..)?`
        via = bbs | (nothing_to_move if what == 'push' else set())
        ctx.check(bool(bbs) and bool(oks) and not (reach_x(body, [0], stop=via) & oks), R + '/move/%s-on-every-success-path' % what, 'T-MUSTCALL', body.name,
                  'an Ok-exit is reachable without a %s on self.%s' % (what, fld), body.site())
        twice = sorted(c.bb for c in calls if c.target >= 0 and body.reach([c.target]) & bbs)
        ctx.check(not twice, R + '/move/one-%s' % what, 'T-LOOPMUST', body.name,
                  'a second %s on self.%s can follow the one at bb%s (or it is inside a loop)' % (what, fld, twice), body.site(twice[0]) if twice else body.site())
    # no other size-changing operation on the two lists
    extra = []
    for bi, what, kind, call in T.mutation_sites(body, ctx.S, ctx.F):
        if call is None or call in rm or call in pu: continue
        f = recv_field(body, call)
        if f in (src_field, dst_field) and call.item not in ORDER_ONLY: extra.append('%s on self.%s (bb%d)' % (call.item, f, bi))
    ctx.check(not extra, R + '/move/no-other-change-of-the-lists', 'T-CARRY', body.name, 'the lists are also changed by: %s' % '; '.join(sorted(set(extra))), body.site())
    # ---- lookup: position of the element whose id equals the argument; None => Err before any mutation
    if not rm:
        ctx.bad(R + '/lookup/index-from-search', 'T-CARRY', body.name, 'no removal from self.%s, hence no lookup to check' % src_field, body.site())
    found_sources = []
    for c in rm:
        found_sources += lookup(ctx, R, body, c, src_field, dst_field) or []
    # ---- only the stated error: an id that IS in the list is moved.  No Err-exit may be reachable (path-sensitively) without going
    # through the search (a refusal decided before / apart from the lookup, seed C14-19), nor once the search has produced its position
    if found_sources:
        errs = body.err_exits()
        headers = {src['lo'][1] for src in found_sources}
        before = sorted(reach_x(body, [0], stop=headers) & errs)
        after = sorted({e for src in found_sources for h in src.get('hit_bbs', ()) for e in reach_x(body, [h]) & errs})
        ctx.counters['cfg_paths'] += 2
        ctx.check(not before and not after, R + '/only-stated-error', 'T-ERRFLOW', body.name,
                  'an Err-exit is reachable %s' % '; '.join(([('without searching self.%s for the id (bb%s)' % (src_field, before))] if before else []) +
                                                          ([('after the id has been found (bb%s)' % after)] if after else [])), body.site())
    for c in pu:
        it = ctx.S.slice_operand(body, c.args[-1])
        if name == 'relax_constraint':
            # the constraint inside the wrapper is what must not be a copy; the reason strings next to it may be cloned
            root = value_root(body, c.args[-1])
            if root is not None and 'v1::RemovedConstraint' in body.locals[root]: it = ctx.S.backslice(body, [(root, 'constraint')])
        ctx.check(any(r in it.call_objs for r in rm) and not any(x.item in ('clone', 'to_owned', 'clone_from') for x in it.call_objs), R + '/move/same-element', 'T-CARRY', body.name,
                  'the pushed element is not the removed one', body.site(c.bb))
    if name == 'relax_constraint':
        for c in pu:
            root = value_root(body, c.args[-1])
            ok = root is not None and 'v1::RemovedConstraint' in body.locals[root]
            ctx.check(ok, R + '/reason/wrapper', 'T-CARRY', body.name, 'the pushed value is not a RemovedConstraint built here', body.site(c.bb))
            if not ok: continue
            want = (('constraint', None), ('removed_reason', 3), ('removed_reason_parameters', 4))
            for f, param in want:
                s = ctx.S.backslice(body, [(root, f)]); ctx.counters['slices'] += 1
                if param is None:
                    ctx.check(any(r in s.call_objs for r in rm), R + '/reason/constraint-is-removed-one', 'T-CARRY', body.name, 'wrapped constraint is not the removed one', body.site(c.bb))
                else:
                    # "records the *given* reason": the argument itself, on every path -- not a value chosen depending on it (seed C14-8)
                    ops = field_operands(body, root, f)
                    if param not in s.params:
                        ctx.bad(R + '/reason/' + f, 'T-CARRY', body.name, 'field `%s` does not depend on: parameter _%d' % (f, param), body.site(c.bb))
                    elif ops and all(flows_plainly_from(body, o, {param}, transparent=SAME_VALUE) for o in ops):
                        ctx.ok(R + '/reason/' + f, 'T-CARRY', body.site(c.bb))
                    elif ops:
                        ctx.bad(R + '/reason/' + f, 'T-CARRY', body.name, 'field `%s` is not parameter _%d handed on unchanged on every path (it is recomputed or replaced on some)' % (f, param), body.site(c.bb))
                    else:
                        ctx.undecided(R + '/reason/' + f, 'T-CARRY', body.site(c.bb), 'how the field is initialised is not recognised; its dependence on the parameter is decided')
    else:
        # restore: the pushed element is the `.constraint` payload of the removed entry
        for c in pu:
            it = ctx.S.slice_operand(body, c.args[-1])
            ctx.check(it.has_field('v1::RemovedConstraint', 'constraint'), R + '/move/payload', 'T-CARRY', body.name, 'pushed element is not the removed entry\'s constraint', body.site(c.bb))
    # ---- nothing else written; no error after a mutation
    writes_only(ctx, R + '/only', body, {src_field, dst_field})
    for what, bi, badexits in atomic_ps(ctx, body):
        ctx.check(not badexits, R + '/atomic', 'T-ATOMIC', body.name, 'an Err-exit (bb%s) is reachable after mutation `%s`' % (badexits, what), body.site(bi))
    # the moved element is neither mutably borrowed nor partially assigned on its way
    for c in pu:
        it = ctx.S.slice_operand(body, c.args[-1])
        chain = {l for l in it.locals if re.search(r'v1::(Constraint|RemovedConstraint)\b', body.locals[l]) and not body.locals[l].startswith('&') and 'Vec<' not in body.locals[l] and 'Iter<' not in body.locals[l]}
        touched = []
        for bi, st in body.stmts():
            rv = st['rv']
            if rv['k'] == 'ref' and rv.get('mut') and rv['pl']['l'] in chain: touched.append(body.site(bi))
            if st['dst']['p'] and st['dst']['l'] in chain:
                fs = fields_of_place(st['dst'])
                # building the wrapper field by field (`rc.removed_reason = reason`) is not a change of the element
                if fs and fs[0][0].endswith('v1::RemovedConstraint') and fs[0][1] in ('removed_reason', 'removed_reason_parameters'): continue
                # relax: the wrapper is new, assigning its `constraint` field as a whole is how it gets its content (reason/constraint-is-removed-one checks what)
                if name == 'relax_constraint' and len(fs) == 1 and fs[0][0].endswith('v1::RemovedConstraint'): continue
                touched.append(body.site(bi))
        ctx.check(not touched, R + '/element-not-borrowed-mutably', 'T-CARRY', body.name, 'the moved element is modified at %s' % sorted(set(touched)), body.site(c.bb), chain=sorted(chain))
    # no field of the moved constraint is assigned
    writes = [body.site(bi) for bi, st in body.stmts() if st['dst']['p'] and any(a.endswith('v1::Constraint') for a, f in fields_of_place(st['dst']))]
    ctx.check(not writes, R + '/element-untouched', 'T-CARRY', body.name, 'a field of the constraint is written at %s' % writes, body.site())


# what relaxing / restoring means for the feasibility flags is decided by the C05 flag rules
RELIES_ON = {'C05': ['C05.flags', 'C05.lists', 'C05.rule',
                     'C05.bound/check_bound'],     # whether a state is evaluated at all must not depend on which list a constraint is in (seed C14-20)
             # the same clause for sample sets: Instance::evaluate_samples computes `feasible` from both lists and `feasible_relaxed` from the
             # active one only; C05 does not look at evaluate_samples (seed C14-9 skipped the removed constraints there)
             'C06': ['C06.samples/constraints', 'C06.samples/removed_constraints', 'C06.samples/flags', 'C06.samples/two-lists']}


def check(ctx):
    one_move(ctx, 'relax_constraint', 'constraints', 'v1::Constraint', 'removed_constraints', 'v1::RemovedConstraint')
    one_move(ctx, 'restore_constraint', 'removed_constraints', 'v1::RemovedConstraint', 'constraints', 'v1::Constraint')
    ctx.floor('C14.relax_constraint', 27); ctx.floor('C14.restore_constraint', 24)
