"""C18 — MPS round trip (DESIGN §5 C18): the writer emits only what the reader accepts and loses nothing."""
from .common import *
from .C17 import literal_table

WRITER_FNS = ('write_mps', 'write_beginning', 'write_rows', 'write_columns', 'write_col_entry', 'write_rhs', 'write_bounds', 'constr_name', 'dvar_name')
LABELS = {'RHS1', 'BND1', 'MARK', 'OBJ'}       # free-form names, not keywords


def writer_bodies(ctx):
    out = {}
    for b in ctx.F.bodies.values():
        if b.kind in ('fn', 'closure') and re.match(r'^mps::to_mps::', b.parent if b.kind == 'closure' else b.name):
            out[b.name] = b
    return out


def templates_of(b):
    """literal pieces of every format template used in body b (and plain byte-string literals written directly)"""
    pieces = []; fmt_consts = set()
    for c in b.calls:
        if 'fmt::Arguments' in c.name and c.item in ('new', 'from_str', 'new_const', 'new_v1'):
            for a in c.args[:1]:
                ex = T.strip_wrappers(T.expr(b, a, depth=6))
                if ex[0] == 'const':
                    fmt_consts.add(ex[1]); pieces += T.decode_fmt_pieces(ex[1])
    for bi, st in b.stmts():
        for o in st['rv'].get('ops', []):
            if o['k'] == 'const' and o['v'].startswith('b"') and o['v'] not in fmt_consts:
                pieces.append(bytes(T._unescape_bytes(o['v'][2:-1])).decode('utf-8', 'replace'))
    for c in b.calls:
        for a in c.args:
            if a['k'] == 'const' and a['v'].startswith('b"') and a['v'] not in fmt_consts:
                pieces.append(bytes(T._unescape_bytes(a['v'][2:-1])).decode('utf-8', 'replace'))
    return pieces


def str_consts_of(b):
    out = []
    for bi, st in b.stmts():
        for o in st['rv'].get('ops', []):
            if o['k'] == 'const' and re.fullmatch(r'"[A-Z\']{1,10}"', o['v']): out.append(o['v'].strip('"'))
    return out


def reader_tables(ctx):
    tabs = {}
    for key, (ty, fn, trait) in {'sense': ('mps::parser::ObjSense', 'from_str', 'FromStr'), 'sections': ('mps::parser::Cursor', 'from_str', 'FromStr'), 'rows': ('mps::parser::State', 'read_row_field', None),
                                 'bounds': ('mps::parser::State', 'read_bound_field', None), 'markers': ('mps::parser::State', 'read_column_field', None)}.items():
        b = ctx.F.one(ty, fn, trait=trait)
        if b is None:
            ctx.lost('C18.keywords/reader-table', '%s::%s' % (ty, fn)); tabs[key] = set(); continue
        ctx.fn(b); tabs[key] = set(literal_table(b))
    hb = ctx.F.one('mps::parser::State', 'read_header')
    tabs['header'] = {c.args[1]['v'].strip('"') for c in hb.calls if c.item == 'strip_prefix' and len(c.args) > 1 and c.args[1]['k'] == 'const'} if hb else set()
    return tabs


def magic_rules(ctx, W):
    R = 'C18.magic'
    def schema_no(enum, variant):
        a = ctx.F.adt(enum)
        return {v['name']: v['discr'] for v in a['variants']}.get(variant) if a else None
    def int_switches(b, adt, field):
        out = []
        for bi in sorted(b.live):
            t = b.blocks[bi]['term']
            if t['k'] == 'switch' and t['d']['k'] != 'const':
                fs = T.access_path(b, t['d'])[0]
                if (adt, field) in fs: out.append((bi, t))
        return out
    # sense: 2 => Max
    b = W.get('mps::to_mps::write_beginning')
    if b is None: ctx.lost(R + '/sense', 'write_beginning')
    else:
        ctx.fn(b); ok = False; got = None
        for bi, t in int_switches(b, 'v1::Instance', 'sense'):
            m = {v: tg for v, tg in t['ts']}
            rows = {}
            for v, tg in list(m.items()) + [('else', t['else'])]:
                others = (set(m.values()) | {t['else']}) - {tg}
                reg = b.reach([tg], stop=others)
                rows[v] = sorted({st['rv']['adt'].split('::')[-1] for b2, st in b.stmts() if b2 in reg and st['rv']['k'] == 'agg' and 'ObjSense::' in st['rv']['adt']})
            got = rows
            ok = rows.get(schema_no('v1::instance::Sense', 'Maximize')) == ['Max'] and rows.get('else') == ['Min'] and set(rows) == {schema_no('v1::instance::Sense', 'Maximize'), 'else'}
        ctx.check(ok, R + '/sense', 'T-CONST', b.name, 'OBJSENSE dispatch on instance.sense is %s; the schema number of SENSE_MAXIMIZE is %s' % (got, schema_no('v1::instance::Sense', 'Maximize')), b.site())
    # equality: 2 => "L" else "E"
    b = W.get('mps::to_mps::write_rows')
    if b is None: ctx.lost(R + '/equality', 'write_rows')
    else:
        ctx.fn(b); ok = False; got = None
        for bi, t in int_switches(b, 'v1::Constraint', 'equality'):
            m = {v: tg for v, tg in t['ts']}
            rows = {}
            for v, tg in list(m.items()) + [('else', t['else'])]:
                others = (set(m.values()) | {t['else']}) - {tg}
                reg = b.reach([tg], stop=others | set(b.loops()))
                rows[v] = sorted({o['v'].strip('"') for b2, st in b.stmts() if b2 in reg for o in st['rv'].get('ops', []) if o['k'] == 'const' and re.fullmatch(r'"[A-Z]"', o['v'])})
            got = rows
            ok = rows.get(schema_no('v1::Equality', 'LessThanOrEqualToZero')) == ['L'] and rows.get('else') == ['E'] and len(rows) == 2
        ctx.check(ok, R + '/equality', 'T-CONST', b.name, 'row kind dispatch on constraint.equality is %s; the schema number of LESS_THAN_OR_EQUAL_TO_ZERO is %s' % (got, schema_no('v1::Equality', 'LessThanOrEqualToZero')), b.site())
    # kind: {BINARY, INTEGER} => integer markers / LI,UI
    want = {schema_no('v1::decision_variable::Kind', 'Binary'), schema_no('v1::decision_variable::Kind', 'Integer')}
    for fn in ('write_columns', 'write_bounds'):
        b = W.get('mps::to_mps::' + fn)
        if b is None: ctx.lost(R + '/kind/' + fn, fn); continue
        ctx.fn(b); ok = False; got = None
        for bi, t in int_switches(b, 'v1::DecisionVariable', 'kind'):
            vals = {v for v, tg in t['ts']}
            tg_int = {tg for v, tg in t['ts']}
            got = sorted(vals)
            if vals == want and len(tg_int) == 1:
                reg_i = b.reach(list(tg_int), stop={t['else']} | set(b.loops())); reg_o = b.reach([t['else']], stop=tg_int | set(b.loops()))
                if fn == 'write_columns':
                    ok = any(c.bb in reg_i and c.item == 'intorg' for c in b.calls) and any(c.bb in reg_o and c.item == 'intend' for c in b.calls)
                else:
                    si = sorted({o['v'].strip('"') for b2, st in b.stmts() if b2 in reg_i - reg_o for o in st['rv'].get('ops', []) if o['k'] == 'const' and re.fullmatch(r'"[A-Z]{2}"', o['v'])})
                    so = sorted({o['v'].strip('"') for b2, st in b.stmts() if b2 in reg_o - reg_i for o in st['rv'].get('ops', []) if o['k'] == 'const' and re.fullmatch(r'"[A-Z]{2}"', o['v'])})
                    ok = si == ['LI', 'UI'] and so == ['LO', 'UP']
        ctx.check(ok, R + '/kind/' + fn, 'T-CONST', b.name, 'integer handling is keyed on kind values %s; the schema numbers of BINARY/INTEGER are %s' % (got, sorted(want)), b.site())


def keyword_rules(ctx, W):
    R = 'C18.keywords'
    tabs = reader_tables(ctx)
    accepted = set().union(*tabs.values())
    emitted = {}
    for name, b in W.items():
        toks = []
        for p in templates_of(b):
            toks += re.findall(r"'?[A-Z][A-Z0-9]*'?", p)
        toks += str_consts_of(b)
        for t in toks:
            emitted.setdefault(t, set()).add(name.split('::')[-1])
    disp = ctx.F.one('mps::parser::ObjSense', 'fmt', trait='Display')
    if disp is not None:
        ctx.fn(disp)
        for t in str_consts_of(disp): emitted.setdefault(t, set()).add('Display for ObjSense')
    ctx.check(len(emitted) >= 12, R + '/tokens-found', 'T-TABLE', 'mps::to_mps', 'only %d keyword-shaped tokens found in the writer templates' % len(emitted))
    for tok, where in sorted(emitted.items()):
        base = re.sub(r'\d+$', '', tok)
        if base in LABELS or tok in LABELS:
            ctx.ok(R + '/label/' + tok, 'T-TABLE', 'mps::to_mps'); continue
        ctx.check(tok in accepted, R + '/accepted/' + tok, 'T-TABLE', 'mps::to_mps::' + sorted(where)[0], 'the writer emits keyword `%s` (in %s) which the reader does not accept' % (tok, sorted(where)), 'rust/ommx/src/mps/to_mps.rs')
    # per class: what is written in a given position is in the reader's table for that position
    b = W.get('mps::to_mps::write_bounds')
    if b is not None:
        bt = set(str_consts_of(b))
        ctx.check(bt <= tabs['bounds'] and bool(bt), R + '/bound-kinds', 'T-TABLE', b.name, 'bound kinds written %s, reader accepts %s' % (sorted(bt), sorted(tabs['bounds'])), b.site())
    b = W.get('mps::to_mps::write_rows')
    if b is not None:
        rk = set(str_consts_of(b)) | {t for p in templates_of(b) for t in re.findall(r'^ ([A-Z]) ', p)}
        ctx.check(rk <= tabs['rows'] and {'L', 'E'} <= rk, R + '/row-kinds', 'T-TABLE', b.name, 'row kinds written %s, reader accepts %s' % (sorted(rk), sorted(tabs['rows'])), b.site())
        # the objective row is written under the shared OBJ_NAME
        objn = ctx.F.consts.get('mps::to_mps::OBJ_NAME', (None, ''))[1].strip('"')
        nrows = [t for p in templates_of(b) for t in re.findall(r' N (\w+)', p)]
        ctx.check(nrows == [objn] and bool(objn), 'C18.ids/objective-row-name', 'T-CONST', b.name, 'the N row is written as %s but the shared objective name is %r' % (nrows, objn), b.site())
    for fn in ('write_columns', 'write_rhs'):
        b = W.get('mps::to_mps::' + fn)
        if b is None: continue
        wb = ctx.S.whole_body(b.name, 3)
        proms = [ctx.S.whole_body(n, 2) for n in ctx.F.bodies if n.startswith(b.name + '::promoted[')]
        uses = [x for x in wb.consts if 'OBJ_NAME' in x] + [x for p_ in proms for x in p_.consts if 'OBJ_NAME' in x]
        refs = []
        ctx.check(bool(uses or refs), 'C18.ids/objective-name-shared/' + fn, 'T-CONST', b.name, 'objective entries are not written under OBJ_NAME', b.site())


def linear_rules(ctx, W):
    R = 'C18.linear'
    n = 0
    for name, b in sorted(W.items()):
        for c in b.calls:
            if c.item == 'as_linear' and c.path.endswith('Function>::as_linear'):
                n += 1
                arms = T.option_arms(b, c.dst['l'])
                ok = False
                for sb, m, els in arms:
                    none_t = m.get(0, els)
                    r = b.reach([none_t], stop=set(b.loops()))
                    errs = [st['rv']['adt'].split('::')[-1] for b2, st in b.stmts() if b2 in r and st['rv']['k'] == 'agg' and 'MpsWriteError::Invalid' in st['rv']['adt']]
                    is_obj = any('objective' in x.item for x in ctx.S.slice_operand(b, c.args[0]).call_objs) if b.name.endswith('write_rhs') else False
                    if errs and not (r & b.strict_ok_exits()):
                        ok = True
                    elif is_obj:
                        ok = True      # write_rhs only adds the objective constant; non-linear objectives are rejected by write_columns (checked below)
                ctx.check(ok, R + '/none-is-error/%s' % b.name.split('::')[-1], 'T-ERRFLOW', b.name, 'a non-linear function is skipped instead of being refused with an error', b.site(c.bb))
    ctx.check(n >= 3, R + '/sites', 'T-ERRFLOW', 'mps::to_mps', 'expected >= 3 uses of Function::as_linear in the writer, found %d' % n)
    # the error names the offender: InvalidConstraintType{name: row name, degree: func.degree()}
    b = W.get('mps::to_mps::write_col_entry')
    if b is not None:
        for bi, st in b.stmts():
            if st['rv']['k'] == 'agg' and st['rv']['adt'].endswith('MpsWriteError::InvalidConstraintType'):
                d = dict(zip(st['rv']['fields'], st['rv']['ops']))
                okn = T.access_path(b, d['name'])[1] == 3 or 3 in ctx.S.slice_operand(b, d['name']).params
                okd = T.expr_has_call(T.expr(b, d['degree']), 'degree')
                ctx.check(okn and okd, R + '/error-names-offender', 'T-CARRY', b.name, 'InvalidConstraintType does not carry the row name and the degree', b.site(bi))
    b = W.get('mps::to_mps::write_columns')
    if b is not None:
        # objective entry goes through write_col_entry with OBJ_NAME and its error is re-labelled as InvalidObjectiveType
        wc = [c for c in b.calls if c.item == 'write_col_entry']
        obj = [c for c in wc if any(x.item == 'objective' for x in ctx.S.slice_operand(b, c.args[3]).call_objs)]
        ctx.check(len(obj) == 1, R + '/objective-checked', 'T-MUSTCALL', b.name, 'the objective is not written (and checked for linearity) per column', b.site())
        for c in wc:
            res = T.errflow(b, c.dst['l'])
            ctx.check(not [h for k, h in res if k == 'bad'], R + '/column-entry-error/%s' % ('objective' if c in obj else 'constraint'), 'T-ERRFLOW', b.name, 'write_col_entry error is dropped', b.site(c.bb))
        relabel = any(st['rv']['k'] == 'agg' and st['rv']['adt'].endswith('MpsWriteError::InvalidObjectiveType') for cb in [b] + ctx.F.closures_of(b) for bi, st in cb.stmts())
        ctx.check(relabel, R + '/objective-error-type', 'T-ERRFLOW', b.name, 'a non-linear objective is not reported as InvalidObjectiveType', b.site())
        # every column x every constraint
        loops = T.for_loops(b)
        outer = [l for l in loops if ctx.S.slice_operand(b, l[0].args[0]).has_field('v1::Instance', 'decision_variables') and not any(set(l[4]) < set(o[4]) for o in loops)]
        inner = [l for l in loops if ctx.S.slice_operand(b, l[0].args[0]).has_field('v1::Instance', 'constraints') and any(set(l[4]) < set(o[4]) for o in loops)]
        ctx.check(len(outer) == 1 and len(inner) == 1, 'C18.columns/loops', 'T-LOOPMUST', b.name, 'expected a loop over decision_variables containing a loop over constraints', b.site())
        if len(outer) == 1 and len(inner) == 1:
            con = [c for c in wc if c not in obj]
            loop_must(ctx, 'C18.columns/every-constraint', b, inner[0], lambda c: c in con, 'write_col_entry(constraint)')
            loop_must(ctx, 'C18.columns/every-variable', b, outer[0], lambda c: c in obj, 'write_col_entry(objective)')
    b = W.get('mps::to_mps::write_col_entry')
    if b is not None:
        # entry is written iff term.id == var_id and coefficient != 0; all matching terms
        loops = T.for_loops(b)
        ctx.check(len(loops) == 1, 'C18.columns/entry/loop', 'T-LOOPMUST', b.name, 'expected one loop over the terms', b.site())
        cmps = [(bi, st) for bi, st in b.stmts() if st['rv']['k'] == 'bin' and st['rv']['op'] in ('Eq', 'Ne')]
        ideq = any(st['rv'].get('ty') == 'u64' and st['rv']['op'] == 'Eq' for bi, st in cmps)
        nz = any(st['rv'].get('ty') == 'f64' and any(o['k'] == 'const' and o['v'] == '0f64' for o in st['rv']['ops']) for bi, st in cmps)
        ctx.check(ideq and nz and len(cmps) == 2, 'C18.columns/entry/condition', 'T-BRANCHFX', b.name, 'entry condition is not exactly `term.id == var_id && coefficient != 0`', b.site())


def rhs_rules(ctx, W):
    b = W.get('mps::to_mps::write_rhs')
    if b is None: return
    R = 'C18.rhs'
    negs = [(bi, st) for bi, st in b.stmts() if st['rv']['k'] == 'un' and st['rv']['op'] == 'Neg']
    ctx.check(len(negs) == 2, R + '/negated', 'T-BRANCHFX', b.name, 'RHS entries are not the negated constants (objective and constraints): %d negations' % len(negs), b.site())
    for bi, st in negs:
        ex = T.expr(b, st['rv']['ops'][0])
        ctx.check(('v1::Linear', 'constant') in T.expr_fields(ex) or any(f == 'constant' for a, f in T.expr_fields(ex)), R + '/negates-constant', 'T-CARRY', b.name, 'negation is not applied to the linear constant', b.site(bi))
    loops = loops_over(ctx, b, 'v1::Instance', 'constraints')
    ctx.check(len(loops) == 1, R + '/loop', 'T-LOOPMUST', b.name, 'expected one loop over constraints', b.site())
    # only a zero constant may be omitted
    zs = [(bi, st) for bi, st in float_cmp_sites(b, ('Ne', 'Eq')) if any(o['k'] == 'const' and o['v'] == '0f64' for o in st['rv']['ops'])]
    ctx.check(len(zs) == 2, R + '/only-zero-omitted', 'T-BRANCHFX', b.name, 'RHS entries are skipped under another condition than `constant != 0`', b.site())


def bounds_rules(ctx, W):
    R = 'C18.bounds'
    b = W.get('mps::to_mps::write_bounds')
    if b is None:
        ctx.lost(R, 'write_bounds'); return
    ctx.fn(b)
    loops = [lo for lo in T.for_loops(b) if ctx.S.slice_operand(b, lo[0].args[0]).has_call(r'impl v1::Instance>::used_decision_variable_ids')]
    ctx.check(len(loops) == 1, R + '/loop', 'T-LOOPMUST', b.name, 'expected one loop over the used variable ids, found %d' % len(loops), b.site())
    for lo in loops:
        nextc, header, some_bb, none_bb, blocks = lo
        wf = [c for c in b.calls if c.bb in blocks and c.item == 'write_fmt']
        ups = []; lows = []
        for c in wf:
            ex = T.expr(b, c.args[1], depth=14)
            fs = [f for a, f in T.expr_fields(ex) if a.endswith('v1::Bound')]
            s = ctx.S.slice_operand(b, c.args[1])
            if s.has_field('v1::Bound', 'upper') and not s.has_field('v1::Bound', 'lower'): ups.append(c)
            elif s.has_field('v1::Bound', 'lower') and not s.has_field('v1::Bound', 'upper'): lows.append(c)
        ctx.check(len(ups) == 1 and len(lows) == 1, R + '/two-records', 'T-LOOPMUST', b.name, 'expected one upper and one lower bound record per variable, found %d / %d' % (len(ups), len(lows)), b.site(nextc.bb))
        errs = b.err_exits()
        for what, cs in (('upper', ups), ('lower', lows)):
            if not cs: continue
            ok = T.must_pass(b, some_bb, {header}, {cs[0].bb})
            ctx.check(ok, R + '/every-variable/' + what, 'T-LOOPMUST', b.name,
                      'a used variable can pass through the loop without its %s bound being written (e.g. when `bound` is unset the MPS default [0,+inf) would apply on reading)' % what, b.site(cs[0].bb))
        # the kind keyword pairs with the right end: upper with UI/UP, lower with LI/LO
        tuples = [(bi, st) for bi, st in b.stmts() if bi in blocks and st['rv']['k'] == 'agg' and st['rv']['adt'] == 'tuple' and all(o['k'] == 'const' for o in st['rv']['ops']) and len(st['rv']['ops']) == 2]
        okp = bool(tuples) and all((st['rv']['ops'][0]['v'].strip('"'), st['rv']['ops'][1]['v'].strip('"')) in (('LI', 'UI'), ('LO', 'UP')) for bi, st in tuples)
        def kw_index(c):
            s = ctx.S.slice_operand(b, c.args[1]); ex = T.expr(b, c.args[1], depth=16)
            return sorted({f for x in T.expr_walk(ex) if x[0] in ('place', 'proj') for a, f in x[2] if a == 'tuple'})
        ctx.check(okp and bool(ups) and bool(lows) and '1' in kw_index(ups[0]) and '0' in kw_index(lows[0]) and '0' not in kw_index(ups[0]) and '1' not in kw_index(lows[0]),
                  R + '/keyword-matches-end', 'T-CARRY', b.name, 'bound keywords are not paired (lower: LI/LO, upper: UI/UP) with the bound they describe', b.site(nextc.bb))
        # unknown id => InvalidVariableId
        gets = [c for c in b.calls if c.bb in blocks and c.item == 'get' and 'HashMap' in c.name]
        errflow_calls(ctx, R + '/unknown-id-is-error', b, gets, 'unknown variable id')
        okid = any(st['rv']['k'] == 'agg' and st['rv']['adt'].endswith('MpsWriteError::InvalidVariableId') for bi, st in b.stmts())
        ctx.check(okid, R + '/unknown-id-typed', 'T-ERRFLOW', b.name, 'unknown id is not reported as InvalidVariableId', b.site())
    # unset bound is given the documented meaning ((-inf, inf), [0,1] for binaries) — never the MPS default
    tests = option_field_tests(b, 'v1::DecisionVariable', 'bound')
    okd = False
    for sb, sm, nn in tests:
        nr = T.reach_cp(b, [nn], stop=set(b.loops())) - T.reach_cp(b, [sm], stop=set(b.loops()))
        vals = []
        for bi, st in find_aggregates(b, 'v1::Bound'):
            if bi in nr:
                d = dict(zip(st['rv']['fields'], st['rv']['ops']))
                def v(o): return ('-inf' if 'NEG_INFINITY' in o['v'] else ('+inf' if 'INFINITY' in o['v'] else o['v'])) if o['k'] == 'const' else '?'
                vals.append((v(d['lower']), v(d['upper'])))
        okd = sorted(vals) == [('-inf', '+inf'), ('0f64', '1f64')]
    ctx.check(okd, R + '/unset-bound-domain', 'T-SIBLING', b.name, 'an unset bound is not written as (-inf, +inf) / [0, 1] for binaries', b.site())


def ids_rules(ctx, W):
    R = 'C18.ids'
    vp = ctx.F.consts.get('mps::to_mps::VAR_PREFIX'); cp = ctx.F.consts.get('mps::to_mps::CONSTR_PREFIX')
    ctx.check(bool(vp) and bool(cp) and vp[1] != cp[1], R + '/prefix-constants', 'T-CONST', 'mps::to_mps', 'shared prefixes: %s %s' % (vp, cp))
    for fn, const, field in (('dvar_name', 'VAR_PREFIX', ('v1::DecisionVariable', 'id')), ('constr_name', 'CONSTR_PREFIX', ('v1::Constraint', 'id'))):
        b = W.get('mps::to_mps::' + fn)
        if b is None: ctx.lost(R + '/' + fn, fn); continue
        ctx.fn(b)
        s = ctx.S.backslice(b, [0])
        cs = [x for x in s.consts if const in x]
        lits = [p for p in templates_of(b) if p.strip()]
        ctx.check(s.has_field(*field) and bool(cs) and not lits, R + '/%s/prefix-plus-id' % fn, 'T-CARRY', b.name, 'name is not exactly <%s><id> (constants %s, literal pieces %s)' % (const, cs, lits), b.site())
    # the reader's recovery uses the same constants
    for fn, const in (('convert_dvars', 'VAR_PREFIX'), ('convert_constraints', 'CONSTR_PREFIX')):
        b = ctx.free_fn(R + '/reader/%s/anchor' % fn, 'mps::convert::' + fn)
        if b is None: continue
        used = set()
        for cb in [b] + ctx.F.closures_of(b):
            for c in cb.calls:
                if c.item == 'parse_id_tag':
                    ex = T.strip_wrappers(T.expr(cb, c.args[0]))
                    used.add(ex[1] if ex[0] == 'const' else T.expr_str(ex, 3))
            for bi, st in cb.stmts():
                for o in st['rv'].get('ops', []):
                    if o['k'] == 'const' and 'to_mps::' in o['v']: used.add(o['v'])
        ctx.check(any(const in x for x in used) and not any(('VAR_PREFIX' in x or 'CONSTR_PREFIX' in x) and const not in x for x in used), R + '/reader/%s/same-prefix' % fn, 'T-CONST', b.name,
                  'id recovery does not use the writer\'s %s (uses %s)' % (const, sorted(used)), b.site())
    pb = ctx.free_fn(R + '/parse_id_tag/anchor', 'mps::convert::parse_id_tag')
    if pb is not None:
        sp = [c for c in pb.calls if c.item == 'strip_prefix']
        ps = [c for c in pb.calls if c.item == 'parse' and 'u64' in c.name]
        ctx.check(len(sp) == 1 and len(ps) == 1 and T.access_path(pb, sp[0].args[1])[1] == 1 and T.access_path(pb, sp[0].args[0])[1] == 2, R + '/parse_id_tag/strips-then-parses', 'T-CARRY', pb.name, 'id is not parsed from the name after the prefix', pb.site())


# the round trip reads the written text back through the MPS reader and converter
RELIES_ON = {'C17': ['C17']}


def check(ctx):
    W = writer_bodies(ctx)
    if len(W) < 8:
        ctx.lost('C18.writer', 'functions of mps::to_mps (found %d)' % len(W)); return
    for b in W.values(): ctx.fn(b)
    magic_rules(ctx, W); keyword_rules(ctx, W); linear_rules(ctx, W); rhs_rules(ctx, W); bounds_rules(ctx, W); ids_rules(ctx, W)
    wm = W.get('mps::to_mps::write_mps')
    if wm is not None:
        for fn in ('write_beginning', 'write_rows', 'write_columns', 'write_rhs', 'write_bounds'):
            mustcall(ctx, 'C18.sections/' + fn, wm, lambda c, fn=fn: c.item == fn, fn + '(instance, out)?')
        order = [c.item for c in wm.calls if c.item.startswith('write_') and c.item != 'write_fmt']
        ctx.check(order == ['write_beginning', 'write_rows', 'write_columns', 'write_rhs', 'write_bounds'], 'C18.sections/order', 'T-BRANCHFX', wm.name, 'sections are written in the order %s' % order, wm.site())
    ctx.floor('C18.magic', 4); ctx.floor('C18.keywords', 15); ctx.floor('C18.linear', 8); ctx.floor('C18.bounds', 7); ctx.floor('C18.ids', 7); ctx.floor('C18.sections', 6); ctx.floor('C18.rhs', 4); ctx.floor('C18.columns', 4)
