"""C14 — relaxing and restoring constraints only moves them (DESIGN §5 C14).

Written against the normal form (`VIEW = 'norm'`): `iter().position(p)` and a hand-written counting loop
look the same (a `next` loop with a counter that starts at 0 and is incremented once per element), a
spliced predicate closure is ordinary control flow inside that loop.

What is decided for each of the two operations (src list -> dst list):

  lookup   the index handed to the removal is the value of a counter of a loop over *self.src itself*
           (no reordering / restricting adaptor, incremented exactly once per element), read only where an
           `element.id == argument` comparison has succeeded, and `not found` can only lead to Err-exits;
  move     every successful path passes exactly one removal from self.src and exactly one push onto
           self.dst, the pushed value is (built from) the removed one, no other size-changing operation
           touches the two lists;
  reason   (relax) the wrapper carries the removed constraint and both reason arguments;
  frame    nothing else of self is written, no Err-exit after a mutation, the moved element is not
           modified on its way.
"""
from .common import *

VIEW = 'norm'

INST = 'v1::Instance'
KEY_PARAM = 2          # `constraint_id: u64`  (public signature)

# --------------------------------------------------------------------------------------------- tables
# ways of taking one element out of a Vec, element = the call's result
REMOVE_ITEMS = {
    'remove': 'v.remove(i): the tail is shifted',
    'swap_remove': 'v.swap_remove(i): the last element fills the hole (order is not part of C14)',
}
# ways of putting one element into a Vec, element = last argument
PUSH_ITEMS = {
    'push': 'v.push(x)   (also what the normal form makes of v.extend([x]))',
    'insert': 'v.insert(i, x): the position is not part of C14 (set semantics)',
}
# calls that may appear between `self.list` and the search loop without changing which element has which index
INDEX_PRESERVING = {
    'iter': 'slice::iter', 'iter_mut': 'slice::iter_mut', 'into_iter': '(&Vec).into_iter()', 'by_ref': 'Iterator::by_ref',
    'next': 'the loop\'s own next()', 'deref': 'Vec -> slice', 'deref_mut': 'Vec -> slice', 'as_slice': 'Vec::as_slice',
    'as_mut_slice': 'Vec::as_mut_slice', 'as_ref': 'AsRef<[T]>', 'borrow': 'Borrow<[T]>', 'copied': 'Iterator::copied', 'cloned': 'Iterator::cloned',
}
# mutating Vec operations that keep the multiset of elements (C14 speaks about the lists as sets)
ORDER_ONLY = {'sort', 'sort_by', 'sort_by_key', 'sort_by_cached_key', 'sort_unstable', 'sort_unstable_by', 'sort_unstable_by_key', 'reverse', 'swap',
              'rotate_left', 'rotate_right', 'reserve', 'reserve_exact', 'shrink_to_fit', 'shrink_to'}
# bool-valued calls `f(opt, |c| <pred c>)` that are false whenever the predicate closure is false
#   item -> (index of the closure argument, extra condition on the call)
CLOSURE_PREDICATES = {
    'is_some_and': (1, None),                                                     # opt.is_some_and(|c| c.id == k)
    'is_ok_and': (1, None),                                                       # res.is_ok_and(|c| c.id == k)
    'map_or': (2, lambda c: c.args[1]['k'] == 'const' and c.args[1]['v'].replace('const ', '') == 'false'),   # opt.map_or(false, |c| c.id == k)
    'any': (1, None),                                                             # opt.iter().any(|c| c.id == k)  (not spliced: base is not a closure chain)
}


def _cv(o):
    return o['v'].replace('const ', '').strip() if o['k'] == 'const' else None


def _is_local(o, l):
    return o['k'] in ('copy', 'move') and o['pl']['l'] == l and not o['pl']['p']


# ------------------------------------------------------------------------- path-sensitive reachability
def cp_reach(body, starts, assume_stmt=None, assume_call=None):
    """forward reachability with constant propagation of bool locals (as templates.reach_cp), where in
    addition the results of the given comparison statements / calls are *assumed* to be a constant:
    assume_stmt: {id(stmt): bool}, assume_call: {bb: bool}.  Used to ask `what is reachable if every
    id comparison fails`."""
    assume_stmt = assume_stmt or {}; assume_call = assume_call or {}
    seen = set(); out = set(); work = [(s, frozenset()) for s in starts]
    while work:
        bi, env = work.pop()
        if (bi, env) in seen: continue
        seen.add((bi, env)); out.add(bi)
        if len(seen) > 60000: return body.reach(starts)       # give up: plain over-approximation
        e = dict(env)
        blk = body.blocks[bi]
        for st in blk['st']:
            if 'dst' not in st: continue
            d = st['dst']
            if d['p']: continue
            rv = st['rv']; ops = rv.get('ops') or [None]; o = ops[0]
            if id(st) in assume_stmt: e[d['l']] = assume_stmt[id(st)]
            elif rv['k'] == 'use' and o['k'] == 'const' and _cv(o) in ('true', 'false'): e[d['l']] = (_cv(o) == 'true')
            elif rv['k'] == 'use' and o['k'] in ('copy', 'move') and not o['pl']['p'] and o['pl']['l'] in e: e[d['l']] = e[o['pl']['l']]
            elif rv['k'] == 'un' and rv['op'] == 'Not' and o['k'] in ('copy', 'move') and not o['pl']['p'] and o['pl']['l'] in e: e[d['l']] = not e[o['pl']['l']]
            else: e.pop(d['l'], None)
            if rv['k'] == 'ref' and rv.get('mut'): e.pop(rv['pl']['l'], None)
        t = blk['term']
        succs = body.succ(bi)
        if t['k'] == 'call':
            if not t['dst']['p']:
                dl = t['dst']['l']
                nm = t['r'] or t['f']; a0 = t['args'][0] if t['args'] else None
                if bi in assume_call: e[dl] = assume_call[bi]
                elif T.NOT_CALL.search(nm) and a0 and a0['k'] in ('copy', 'move') and not a0['pl']['p'] and a0['pl']['l'] in e: e[dl] = not e[a0['pl']['l']]
                else: e.pop(dl, None)
        elif t['k'] == 'switch' and t['d']['k'] != 'const' and not t['d']['pl']['p'] and t['d']['pl']['l'] in e:
            v = 1 if e[t['d']['pl']['l']] else 0
            m = {val: tg for val, tg in t['ts']}
            succs = [m.get(v, t['else'])]
        fe = frozenset(e.items())
        for s in succs:
            if body.blocks[s]['cleanup']: continue
            work.append((s, fe))
    return out


# ------------------------------------------------------------------------------------- the search loop
def recv_field(body, call):
    """field of `self` a Vec method call operates on (receiver followed through borrows / copies), or None"""
    if not call.args: return None
    fs, root, _ = T.access_path(body, call.args[0])
    if root == 1 and fs and (fs[0][0] == INST or fs[0][0].endswith('::' + INST)): return fs[0][1]
    return None


def vec_calls(body, items, field):
    return [c for c in body.calls if c.item in items and re.search(r'\bVec::<.*>::(%s)$' % '|'.join(items), c.name) and recv_field(body, c) == field]


def counter_defs(body, l):
    """`l` is a position counter: every definition is `l = 0` or `l = l + 1`.  Returns (init_bbs, inc_bbs, inc_stmt_ids) or None"""
    inits = []; incs = []; ids = set()
    for k, bi, d in body.defs_of(l):
        if k != 'stmt' or d['dst']['p']: return None
        rv = d['rv']; ops = rv.get('ops') or []
        if rv['k'] == 'use' and _cv(ops[0]) == '0_usize':
            inits.append(bi)
        elif rv['k'] == 'bin' and rv['op'] in ('Add', 'AddUnchecked') and ((_is_local(ops[0], l) and _cv(ops[1]) == '1_usize') or (_is_local(ops[1], l) and _cv(ops[0]) == '1_usize')):
            incs.append(bi); ids.add(id(d))                                   # i = i + 1   (normal form of position / wrapping form)
        elif rv['k'] == 'use' and ops[0]['k'] in ('copy', 'move') and [p.get('f') for p in ops[0]['pl']['p'] if isinstance(p, dict)] == ['0']:
            # i += 1 in a debug build:  t = AddWithOverflow(i, 1); assert(!t.1); i = t.0
            tds = body.defs_of(ops[0]['pl']['l'])
            if len(tds) != 1 or tds[0][0] != 'stmt': return None
            trv = tds[0][2]['rv']
            if not (trv['k'] == 'bin' and trv['op'] == 'AddWithOverflow' and _is_local(trv['ops'][0], l) and _cv(trv['ops'][1]) == '1_usize'): return None
            incs.append(bi); ids.add(id(d)); ids.add(id(tds[0][2]))
        else:
            return None
    return (inits, incs, ids) if inits and incs else None


def id_comparisons(ctx, body, lo):
    """comparisons `item.id == key` of the search loop `lo`.  Returns (assume_stmt, assume_call, sites):
    the value each comparison's result has when the ids differ."""
    nxt = lo[0]
    def is_id(s): return s.has_field('v1::Constraint', 'id') and nxt in s.call_objs
    def is_key(s): return KEY_PARAM in s.params and not s.has_field('v1::Constraint', 'id')
    a_st = {}; a_call = {}; sites = []
    for bi, st in body.stmts():
        rv = st['rv']
        # x.id == k / k == x.id / x.id != k on the integers themselves
        if rv['k'] == 'bin' and rv['op'] in ('Eq', 'Ne') and not st['dst']['p']:
            a, b = [ctx.S.slice_operand(body, o) for o in rv['ops']]
            if (is_id(a) and is_key(b)) or (is_id(b) and is_key(a)):
                a_st[id(st)] = (rv['op'] == 'Ne'); sites.append(bi)
    for c in body.calls:
        # <u64 as PartialEq>::eq(&x.id, &k)
        if c.item in ('eq', 'ne') and 'PartialEq' in (c.trait or '') and re.search(r'^&*u64$', (c.self_ty or '').replace(' ', '')) and len(c.args) == 2:
            a, b = [ctx.S.slice_operand(body, o) for o in c.args]
            if (is_id(a) and is_key(b)) or (is_id(b) and is_key(a)):
                a_call[c.bb] = (c.item == 'ne'); sites.append(c.bb)
        # opt.is_some_and(|c| c.id == k) and relatives: closure not spliced by the normal form
        ent = CLOSURE_PREDICATES.get(c.item)
        if ent and len(c.args) > ent[0] and (ent[1] is None or ent[1](c)) and re.search(r'(Option|Result|Iterator)', c.name):
            recv = ctx.S.slice_operand(body, c.args[0]); cl = ctx.S.slice_operand(body, c.args[ent[0]])
            if not (nxt in recv.call_objs and KEY_PARAM in cl.params): continue
            good = False
            for cn in cl.closures:
                cb = ctx.F.bodies.get(cn)
                if cb is None: continue
                rets = [d for d in cb.defs_of(0)]
                if not rets: continue
                ok = True
                for k, b2, d in rets:
                    # the closure's value is the comparison of its argument's id with the captured key
                    if not (k == 'stmt' and not d['dst']['p'] and d['rv']['k'] == 'bin' and d['rv']['op'] == 'Eq'): ok = False; break
                    x, y = [ctx.S.slice_operand(cb, o) for o in d['rv']['ops']]
                    def arg_id(s): return s.has_field('v1::Constraint', 'id') and 2 in s.params
                    def cap(s): return 1 in s.params and not s.has_field('v1::Constraint', 'id')
                    if not ((arg_id(x) and cap(y)) or (arg_id(y) and cap(x))): ok = False; break
                good = good or ok
            if good:
                a_call[c.bb] = False; sites.append(c.bb)
    return a_st, a_call, sites


def lookup(ctx, R, body, rm, src_field, dst_field):
    """the index of removal `rm` is the position, in self.src_field, of an element whose id is the argument"""
    ix_op = rm.args[1]
    ix = ctx.S.slice_operand(body, ix_op)
    counters = {l: counter_defs(body, l) for l in sorted(ix.locals) if l > body.argc}
    counters = {l: v for l, v in counters.items() if v}
    loops = T.for_loops(body)
    found = []
    for l, (inits, incs, inc_ids) in counters.items():
        cands = [lo for lo in loops if all(b in lo[4] for b in incs)]
        if cands: found.append((l, inits, incs, inc_ids, min(cands, key=lambda lo: len(lo[4]))))
    ctx.check(len(found) >= 1, R + '/lookup/index-from-search', 'T-CARRY', body.name,
              'the removed index is not the position counter of a search loop (counter from 0, +1 per element)', body.site(rm.bb))
    for l, inits, incs, inc_ids, lo in found:
        nxt, header, some_bb, none_bb, blocks = lo
        site = body.site(nxt.bb)
        # ---- which list, and is the counter an index into it
        it = ctx.S.slice_operand(body, nxt.args[0])
        ctx.check(it.has_field(INST, src_field) and not it.has_field(INST, dst_field), R + '/lookup/list', 'T-CARRY', body.name,
                  'lookup does not search self.%s' % src_field, site)
        adaptors = sorted({x.item for x in it.call_objs if ('Iterator' in (x.trait or '') or 'Iterator' in x.name) and x.item not in INDEX_PRESERVING})
        ctx.check(not adaptors, R + '/lookup/index-of-the-list-itself', 'T-CARRY', body.name,
                  'the position is computed on an adapted iterator (%s), so it is not an index into self.%s' % (adaptors, src_field), site)
        once = (all(b not in blocks for b in inits) and T.must_pass(body, some_bb, {header}, set(incs))
                and not any(body.reach(body.succ(b), stop={header}) & set(incs) for b in incs))
        ctx.check(once, R + '/lookup/counts-every-element', 'T-LOOPMUST', body.name,
                  'the position counter is not incremented exactly once for every element that is not the match', site)
        # ---- where the counter is read: only as `Some(counter)` under a successful id comparison
        aliases = T.copies_of(body, l, through_refs=False)
        hits = []; other = []
        for a in aliases:
            for kind, bi, x in body.uses.get(a, ()):
                if kind == 'stmt':
                    if id(x) in inc_ids: continue
                    rv = x['rv']
                    if rv['k'] == 'use' and not x['dst']['p'] and x['dst']['l'] in aliases: continue
                    if rv['k'] == 'agg' and rv['adt'].endswith('Option::Some') and not x['dst']['p']: hits.append((bi, x))
                    else: other.append(bi)
                else: other.append(bi)
        ctx.check(bool(hits) and not other, R + '/lookup/result-is-position', 'T-CARRY', body.name,
                  'the position counter is used other than as the `Some(position)` result of the search (bb%s)' % sorted(set(other)), site)
        a_st, a_call, sites = id_comparisons(ctx, body, lo)
        ctx.check(bool(sites), R + '/lookup/by-id', 'T-CARRY', body.name,
                  'the search loop does not compare the element\'s constraint id with the argument', site)
        if sites:
            r = cp_reach(body, [0], a_st, a_call)
            reached = sorted({bi for bi, x in hits if bi in r} | {bi for bi in other if bi in r})
            ctx.check(not reached, R + '/lookup/eq', 'T-BRANCHFX', body.name,
                      'the position is taken (bb%s) on a path on which no id comparison succeeded' % reached, site)
        # ---- not found => Err, nothing else
        res0 = sorted({x['dst']['l'] for bi, x in hits})
        res = set()                                   # the Option the search leaves its result in, and the locals it is moved through
        for rl in res0: res |= T.copies_of(body, rl, through_refs=False)
        def res_def_ok(k, d):
            if k != 'stmt' or d['dst']['p']: return False
            rv = d['rv']
            if rv['k'] == 'agg': return (rv['adt'].endswith('Option::Some') and any(id(d) == id(x) for _, x in hits)) or rv['adt'].endswith('Option::None')
            return rv['k'] == 'use' and rv['ops'][0]['k'] in ('copy', 'move') and not rv['ops'][0]['pl']['p'] and rv['ops'][0]['pl']['l'] in res
        defs_ok = all(res_def_ok(k, d) for rl in res for k, bi, d in body.defs_of(rl))
        ctx.check(defs_ok, R + '/lookup/result-some-only-on-match', 'T-ERRFLOW', body.name, 'the search result is also assigned something else than Some(position) / None', site)
        for rl in res0:
            out = T.errflow(body, rl); ctx.counters['cfg_paths'] += 1
            bad = sorted({h for k, h in out if k == 'bad'})
            ctx.check(not bad, R + '/lookup/none-is-error', 'T-ERRFLOW', body.name, 'lookup result: %s' % '; '.join(bad), site, consumers=[h for k, h in out])
        # ---- the index is that result, unchanged
        ctx.check(l in ix.locals and all(rl in ix.locals for rl in res0), R + '/move/remove-index', 'T-CARRY', body.name, 'removed index does not come from the lookup', body.site(rm.bb))
        fs, root, _ = T.access_path(body, ix_op)
        plain = root in res and all(T.WRAPPER_OWNER.search(a) for a, f in fs)
        # anything computed on the way (index + 1, index.min(..), a cast) makes it another index
        computed = sorted({bi for x in ix.locals if x > body.argc for k, bi, d in body.defs_of(x)
                           if (k == 'stmt' and d['rv']['k'] in ('bin', 'un', 'cast') and id(d) not in inc_ids) or
                              (k == 'call' and re.fullmatch(r'[ui](8|16|32|64|128|size)', body.locals[x].strip()))})
        if plain: ctx.ok(R + '/move/remove-index-plain', 'T-CARRY', body.site(rm.bb))
        elif computed: ctx.bad(R + '/move/remove-index-plain', 'T-CARRY', body.name, 'the removed index is computed from the lookup result (bb%s), not the result itself' % computed, body.site(rm.bb))
        else: ctx.undecided(R + '/move/remove-index-plain', 'T-CARRY', body.site(rm.bb), 'the index reaches remove() through more than copies / `?` / Some-payload; only its dependence on the lookup is decided')
    return found


def value_root(body, op):
    """local a moved value was built in: follow plain single-definition moves backwards"""
    if op['k'] not in ('copy', 'move') or op['pl']['p']: return None
    l = op['pl']['l']
    for _ in range(12):
        ds = body.defs_of(l)
        if len(ds) == 1 and ds[0][0] == 'stmt' and not ds[0][2]['dst']['p']:
            rv = ds[0][2]['rv']
            if rv['k'] == 'use' and rv['ops'][0]['k'] in ('copy', 'move') and not rv['ops'][0]['pl']['p']:
                l = rv['ops'][0]['pl']['l']; continue
        break
    return l


def one_move(ctx, name, src_field, src_ty, dst_field, dst_ty):
    R = 'C14.%s' % name
    body = ctx.method(R + '/anchor', INST, name)
    if body is None: return
    oks = body.strict_ok_exits()
    rm = vec_calls(body, REMOVE_ITEMS, src_field)
    pu = vec_calls(body, PUSH_ITEMS, dst_field)
    # ---- the move itself: exactly one element out of src and one into dst on every successful path
    for what, calls, fld in (('remove', rm, src_field), ('push', pu, dst_field)):
        bbs = {c.bb for c in calls}
        ctx.counters['cfg_paths'] += 1
        ctx.check(bool(bbs) and bool(oks) and T.must_pass(body, 0, oks, bbs), R + '/move/%s-on-every-success-path' % what, 'T-MUSTCALL', body.name,
                  'an Ok-exit is reachable without a %s on self.%s' % (what, fld), body.site())
        twice = sorted(c.bb for c in calls if c.target >= 0 and body.reach([c.target]) & bbs)
        ctx.check(not twice, R + '/move/one-%s' % what, 'T-LOOPMUST', body.name,
                  'a second %s on self.%s can follow the one at bb%s (or it is inside a loop)' % (what, fld, twice), body.site(twice[0]) if twice else body.site())
    # no other size-changing operation on the two lists
    extra = []
    for bi, what, kind, call in T.mutation_sites(body, ctx.S, ctx.F):
        if call is None or call in rm or call in pu: continue
        f = recv_field(body, call)
        if f in (src_field, dst_field) and call.item not in ORDER_ONLY: extra.append('%s on self.%s (bb%d)' % (call.item, f, bi))
    ctx.check(not extra, R + '/move/no-other-change-of-the-lists', 'T-CARRY', body.name, 'the lists are also changed by: %s' % '; '.join(sorted(set(extra))), body.site())
    # ---- lookup: position of the element whose id equals the argument; None => Err before any mutation
    if not rm:
        ctx.bad(R + '/lookup/index-from-search', 'T-CARRY', body.name, 'no removal from self.%s, hence no lookup to check' % src_field, body.site())
    for c in rm:
        lookup(ctx, R, body, c, src_field, dst_field)
    for c in pu:
        it = ctx.S.slice_operand(body, c.args[-1])
        ctx.check(any(r in it.call_objs for r in rm) and not any(x.item in ('clone', 'to_owned', 'clone_from') for x in it.call_objs), R + '/move/same-element', 'T-CARRY', body.name,
                  'the pushed element is not the removed one', body.site(c.bb))
    if name == 'relax_constraint':
        for c in pu:
            root = value_root(body, c.args[-1])
            ok = root is not None and 'v1::RemovedConstraint' in body.locals[root]
            ctx.check(ok, R + '/reason/wrapper', 'T-CARRY', body.name, 'the pushed value is not a RemovedConstraint built here', body.site(c.bb))
            if not ok: continue
            want = (('constraint', None), ('removed_reason', 3), ('removed_reason_parameters', 4))
            for f, param in want:
                s = ctx.S.backslice(body, [(root, f)]); ctx.counters['slices'] += 1
                if param is None:
                    ctx.check(any(r in s.call_objs for r in rm), R + '/reason/constraint-is-removed-one', 'T-CARRY', body.name, 'wrapped constraint is not the removed one', body.site(c.bb))
                else:
                    ctx.check(param in s.params, R + '/reason/' + f, 'T-CARRY', body.name, 'field `%s` does not depend on: parameter _%d' % (f, param), body.site(c.bb))
    else:
        # restore: the pushed element is the `.constraint` payload of the removed entry
        for c in pu:
            it = ctx.S.slice_operand(body, c.args[-1])
            ctx.check(it.has_field('v1::RemovedConstraint', 'constraint'), R + '/move/payload', 'T-CARRY', body.name, 'pushed element is not the removed entry\'s constraint', body.site(c.bb))
    # ---- nothing else written; no error after a mutation
    writes_only(ctx, R + '/only', body, {src_field, dst_field})
    for what, bi, badexits in T.check_atomic(body, ctx.S, ctx.F):
        ctx.check(not badexits, R + '/atomic', 'T-ATOMIC', body.name, 'an Err-exit (bb%s) is reachable after mutation `%s`' % (badexits, what), body.site(bi))
    # the moved element is neither mutably borrowed nor partially assigned on its way
    for c in pu:
        it = ctx.S.slice_operand(body, c.args[-1])
        chain = {l for l in it.locals if re.search(r'v1::(Constraint|RemovedConstraint)\b', body.locals[l]) and not body.locals[l].startswith('&') and 'Vec<' not in body.locals[l] and 'Iter<' not in body.locals[l]}
        touched = []
        for bi, st in body.stmts():
            rv = st['rv']
            if rv['k'] == 'ref' and rv.get('mut') and rv['pl']['l'] in chain: touched.append(body.site(bi))
            if st['dst']['p'] and st['dst']['l'] in chain:
                fs = fields_of_place(st['dst'])
                # building the wrapper field by field (`rc.removed_reason = reason`) is not a change of the element
                if fs and fs[0][0].endswith('v1::RemovedConstraint') and fs[0][1] in ('removed_reason', 'removed_reason_parameters'): continue
                touched.append(body.site(bi))
        ctx.check(not touched, R + '/element-not-borrowed-mutably', 'T-CARRY', body.name, 'the moved element is modified at %s' % sorted(set(touched)), body.site(c.bb), chain=sorted(chain))
    # no field of the moved constraint is assigned
    writes = [body.site(bi) for bi, st in body.stmts() if st['dst']['p'] and any(a.endswith('v1::Constraint') for a, f in fields_of_place(st['dst']))]
    ctx.check(not writes, R + '/element-untouched', 'T-CARRY', body.name, 'a field of the constraint is written at %s' % writes, body.site())


# what relaxing / restoring means for the feasibility flags is decided by the C05 flag rules
RELIES_ON = {'C05': ['C05.flags', 'C05.lists', 'C05.rule']}


def check(ctx):
    one_move(ctx, 'relax_constraint', 'constraints', 'v1::Constraint', 'removed_constraints', 'v1::RemovedConstraint')
    one_move(ctx, 'restore_constraint', 'removed_constraints', 'v1::RemovedConstraint', 'constraints', 'v1::Constraint')
    ctx.floor('C14.relax_constraint', 26); ctx.floor('C14.restore_constraint', 23)
