"""C12 — log encoding (DESIGN §5 C12).

Written against the normal form (`VIEW = 'norm'`).  The rules are phrased on roles, not on shapes:

  encoding loop L   the `for` loop (after normalisation) that pushes onto `self.decision_variables`
  targets           what must not happen for an invalid input: an Ok-exit, a push, entering L
  test              a decision point (bool switch, `?`, `match` on an Option / enum / Ordering) with a set of
                    *pass* successors and a set of *fail* successors
  a test protects   (i) no target is feasibly reachable from a fail successor, but an Err-exit is, and
                    (ii) no target is feasibly reachable from the entry without passing the test's block
  feasible          reachability that remembers which variant an Option / Result / ControlFlow temporary
                    and which constant a short-circuit bool holds on the path (so a helper inlined as
                    `r = Err(..) | Ok(..); match branch(r)` keeps its error paths apart from its Ok path)

Idioms accepted for each test are listed in the tables / functions below, one comment per entry.
"""
import re
from .common import *
from .C09 import once_per_iteration, Loop, is_empty_vec_operand, vec_of, root_of, agg_def, construction_of, construction_carry, seq_sources, pushes_into, created_empty, fresh_id, open_up, _whole_defs, _callmap, REF_TRANSPARENT

VIEW = 'norm'

INST = 'v1::Instance'; DV = 'v1::DecisionVariable'; BOUND = 'v1::Bound'
# hands on the same sequence: vec.into_iter() / vec.iter() / &vec
SEQ_TRANSPARENT = re.compile(r'::(into_iter|iter|as_ref|deref|as_slice|by_ref)(::<.*>)?$')
# .. or the same sequence with its positions attached
RANGE_TRANSPARENT = re.compile(r'::(into_iter|iter|as_ref|deref|as_slice|by_ref|enumerate)(::<.*>)?$')


# ---------------------------------------------------------------------------------------------------
# feasible reachability
VARIANTS = (('Result::Ok', 'ok'), ('Result::Err', 'err'), ('Option::Some', 'some'), ('Option::None', 'none'),
            ('ControlFlow::Continue', 'cont'), ('ControlFlow::Break', 'brk'))
DISCR_OF = {'ok': 0, 'err': 1, 'none': 0, 'some': 1, 'cont': 0, 'brk': 1}


def _variant(adt):
    for suf, v in VARIANTS:
        if adt.endswith(suf): return v
    return None


def _plain(o):
    return o['k'] in ('copy', 'move') and not o['pl']['p']


def _tracked(body):
    t = getattr(body, '_c12_tracked', None)
    if t is not None: return t
    base = set()
    for bi, st in body.stmts():
        d = st['dst']; rv = st['rv']
        if d['p']: continue
        if rv['k'] == 'agg' and _variant(rv['adt']): base.add(d['l'])
        elif rv['k'] == 'use' and rv['ops'][0]['k'] == 'const' and rv['ops'][0]['v'] in ('true', 'false') and body.locals[d['l']] == 'bool': base.add(d['l'])
    for c in body.calls:
        if T.FROM_RESIDUAL.search(c.name) and not c.dst['p']: base.add(c.dst['l'])
    changed = True
    while changed:
        changed = False
        for bi, st in body.stmts():
            d = st['dst']; rv = st['rv']
            if d['p'] or d['l'] in base: continue
            if rv['k'] in ('use', 'un') and _plain(rv['ops'][0]) and rv['ops'][0]['pl']['l'] in base: base.add(d['l']); changed = True
            elif rv['k'] == 'discr' and not rv['pl']['p'] and rv['pl']['l'] in base: base.add(d['l']); changed = True
        for c in body.calls:
            if c.dst['p'] or c.dst['l'] in base: continue
            if (T.TRY_BRANCH.search(c.name) or T.NOT_CALL.search(c.name) or T.ERR_ADAPTORS.search(c.name)) and c.arg_local(0) in base: base.add(c.dst['l']); changed = True
    body._c12_tracked = base
    return base


def feasible_reach(body, starts, stop=(), via=None, cut=None):
    """forward reachability that follows only the matching arm of a switch whose operand is known on the path:
    short-circuit bools (as templates.reach_cp) and the variant / discriminant of Option / Result / ControlFlow
    temporaries (`x = Err(..)`, `b = Try::branch(x)`, `d = discriminant(b)`, `switch d`).
    via = set of edges (a, b): return only the blocks reached *after* one of these edges was taken."""
    key = (tuple(sorted(starts)), frozenset(stop), frozenset(via) if via else None, frozenset(cut) if cut else None)
    cache = body.__dict__.setdefault('_c12_reach', {})
    if key in cache: return cache[key]
    tracked = _tracked(body)
    seen = set(); out = set(); work = [(s, frozenset(), not via) for s in starts if s is not None and s not in stop]
    res = None
    while work:
        bi, env, flag = work.pop()
        if (bi, env, flag) in seen: continue
        seen.add((bi, env, flag))
        if flag: out.add(bi)
        if len(seen) > 80000:
            # give up: plain (over-approximate) reachability
            if via: res = body.reach([b for a, b in via if a in body.reach([s for s in starts if s is not None], stop)], stop)
            else: res = body.reach([s for s in starts if s is not None], stop)
            break
        e = dict(env)
        blk = body.blocks[bi]
        for st in blk['st']:
            if 'dst' not in st: continue
            d = st['dst']
            if d['l'] not in tracked: continue
            l = d['l']
            if d['p']: e.pop(l, None); continue
            rv = st['rv']; k = rv['k']; val = None
            if k == 'agg': val = _variant(rv['adt'])
            elif k == 'use':
                o = rv['ops'][0]
                if o['k'] == 'const' and o['v'] in ('true', 'false'): val = 1 if o['v'] == 'true' else 0
                elif _plain(o): val = e.get(o['pl']['l'])
            elif k == 'un' and rv['op'] == 'Not' and _plain(rv['ops'][0]):
                v = e.get(rv['ops'][0]['pl']['l'])
                if v in (0, 1): val = 1 - v
            elif k == 'discr' and not rv['pl']['p']:
                v = e.get(rv['pl']['l'])
                if isinstance(v, str): val = DISCR_OF[v]
            if val is None: e.pop(l, None)
            else: e[l] = val
        t = blk['term']
        succs = body.succ(bi)
        if t['k'] == 'call':
            dl = t['dst']['l']
            if dl in tracked:
                nm = t['r'] or t['f']; a0 = t['args'][0] if t['args'] else None
                v0 = e.get(a0['pl']['l']) if a0 is not None and _plain(a0) else None
                val = None
                if not t['dst']['p']:
                    if T.NOT_CALL.search(nm) and v0 in (0, 1): val = 1 - v0
                    elif T.TRY_BRANCH.search(nm) and isinstance(v0, str): val = 'cont' if v0 in ('ok', 'some', 'cont') else 'brk'
                    elif T.ERR_ADAPTORS.search(nm) and isinstance(v0, str):
                        # with_context / ok_or / map_err / map / copied / as_ref ..: Some|Ok stays Some|Ok, None|Err stays None|Err
                        pos = v0 in ('ok', 'some', 'cont'); ty = body.locals[dl].lstrip('&')
                        if ty.startswith('std::result::Result'): val = 'ok' if pos else 'err'
                        elif ty.startswith('std::option::Option'): val = 'some' if pos else 'none'
                    elif T.FROM_RESIDUAL.search(nm): val = 'err' if nm.startswith('<std::result::Result') else ('none' if nm.startswith('<std::option::Option') else None)
                if val is None: e.pop(dl, None)
                else: e[dl] = val
        elif t['k'] == 'switch' and t['d']['k'] != 'const' and not t['d']['pl']['p']:
            v = e.get(t['d']['pl']['l'])
            if isinstance(v, int):
                m = {val: tg for val, tg in t['ts']}
                succs = [m.get(v, t['else'])]
        fe = frozenset(e.items())
        for s in succs:
            if s in stop or body.blocks[s]['cleanup'] or (cut and (bi, s) in cut): continue
            work.append((s, fe, flag or (bi, s) in via if via else flag))
    if res is None: res = out
    cache[key] = res
    return res


# ---------------------------------------------------------------------------------------------------
# tests
class Test:
    def __init__(self, sb, passes, fails, what, fail_edges=None, pass_edges=None):
        self.sb = sb; self.passes = [x for x in passes if x is not None]; self.fails = fails; self.what = what
        self.fail_edges = set(fail_edges) if fail_edges else {(sb, f) for f in fails}     # CFG edges taken when the test fails
        self.pass_edges = set(pass_edges) if pass_edges else {(sb, p_) for p_ in self.passes}   # .. when it holds

    def describe(self):
        return '%s: switch bb%d pass->%s fail->%s' % (self.what, self.sb, self.passes, self.fails)


def protects(body, test, targets, need_err=True, implied_by=()):
    """(i) on no feasible path from the entry that leaves the test through a fail edge is a target reached
    (but an Err-exit is), (ii) no target is reached from the entry without taking one of the test's pass edges — or
    one of the edges `implied_by`, on which the tested condition is known to hold for another reason (a stronger
    test taken earlier, e.g. `w == 0` for `w >= 0`): independent guards may come in any order"""
    if any(f is None for f in test.fails): return False
    r = feasible_reach(body, [0], via=test.fail_edges)
    if r & targets: return False
    if need_err and not (r & body.err_exits()): return False
    if feasible_reach(body, [0], cut=set(test.pass_edges) | set(implied_by)) & targets: return False
    return True


def bool_flow_x(body, local, want_true):
    """templates.bool_flow (copies, `!`, anyhow's `not`), and also through `a & b` when the value has to be true and
    through `a | b` when it has to be false (the result has the required value only if this operand has it)"""
    out = []; work = [(local, False)]; seen = set()
    while work:
        l, neg = work.pop()
        if (l, neg) in seen: continue
        seen.add((l, neg))
        for kind, bi, x in body.uses.get(l, ()):
            if kind == 'switch': out.append((bi, neg))
            elif kind == 'stmt':
                rv = x['rv']
                if x['dst']['p']: continue
                if rv['k'] == 'use': work.append((x['dst']['l'], neg))
                elif rv['k'] == 'un' and rv['op'] == 'Not': work.append((x['dst']['l'], not neg))
                elif rv['k'] == 'bin' and body.locals[x['dst']['l']] == 'bool':
                    need = want_true != neg                 # the value `l` must have on the pass side
                    if (rv['op'] == 'BitAnd' and need) or (rv['op'] == 'BitOr' and not need): work.append((x['dst']['l'], neg))
            elif kind == 'call':
                if T.NOT_CALL.search(x.name): work.append((x.dst['l'], not neg))
    return out


def bool_tests(body, local, want_true, what, rejects_nan=None):
    """`if c`, `if !c`, `ensure!(c)`, `c && d`, `c || d`, `c & d`: every switch the bool flows into.
    rejects_nan: does a NaN operand end on the fail side?  (`x.is_finite()` / `w >= 0.0` required true: yes — every
    comparison with NaN is false; `x.is_infinite()` / `w < 0.0` required false: no, NaN slips through)"""
    out = []
    for sb, neg in bool_flow_x(body, local, want_true):
        tt, ft = T.switch_sides(body, sb, neg)
        t = Test(sb, [tt] if want_true else [ft], [ft] if want_true else [tt], what)
        t.rejects_nan = rejects_nan
        out.append(t)
    return out


def discr_reads(body):
    """value local -> [discriminant statements reading it], where the place read is resolved through copies and
    tuple packing: `match (a, b) { (A, Some(x)) => .. }` reads the discriminants of `a` and of `b`"""
    idx = getattr(body, '_c12_discr', None)
    if idx is None:
        idx = {}
        for bi, st in body.stmts():
            if st['rv']['k'] != 'discr': continue
            v = unwrap_operand(body, {'k': 'copy', 'pl': st['rv']['pl']})
            if v['k'] in ('copy', 'move') and [q for q in v['pl']['p'] if q != '*'] == []:
                idx.setdefault(v['pl']['l'], []).append((bi, st))
        body._c12_discr = idx
    return idx


def option_tests(body, local, what, depth=0):
    """tests deciding on the None / Err of the Option / Result held in `local`:
         `x?`, `x.with_context(..)?`, `x.ok_or(..)?`            -> the Break arm fails
         `match x { Some(v) => .., None => .. }`, `let Some(v) = x else {..}`, `if let`  -> the None arm fails"""
    out = []
    if depth > 6: return out
    fail_variant = 1 if body.locals[local].lstrip('&').startswith('std::result::Result') else 0
    for kind, bi, x in body.uses.get(local, ()):
        if kind == 'call':
            if T.TRY_BRANCH.search(x.name):
                for k2, b2, y in body.uses.get(x.dst['l'], ()):
                    if k2 == 'stmt' and y['rv']['k'] == 'discr' and y['rv']['pl']['p'] == []:
                        for k3, b3, sw in body.uses.get(y['dst']['l'], ()):
                            if k3 == 'switch':
                                m = {v: t for v, t in sw['ts']}
                                out.append(Test(b3, [m.get(0, sw['else'])], [m.get(1, sw['else'])], what + ' ?'))
            elif T.ERR_ADAPTORS.search(x.name):
                out += option_tests(body, x.dst['l'], what, depth + 1)
        elif kind == 'stmt':
            rv = x['rv']
            if rv['k'] == 'discr': pass            # see discr_reads below
            elif rv['k'] == 'use' and not x['dst']['p'] and _plain(rv['ops'][0]) and rv['ops'][0]['pl']['l'] == local:
                out += option_tests(body, x['dst']['l'], what, depth + 1)
            elif rv['k'] == 'ref' and not x['dst']['p'] and rv['pl']['p'] in ([], ['*']):
                out += option_tests(body, x['dst']['l'], what, depth + 1)
    for bi, st in discr_reads(body).get(local, ()):
        for k3, b3, sw in body.uses.get(st['dst']['l'], ()):
            if k3 == 'switch':
                m = {v: t for v, t in sw['ts']}
                out.append(Test(b3, [m.get(1 - fail_variant, sw['else'])], [m.get(fail_variant, sw['else'])], what + ' match'))
    return out


def unwrap_operand(body, op, depth=24):
    """follow copies and *payload projections* back to the operand that was wrapped:
         (t.k) of `t = (a, b, ..)`;  (b as Continue).0 of `b = Try::branch(r)`;  (r as Ok).0 / (o as Some).0 where r / o has
         exactly one definition of that variant (the other definitions being Err(..) / None: the shape a helper
         inlined at `let (x, y) = helper(..)?;` leaves behind).  templates.expr stops at such locals."""
    for _ in range(depth):
        if op['k'] not in ('copy', 'move'): return op
        l = op['pl']['l']; P = list(op['pl']['p'])
        if 1 <= l <= body.argc: return op
        defs = _whole_defs(body, l)
        single = defs[0] if len(defs) == 1 else None
        if single and single[0] == 'stmt' and single[2]['rv']['k'] == 'use' and single[2]['rv']['ops'][0]['k'] in ('copy', 'move'):
            src = single[2]['rv']['ops'][0]['pl']
            op = {'k': 'copy', 'pl': {'l': src['l'], 'p': list(src['p']) + P}}; continue
        if not P: return op
        p0 = P[0]
        if single and single[0] == 'stmt' and single[2]['rv']['k'] == 'agg' and single[2]['rv']['adt'] == 'tuple' and isinstance(p0, dict) and p0.get('of') == 'tuple' and p0.get('f', '').isdigit():
            k = int(p0['f']); ops = single[2]['rv']['ops']
            if k < len(ops) and ops[k]['k'] in ('copy', 'move'):
                op = {'k': 'copy', 'pl': {'l': ops[k]['pl']['l'], 'p': list(ops[k]['pl']['p']) + P[1:]}}; continue
            if k < len(ops) and not P[1:]: return ops[k]
            return op
        if isinstance(p0, dict) and 'dc' in p0 and len(P) >= 2 and isinstance(P[1], dict) and P[1].get('f') == '0':
            V = p0['dc']
            if single and single[0] == 'call' and T.TRY_BRANCH.search(single[2]['r'] or single[2]['f']) and V == 'Continue':
                a = single[2]['args'][0]
                if a['k'] in ('copy', 'move') and not a['pl']['p']:
                    ty = body.locals[a['pl']['l']].lstrip('&')
                    W = 'Ok' if ty.startswith('std::result::Result') else ('Some' if ty.startswith('std::option::Option') else None)
                    if W:
                        op = {'k': 'copy', 'pl': {'l': a['pl']['l'], 'p': [{'dc': W}, {'f': '0', 'of': '?::' + W}] + P[2:]}}; continue
                return op
            pay = [d[2]['rv']['ops'][0] for d in defs if d[0] == 'stmt' and d[2]['rv']['k'] == 'agg' and d[2]['rv']['adt'].endswith('::' + V) and len(d[2]['rv']['ops']) == 1]
            # .. or one definition by an adaptor that hands the payload on (`opt.with_context(..)`, `ok_or`, `as_ref`, `copied`):
            # the payload of its receiver
            thru = [d[2] for d in defs if d[0] == 'call' and T.ERR_ADAPTORS.search(d[2]['r'] or d[2]['f']) and d[2]['args'] and _plain(d[2]['args'][0])]
            other = [d for d in defs if not ((d[0] == 'stmt' and d[2]['rv']['k'] == 'agg') or (d[0] == 'call' and T.FROM_RESIDUAL.search(d[2]['r'] or d[2]['f'])))
                     and not (d[0] == 'call' and d[2] in thru)]
            if len(pay) == 1 and not thru and pay[0]['k'] in ('copy', 'move') and not other:
                op = {'k': 'copy', 'pl': {'l': pay[0]['pl']['l'], 'p': list(pay[0]['pl']['p']) + P[2:]}}; continue
            if len(thru) == 1 and not pay and not other and V in ('Ok', 'Some'):
                al = thru[0]['args'][0]['pl']['l']; ty = body.locals[al].lstrip('&')
                W = 'Ok' if ty.startswith('std::result::Result') else ('Some' if ty.startswith('std::option::Option') else None)
                if W:
                    op = {'k': 'copy', 'pl': {'l': al, 'p': [{'dc': W}, {'f': '0', 'of': '?::' + W}] + P[2:]}}; continue
        return op
    return op


def xpath(body, op, depth=24):
    """fields crossed on the way back from an operand to where it was read from (templates.access_path, but through
    tuple packing / payload projections, see unwrap_operand)"""
    fields = []
    for _ in range(depth):
        op = unwrap_operand(body, op)
        if op['k'] not in ('copy', 'move'): break
        pl = op['pl']; fields = fields_of_place(pl) + fields; l = pl['l']
        if 1 <= l <= body.argc: break
        defs = _whole_defs(body, l)
        if len(defs) != 1: break
        k, bi, d = defs[0]
        if k == 'stmt' and d['rv']['k'] == 'ref': op = {'k': 'copy', 'pl': d['rv']['pl']}; continue
        if k == 'call' and T.TRANSPARENT.search(T.strip_generics_tail(d['r'] or d['f'])) and d['args'] and d['args'][0]['k'] in ('copy', 'move'):
            op = d['args'][0]; continue
        break
    return fields


def xexpr(body, op, depth=18):
    """templates.expr with unwrap_operand applied at every operand (not only at the root), so that a value that went
    through `let (a, b) = helper(..)?;` is seen through wherever it occurs in the tree"""
    if depth <= 0: return T.expr(body, op, 0)
    op = unwrap_operand(body, op)
    if op['k'] not in ('copy', 'move'): return T.expr(body, op, depth)
    pl = op['pl']; l = pl['l']; fs = fields_of_place(pl)
    if 1 <= l <= body.argc: return ('place', l, fs)
    defs = _whole_defs(body, l)
    if len(defs) != 1 or (l in T._mut_borrowed(body) and body.locals[l] in ('f64', 'u64', 'i64', 'usize', 'bool', 'i32', 'u32')):
        return ('place', l, fs) if fs else ('local', l)
    k, bi, d = defs[0]
    rec = lambda o: xexpr(body, o, depth - 1)
    if k == 'call':
        c = _callmap(body)[bi]
        node = ('call', c.item, c.name, [rec(a) for a in d['args']], bi)
        return ('proj', node, fs) if fs else node
    rv = d['rv']; kk = rv['k']
    if kk == 'use': inner = rec(rv['ops'][0])
    elif kk == 'ref': inner = rec({'k': 'copy', 'pl': rv['pl']})
    elif kk == 'bin': inner = ('bin', rv['op'], rec(rv['ops'][0]), rec(rv['ops'][1]))
    elif kk == 'un': inner = ('un', rv['op'], rec(rv['ops'][0]))
    elif kk == 'cast': inner = ('cast', rv['to'], rec(rv['ops'][0]))
    elif kk == 'agg': inner = ('agg', rv['adt'], [rec(o) for o in rv['ops']])
    elif kk == 'discr': inner = ('discr', rec({'k': 'copy', 'pl': rv['pl']}))
    else: inner = ('local', l)
    if fs:
        if inner[0] == 'place': return ('place', inner[1], inner[2] + fs)
        if inner[0] == 'proj': return ('proj', inner[1], inner[2] + fs)
        return ('proj', inner, fs)
    return inner


def range_sig(body, lo):
    """what a loop counts over: ('0_usize', root local of the upper end) for `for i in 0..n`, else None"""
    r = root_of(body, lo[0].args[0], RANGE_TRANSPARENT)[0]
    a = agg_def(body, r, 'ops::Range') if r is not None else None
    if a is None: return None
    ops = a[1]['rv']['ops']
    lo_ = ops[0]['v'] if ops[0]['k'] == 'const' else 'l%s' % root_of(body, ops[0])[0]
    hi = ops[1]['v'] if ops[1]['k'] == 'const' else 'l%s' % root_of(body, ops[1])[0]
    return '%s..%s' % (lo_, hi)


def canon(body, e, floops, depth=60):
    """an expression as a string in which the item of a loop is named after the sequence the loop runs over
         ITEM<0..n>          item of any `for i in 0..n` (two loops over the same range name the same values: loop fission)
         E[ITEM<0..n>]       item of a loop over a vector that was filled, one push per iteration of a loop over 0..n,
                             with E (ids computed once, kept in a vector, walked again)
       commutative `+` / `*` are ordered, overflow-checked arithmetic is plain arithmetic"""
    if depth <= 0: return '…'
    k = e[0]
    rec = lambda x: canon(body, x, floops, depth - 1)
    if k == 'proj' and e[1][0] == 'call' and len(e[1]) > 4:
        lo = next((l for l in floops if l[0].bb == e[1][4]), None)
        if lo is not None and e[2][:1] and e[2][0][0].endswith('Option::Some'):
            rest = ''.join('.' + f for a, f in e[2][1:])
            sig = range_sig(body, lo)
            if sig is not None: return 'ITEM<%s>%s' % (sig, rest)
            crossed = set(); leaves = seq_sources(body, lo[0].args[0], True, crossed)
            if 'enumerate' in crossed and rest.startswith('.1') and 'zip' not in crossed: rest = rest[2:]      # (position, element): the element
            if len(leaves) == 1 and leaves[0][0] == 'vec' and leaves[0][2] and not rest:
                V = leaves[0][1]; ps = pushes_into(body, V)
                if created_empty(body, V) and len(ps) == 1:
                    l1 = next((l for l in sorted(floops, key=lambda l: len(l[4])) if ps[0].bb in l[4]), None)
                    if l1 is not None and T.must_pass(body, l1[2], {l1[1]}, {ps[0].bb}):
                        return canon(body, xexpr(body, ps[0].args[1]), floops, depth - 1)
            return 'ITEM<loop@bb%d>%s' % (lo[0].bb, rest)
    if k == 'proj' and e[1][0] == 'bin' and e[1][1].endswith('WithOverflow') and [f for a, f in e[2]] == ['0']:
        return rec(('bin', e[1][1].replace('WithOverflow', ''), e[1][2], e[1][3]))
    if k == 'const': return e[1]
    if k == 'place': return '_%d%s' % (e[1], ''.join('.' + f for a, f in e[2]))
    if k == 'local': return '_%d' % e[1]
    if k == 'bin':
        a, b = rec(e[2]), rec(e[3]); op = e[1].replace('WithOverflow', '')
        if op in ('Add', 'Mul'): a, b = sorted((a, b))
        return '(%s %s %s)' % (a, op, b)
    if k == 'un': return '%s(%s)' % (e[1], rec(e[2]))
    if k == 'cast': return '(%s as %s)' % (rec(e[2]), e[1])
    if k == 'call': return '%s(%s)' % (e[1], ', '.join(rec(a) for a in e[3]))
    if k == 'agg': return '%s{%s}' % (e[1].split('::')[-1], ', '.join(rec(a) for a in e[2]))
    if k == 'proj': return '%s%s' % (rec(e[1]), ''.join('.' + f for a, f in e[2]))
    if k == 'discr': return 'discr(%s)' % rec(e[1])
    return str(e)[:40]


def f64_compares(body, ops):
    """comparisons of two f64 values, however spelled: `a < b` (MIR BinOp), `a.lt(&b)` / `a.eq(&b)` (PartialOrd / PartialEq
    method calls), `a.is_zero()` (num::Zero: `a == 0.0`).  Yields (bb, pseudo statement with rv.op, rv.ops, dst)"""
    for bi, st in float_cmp_sites(body, ops): yield bi, st
    names = {'lt': 'Lt', 'le': 'Le', 'gt': 'Gt', 'ge': 'Ge', 'eq': 'Eq', 'ne': 'Ne'}
    for c in body.calls:
        if c.dst['p']: continue
        if c.item in names and names[c.item] in ops and len(c.args) == 2 and re.search(r'^<&?f64 as std::cmp::Partial(Ord|Eq)(<&?f64>)?>::|impl std::cmp::Partial(Ord|Eq) for f64>::', c.name):
            yield c.bb, {'rv': {'op': names[c.item], 'ops': [c.args[0], c.args[1]]}, 'dst': {'l': c.dst['l'], 'p': []}}
        elif c.item == 'is_zero' and 'Eq' in ops and len(c.args) == 1 and re.search(r'^<f64 as num(_traits)?::(identities::)?Zero>::is_zero$', c.name):
            yield c.bb, {'rv': {'op': 'Eq', 'ops': [c.args[0], {'k': 'const', 'ty': 'f64', 'v': '0f64'}]}, 'dst': {'l': c.dst['l'], 'p': []}}


def is_conversion(c, src, dst):
    """`Dst::from(x)` | `x.into()` | `From::from(x)` | `Into::<Dst>::into(x)`: the blanket `Into` is `From`"""
    return re.search(r'From<%s> for %s>::from$' % (re.escape(src), re.escape(dst)), c.name) is not None or \
        re.search(r'^<%s as std::convert::Into<%s>>::into$' % (re.escape(src), re.escape(dst)), c.name) is not None


def is_zero(body, o):
    if o['k'] == 'const': return T.f64_const(o['v']) == 0.0
    e = T.strip_wrappers(T.expr(body, o, depth=6))
    return e[0] == 'const' and T.f64_const(e[1]) == 0.0


def is_rounded(e, fn, side):
    """floor(bound.upper) / ceil(bound.lower)"""
    e = T.strip_wrappers(e)
    if not (e[0] == 'call' and e[1] == fn and 'f64' in e[2] and e[3]): return False
    a = T.strip_wrappers(e[3][0])                  # the bound's end itself, nothing added / scaled before rounding
    return a[0] in ('place', 'proj') and list(a[2])[-1:] == [(BOUND, side)]


def is_width(body, o):
    """floor(upper) - ceil(lower): the number of integers in the bound, minus one"""
    if o['k'] not in ('copy', 'move'): return False
    e = T.arith(xexpr(body, o))
    return e[0] == 'bin' and e[1] == 'Sub' and is_rounded(e[2], 'floor', 'upper') and is_rounded(e[3], 'ceil', 'lower')


def width_tests(ctx, body):
    """tests whose pass side implies  w = floor(upper) - ceil(lower) >= 0, and the arms on which w == 0.
    (expression trees, not slices: `self` is mutated later in the function, so flow-insensitive slices of
    anything read from `self` contain the whole encoding.)
    returns (nonneg tests, [(bb of the test, arm entered when w == 0)])"""
    nonneg = []; zero_arms = []
    for bi, st in f64_compares(body, ('Ge', 'Lt', 'Gt', 'Le', 'Eq', 'Ne')):
        op = st['rv']['op']; a, b = st['rv']['ops']
        za, zb = is_zero(body, a), is_zero(body, b)
        want = None
        if za != zb:
            w = b if za else a
            if not is_width(body, w): continue
            if op in ('Eq', 'Ne'):
                # `w == 0.0` / `0.0 == w` (true side), `w != 0.0` (false side)
                for sb, neg in T.bool_flow(body, st['dst']['l']):
                    zero_arms.append((sb, T.switch_sides(body, sb, neg)[0 if op == 'Eq' else 1]))
                continue
            # `w >= 0` true | `0 <= w` true | `w < 0` false | `0 > w` false
            #  `w > 0` true | `0 < w` true | `w <= 0` false | `0 >= w` false  (w == 0 must then have been dealt with before: C12.single)
            want = {('Ge', False): True, ('Le', True): True, ('Lt', False): False, ('Gt', True): False,
                    ('Gt', False): True, ('Lt', True): True, ('Le', False): False, ('Ge', True): False}.get((op, za))
        elif not za and a['k'] != 'const' and b['k'] != 'const':
            # `floor(upper) >= ceil(lower)` and its mirror images; `floor(upper) == ceil(lower)` is `w == 0`
            ea, eb = xexpr(body, a), xexpr(body, b)
            if op in ('Eq', 'Ne'):
                if (is_rounded(ea, 'floor', 'upper') and is_rounded(eb, 'ceil', 'lower')) or (is_rounded(ea, 'ceil', 'lower') and is_rounded(eb, 'floor', 'upper')):
                    for sb, neg in T.bool_flow(body, st['dst']['l']):
                        zero_arms.append((sb, T.switch_sides(body, sb, neg)[0 if op == 'Eq' else 1]))
                continue
            if is_rounded(ea, 'floor', 'upper') and is_rounded(eb, 'ceil', 'lower'): want = {'Ge': True, 'Lt': False}.get(op)
            elif is_rounded(ea, 'ceil', 'lower') and is_rounded(eb, 'floor', 'upper'): want = {'Le': True, 'Gt': False}.get(op)
        if want is not None:
            nonneg += bool_tests(body, st['dst']['l'], want, 'floor(upper) - ceil(lower) >= 0', want)
    # `match w.partial_cmp(&0.0) { Some(Greater) => .., Some(Equal) => .., Some(Less) | None => error }`
    for c in body.calls:
        if c.item != 'partial_cmp' or 'f64' not in c.name or len(c.args) != 2: continue
        za, zb = is_zero(body, c.args[0]), is_zero(body, c.args[1])
        if za == zb: continue
        w = c.args[1] if za else c.args[0]
        if not is_width(body, w): continue
        neg_discr = 1 if za else -1          # Ordering of (w cmp 0) that means w < 0: Less, or Greater when the operands are swapped
        r = c.dst['l']
        for k, bi, st in body.uses.get(r, ()):
            if k != 'stmt' or st['rv']['k'] != 'discr' or st['rv']['pl']['p']: continue
            for k3, b3, sw in body.uses.get(st['dst']['l'], ()):
                if k3 != 'switch': continue
                m = {v: t for v, t in sw['ts']}
                none_t = m.get(0, sw['else']); some_t = m.get(1, sw['else'])
                # the inner `match` on the Ordering payload
                for k4, b4, st4 in body.uses.get(r, ()):
                    if k4 != 'stmt' or st4['rv']['k'] != 'discr' or not any(isinstance(p, dict) and p.get('dc') == 'Some' for p in st4['rv']['pl']['p']): continue
                    for k5, b5, sw5 in body.uses.get(st4['dst']['l'], ()):
                        if k5 != 'switch' or b5 not in body.reach([some_t]): continue
                        arms = {}
                        for v, tg in sw5['ts']:
                            sv = v - 256 if v == 255 else (v - (1 << 64) if v > (1 << 32) else v)
                            arms[sv] = tg
                        if neg_discr not in arms or 0 not in arms: continue
                        other = [tg for v, tg in arms.items() if v not in (neg_discr, 0)] or [sw5['else']]
                        # two switches decide: none_t leaves the outer one, arms[neg] the inner one
                        nonneg.append(Test(b3, [arms[0]] + other, [none_t, arms[neg_discr]], 'partial_cmp(w, 0) is Equal or Greater', fail_edges=[(b3, none_t), (b5, arms[neg_discr])],
                                           pass_edges=[(b5, x) for x in [arms[0]] + other]))
                        nonneg[-1].rejects_nan = True
                        zero_arms.append((b5, arms[0]))
    return nonneg, zero_arms


# ---------------------------------------------------------------------------------------------------
# the numbers of the encoding: n = ceil(log2(w + 1)) bits, coefficients 2^i, the last one capped to w - 2^i + 1
def strip_casts(e):
    while True:
        e = T.strip_wrappers(e)
        if e[0] == 'cast': e = e[2]; continue
        if e[0] == 'proj' and e[1][0] == 'bin' and e[1][1].endswith('WithOverflow') and [f for a_, f in e[2]] == ['0']:
            e = ('bin', e[1][1].replace('WithOverflow', ''), e[1][2], e[1][3]); continue      # checked arithmetic: the value
        return e


def tree_is_width(body, e, depth=3):
    """expression tree = floor(upper) - ceil(lower), also when it is only a local here (payload of an inlined helper)"""
    e = strip_casts(e)
    a = T.arith(e)
    if a[0] == 'bin' and a[1] == 'Sub' and is_rounded(a[2], 'floor', 'upper') and is_rounded(a[3], 'ceil', 'lower'): return True
    if depth and e[0] in ('local', 'place') and (e[0] == 'local' or not e[2]) and e[1] >= 0:
        e2 = xexpr(body, {'k': 'copy', 'pl': {'l': e[1], 'p': []}})
        if e2 != e: return tree_is_width(body, e2, depth - 1)
    return False


def const_is(e, v):
    e = strip_casts(e)
    return e[0] == 'const' and T.f64_const(e[1]) == v


def plus_one(body, e, inner):
    """e = x + 1 (either order) with inner(x)"""
    e = T.arith(strip_casts(e))
    return e[0] == 'bin' and e[1] == 'Add' and ((const_is(e[3], 1.0) and inner(e[2])) or (const_is(e[2], 1.0) and inner(e[3])))


def is_bit_count(body, e):
    """n, the number of bits for the widths 0..=w.  Idioms (all equal ceil(log2(w + 1)) for w >= 1):
         (w + 1.0).log2().ceil() as usize
         64 - (w as u64).leading_zeros()  /  u64::BITS - ..
         (w as u64).ilog2() + 1"""
    W = lambda x: tree_is_width(body, x)
    e = strip_casts(e)
    if e[0] == 'call' and e[1] == 'ceil' and 'f64' in e[2]:
        l2 = strip_casts(e[3][0])
        if l2[0] == 'call' and l2[1] == 'log2' and plus_one(body, l2[3][0], W): return 'ceil(log2(w + 1))'
        return None
    a = T.arith(e)
    if a[0] == 'bin' and a[1] == 'Sub' and (const_is(a[2], 64.0) or (strip_casts(a[2])[0] == 'const' and 'BITS' in strip_casts(a[2])[1])):
        lz = strip_casts(a[3])
        if lz[0] == 'call' and lz[1] == 'leading_zeros' and 'u64' in lz[2] and W(lz[3][0]): return '64 - leading_zeros(w)'
        return None
    if plus_one(body, e, lambda x: (lambda y: y[0] == 'call' and y[1] == 'ilog2' and W(y[3][0]))(strip_casts(x))): return 'ilog2(w) + 1'
    return None


def bit_range(body, lo, floops, depth=3):
    """the `0..n` a loop (transitively, through a vector filled once per iteration of another loop) counts over"""
    r = root_of(body, lo[0].args[0], RANGE_TRANSPARENT)[0]
    a = agg_def(body, r, 'ops::Range') if r is not None else None
    if a is not None or depth == 0: return a
    leaves = seq_sources(body, lo[0].args[0])
    if len(leaves) == 1 and leaves[0][0] == 'vec':
        ps = pushes_into(body, leaves[0][1])
        if len(ps) == 1:
            l1 = next((l for l in sorted(floops, key=lambda l: len(l[4])) if ps[0].bb in l[4]), None)
            if l1 is not None and l1 is not lo: return bit_range(body, l1, floops, depth - 1)
    return None


def def_expr(body, d):
    k, bi, x = d
    if k == 'stmt':
        rv = x['rv']; kk = rv['k']
        if kk == 'use': return xexpr(body, rv['ops'][0])
        if kk == 'bin': return ('bin', rv['op'], xexpr(body, rv['ops'][0]), xexpr(body, rv['ops'][1]))
        if kk == 'un': return ('un', rv['op'], xexpr(body, rv['ops'][0]))
        if kk == 'cast': return ('cast', rv['to'], xexpr(body, rv['ops'][0]))
        return T._rv_expr(body, rv)
    c = _callmap(body)[bi]
    return ('call', c.item, c.name, [xexpr(body, a_) for a_ in x['args']], bi)


def linear_terms(e, sign=1, atom=lambda x: False):
    """e as a signed sum of atoms: a + (b - c) -> [(+,a), (+,b), (-,c)]; sub-expressions with atom(x) are not split"""
    e = T.arith(strip_casts(e)) if e[0] != 'bin' else T.arith(e)
    if atom(e): return [(sign, e)]
    if e[0] == 'bin' and e[1] in ('Add', 'Sub'):
        return linear_terms(e[2], sign, atom) + linear_terms(e[3], sign if e[1] == 'Add' else -sign, atom)
    if e[0] == 'un' and e[1] == 'Neg': return linear_terms(e[2], -sign, atom)
    return [(sign, e)]


def doubling_accumulator(body, l, lo):
    """local l holds 2^i in iteration i of loop `lo` (which counts from 0): 1.0 before the loop, doubled once on every way
    round, after its last read of the round"""
    if lo is None or l is None or l < 0 or body.locals[l] != 'f64': return False
    ds = _whole_defs(body, l)
    inside = [d for d in ds if d[1] in lo[4]]; outside = [d for d in ds if d[1] not in lo[4]]
    if len(inside) != 1 or len(outside) != 1 or inside[0][0] != 'stmt' or outside[0][0] != 'stmt': return False
    ov = outside[0][2]['rv']
    if not (ov['k'] == 'use' and ov['ops'][0]['k'] == 'const' and T.f64_const(ov['ops'][0]['v']) == 1.0): return False
    iv = inside[0][2]['rv']
    if not (iv['k'] == 'bin' and iv['op'] == 'Mul'): return False
    a_, b_ = iv['ops']
    is_l = lambda o: o['k'] in ('copy', 'move') and root_of(body, o)[0] == l
    is_2 = lambda o: o['k'] == 'const' and T.f64_const(o['v']) == 2.0
    if not ((is_l(a_) and is_2(b_)) or (is_2(a_) and is_l(b_))): return False
    inc = inside[0][1]
    if not T.must_pass(body, lo[2], {lo[1]}, {inc}): return False
    after = body.reach(body.succ(inc), stop={lo[1]})
    for b2 in after:
        if b2 not in lo[4]: continue
        for st in body.blocks[b2]['st']:
            if 'rv' in st and any(o['k'] in ('copy', 'move') and o['pl']['l'] == l for o in st['rv'].get('ops', [])): return False
    return True


def is_power_of_two(body, e, is_index, lo=None):
    """2^i with is_index(i).  Idioms: 2f64.powi(i as i32) | 2f64.powf(i as f64) | (i as f64).exp2() | (1 << i) as f64 |
    a running weight that starts at 1.0 and is doubled once per iteration"""
    e = strip_casts(e)
    if e[0] in ('local', 'place') and (e[0] == 'local' or not e[2]) and doubling_accumulator(body, e[1], lo): return True
    if e[0] == 'call' and e[1] in ('powi', 'powf') and 'f64' in e[2] and len(e[3]) == 2: return const_is(e[3][0], 2.0) and is_index(e[3][1])
    if e[0] == 'call' and e[1] == 'exp2' and e[3]: return is_index(e[3][0])
    a = T.arith(e)
    if a[0] == 'bin' and a[1] == 'Shl': return const_is(a[2], 1.0) and is_index(a[3])
    return False


def eval_index_expr(e, item_bb, hi_root, body, i, n, depth=8):
    """value of a usize expression built from the loop item (-> i), the range's upper end (-> n) and small constants;
    hi_root = (root local of the upper end, its canonical expression)"""
    if depth == 0: return None
    if e[0] != 'const' and canon(body, strip_casts(e), ()) == hi_root[1]: return n          # (the same count in another integer type)
    e = strip_casts(e)
    if e[0] == 'const':
        v = T.f64_const(e[1]); return int(v) if v is not None and v == int(v) else None
    if e[0] == 'proj' and e[1][0] == 'call' and len(e[1]) > 4 and e[1][4] == item_bb: return i
    if e[0] == 'call' and len(e) > 4 and e[4] == item_bb: return i          # (the Some payload projection was stripped as a wrapper)
    if e[0] == 'proj' and e[1][0] == 'bin' and [f for a_, f in e[2]] == ['0']: e = e[1]
    if e[0] in ('local', 'place') and (e[0] == 'local' or not e[2]):
        if root_of(body, {'k': 'copy', 'pl': {'l': e[1], 'p': []}})[0] == hi_root[0]: return n
        return None
    if e[0] == 'bin':
        a_ = eval_index_expr(e[2], item_bb, hi_root, body, i, n, depth - 1); b_ = eval_index_expr(e[3], item_bb, hi_root, body, i, n, depth - 1)
        if a_ is None or b_ is None: return None
        op = e[1].replace('WithOverflow', '')
        return {'Add': a_ + b_, 'Sub': a_ - b_, 'Mul': a_ * b_}.get(op)
    return None


def match_index(a, b, item_bb):
    """tree b = tree a with the loop item replaced by one expression X (the bit position of a peeled copy): X, else None"""
    def is_item(x): return (x[0] == 'proj' and x[1][0] == 'call' and len(x[1]) > 4 and x[1][4] == item_bb) or (x[0] == 'call' and len(x) > 4 and x[4] == item_bb)
    found = []
    def go(x, y):
        if is_item(x): found.append(y); return True
        if x[0] != y[0]: return False
        k = x[0]
        if k == 'bin': return x[1] == y[1] and go(x[2], y[2]) and go(x[3], y[3])
        if k in ('un', 'cast'): return x[1] == y[1] and go(x[2], y[2])
        if k == 'call': return x[1] == y[1] and len(x[3]) == len(y[3]) and all(go(p, q) for p, q in zip(x[3], y[3]))
        if k == 'proj': return [f for a_, f in x[2]] == [f for a_, f in y[2]] and go(x[1], y[1])
        if k == 'agg': return x[1] == y[1] and len(x[2]) == len(y[2]) and all(go(p, q) for p, q in zip(x[2], y[2]))
        return T.expr_str(x) == T.expr_str(y)
    if not go(a, b) or not found: return None
    return found[0] if len({T.expr_str(f, 10) for f in found}) == 1 else None


def C09_once(body, lo, bbs):
    """exactly one of the blocks on every way round the loop (the arms of a branch)"""
    return bool(bbs) and once_per_iteration(body, Loop(body, lo), bbs)[0]


def merged_map_sites(ctx, body, tp):
    """`Linear::new` written out: the terms are `Term { id, coefficient }` for every entry of a BTreeMap<u64, f64> M, and M was
    filled with `*M.entry(id).or_default() += c` (entries that cancel to ~0 removed again, as Linear::new does).  The
    accumulation sites count as the pushed (id, c) pairs."""
    if len(tp) != 1: return None
    fl = T.for_loops(body)
    c = tp[0]
    L2 = next((l for l in sorted(fl, key=lambda l: len(l[4])) if c.bb in l[4]), None)
    tm = agg_def(body, root_of(body, c.args[1])[0], 'linear::Term')
    if L2 is None or tm is None: return None
    ops = dict(zip(tm[1]['rv'].get('fields', []), tm[1]['rv']['ops']))
    for fname, pos in (('id', '0'), ('coefficient', '1')):
        o = ops.get(fname)
        r_, fs_, _c = root_of(body, o) if o is not None else (None, [], [])
        if r_ != L2[0].dst['l'] or [f for a_, f in fs_][-1:] != [pos]: return None
    M = root_of(body, L2[0].args[0], SEQ_TRANSPARENT)[0]
    if M is None or not body.locals[M].startswith('std::collections::BTreeMap<u64, f64'): return None
    sites = []
    for e in body.calls:
        if not e.args or root_of(body, e.args[0], REF_TRANSPARENT)[0] != M or '&mut' not in body.locals[e.args[0]['pl']['l']]: continue
        if e.item == 'remove': continue                       # the `|sum| <= EPSILON` clean-up of Linear::new
        if e.item != 'entry' or len(e.args) != 2: return None
        od = [x for x in body.calls if x.item in ('or_default', 'or_insert') and x.args and root_of(body, x.args[0])[0] == e.dst['l']]
        if len(od) != 1: return None
        adds = []
        for bi, st in body.stmts():
            d_ = st['dst']; rv = st['rv']
            if d_['p'] and d_['p'][0] == '*' and rv['k'] == 'bin' and rv['op'] == 'Add' and root_of(body, {'k': 'copy', 'pl': {'l': d_['l'], 'p': []}})[0] == od[0].dst['l']:
                a_, b_ = rv['ops']
                if a_['k'] in ('copy', 'move') and a_['pl']['l'] == d_['l']: adds.append(b_)
                elif b_['k'] in ('copy', 'move') and b_['pl']['l'] == d_['l']: adds.append(a_)
        if len(adds) != 1: return None
        sites.append((e, e.args[1], adds[0]))
    return sites or None


def term_sites(ctx, body, new_call, dv_pushes, loop_header):
    """the (id, coefficient) pairs handed to Linear::new, as [(push call, id operand | 'READBACK', coefficient operand)]:
       * a vector of tuples, each pushed as `(id, c)`;
       * `ids.zip(coefficients)` where `coefficients` is a vector of pushed values and `ids` reads the ids back from the variables
         this call has just registered: `self.decision_variables[k..].iter().map(|v| v.id)` with `k = self.decision_variables.len()`
         taken before the first push (the j-th pushed coefficient then meets the id of the j-th pushed variable).
    None if neither."""
    tv = root_of(body, new_call.args[0], SEQ_TRANSPARENT, cross_proj=False)[0]
    tp = pushes_into(body, tv) if tv is not None else []
    if tp:
        out = []
        for c in tp:
            ta = agg_def(body, root_of(body, c.args[1])[0], 'tuple')
            if ta is None or len(ta[1]['rv']['ops']) != 2: out = None; break
            out.append((c, ta[1]['rv']['ops'][0], ta[1]['rv']['ops'][1]))
        return out if out is not None else merged_map_sites(ctx, body, tp)
    r = root_of(body, new_call.args[0], SEQ_TRANSPARENT)[0]
    d = _whole_defs(body, r) if r is not None else []
    if len(d) != 1 or d[0][0] != 'call': return None
    z = _callmap(body)[d[0][1]]
    if z.item != 'zip' or len(z.args) != 2: return None
    vb = root_of(body, z.args[1], SEQ_TRANSPARENT, cross_proj=False)[0]
    cp = pushes_into(body, vb) if vb is not None else []
    if not cp: return None
    # ids read back
    ra = root_of(body, z.args[0], SEQ_TRANSPARENT)[0]
    da = _whole_defs(body, ra) if ra is not None else []
    if len(da) != 1 or da[0][0] != 'call': return None
    m = _callmap(body)[da[0][1]]
    if m.item != 'map' or not (m.trait or '').endswith('Iterator') or len(m.args) != 2: return None
    dc = _whole_defs(body, root_of(body, m.args[1])[0] or -1)
    cb = ctx.F.bodies.get(dc[0][2]['rv']['adt'][8:]) if len(dc) == 1 and dc[0][0] == 'stmt' and dc[0][2]['rv']['k'] == 'agg' and dc[0][2]['rv']['adt'].startswith('closure:') else None
    if cb is None: return None
    rets = [st for b_, st in cb.stmts() if st['dst']['l'] == 0 and not st['dst']['p']]
    if len(rets) != 1 or rets[0]['rv']['k'] != 'use' or rets[0]['rv']['ops'][0]['k'] not in ('copy', 'move'): return None
    rp = rets[0]['rv']['ops'][0]['pl']
    if rp['l'] != 2 or fields_of_place(rp)[-1:] != [(DV, 'id')] and [f for a_, f in fields_of_place(rp)] != ['id']: return None
    ix = root_of(body, m.args[0], SEQ_TRANSPARENT)[0]
    di = _whole_defs(body, ix) if ix is not None else []
    if len(di) != 1 or di[0][0] != 'call': return None
    ic = _callmap(body)[di[0][1]]
    # the suffix of self.decision_variables from k:  `&self.decision_variables[k..]`  |  `self.decision_variables.iter().skip(k)`
    if ic.item not in ('index', 'skip') or len(ic.args) != 2: return None
    r0, f0, _ = root_of(body, ic.args[0], SEQ_TRANSPARENT)
    if r0 != 1 or [f for a_, f in f0] != ['decision_variables']: return None
    if ic.item == 'index':
        rg = agg_def(body, root_of(body, ic.args[1])[0], 'ops::RangeFrom')
        if rg is None: return None
        st_ = root_of(body, rg[1]['rv']['ops'][0])[0]
    else:
        st_ = root_of(body, ic.args[1])[0]
    dl = _whole_defs(body, st_) if st_ is not None else []
    if len(dl) != 1 or dl[0][0] != 'call': return None
    ln = _callmap(body)[dl[0][1]]
    r1, f1, _ = root_of(body, ln.args[0], REF_TRANSPARENT) if ln.args else (None, [], [])
    if ln.item != 'len' or r1 != 1 or [f for a_, f in f1] != ['decision_variables']: return None
    # the length is taken before anything is pushed, and every path to the loop passes it
    after_push = body.reach([x.target for x in dv_pushes if x.target >= 0])
    if ln.bb in after_push or not body.dominates(ln.bb, loop_header): return None
    return [(c, 'READBACK', c.args[1]) for c in cp]


def check_coefficients(ctx, R, body, fn, floops, tsites):
    """every element pushed onto the vector handed to Linear::new is (_, c) with c = 2^i, except for the last bit
    (i == n - 1, in any spelling) where it is w - 2^i + 1.  The last bit may be a branch inside the loop over 0..n, or a
    peeled copy after a loop over 0..n-1."""
    if tsites is None:
        ctx.bad(R + '.coef/values', 'T-BRANCHFX', fn, 'the terms handed to Linear::new are neither pushed as (id, coefficient) nor ids read back zipped with pushed coefficients', body.site()); return
    sites = []
    for c, idop_, cop_ in tsites:
        lo = next((l for l in sorted(floops, key=lambda l: len(l[4])) if c.bb in l[4]), None)
        sites.append((c, lo, cop_))
    lsites = [x for x in sites if x[1] is not None]; psites = [x for x in sites if x[1] is None]
    # several push sites in the same loop are the arms of a branch (`if last { push(capped) } else { push(2^i) }`)
    if not lsites or len({id(x[1]) for x in lsites}) != 1 or len(psites) > 1:
        ctx.bad(R + '.coef/values', 'T-BRANCHFX', fn, 'terms are pushed at %d places inside loops and %d outside (expected one loop, at most one peeled bit)' % (len(lsites), len(psites)), body.site()); return
    c, lo, ta = lsites[0]
    tv = vec_of(body, c.args[0])
    rng = bit_range(body, lo, floops)
    if rng is None:
        ctx.bad(R + '.coef/values', 'T-BRANCHFX', fn, 'terms are not pushed inside a loop over 0..n', body.site(c.bb)); return
    item_bb = lo[0].bb; hi_op = rng[1]['rv']['ops'][1]; hi_c = canon(body, strip_casts(xexpr(body, hi_op)), ())
    hi_root = (root_of(body, hi_op)[0], hi_c)
    in_loop = lambda x: any(n_[0] == 'call' and len(n_) > 4 and n_[4] == item_bb for n_ in T.expr_walk(x))
    at_hi = lambda x: canon(body, strip_casts(x), ()) == hi_c

    def classify(cop_, is_index, site_bb=None):
        cr = root_of(body, cop_)[0]
        kinds = {}
        if doubling_accumulator(body, cr, lo): return {'power': [site_bb]}
        for d in (_whole_defs(body, cr) if cr is not None else []):
            terms = linear_terms(def_expr(body, d), 1, lambda x: tree_is_width(body, x, 0))
            pos = [t for sg, t in terms if sg > 0]; neg = [t for sg, t in terms if sg < 0]
            if len(terms) == 1 and pos and is_power_of_two(body, pos[0], is_index, lo): kinds.setdefault('power', []).append(d[1])
            elif len(pos) == 2 and len(neg) == 1 and is_power_of_two(body, neg[0], is_index, lo) and \
                    sorted((tree_is_width(body, t), const_is(t, 1.0)) for t in pos) == [(False, True), (True, False)]: kinds.setdefault('capped', []).append(d[1])
            else: kinds.setdefault('other', []).append(d[1])
        return kinds

    kinds = {}
    for c_, lo_, cop_ in lsites:
        for k_, bbs_ in classify(cop_, in_loop, c_.bb).items(): kinds.setdefault(k_, []).extend(bbs_)
    if psites:
        # loop over 0..n-1 pushes 2^i, the peeled copy pushes the capped coefficient for i = n - 1 (= the loop's upper end)
        pk = classify(psites[0][2], at_hi)
        okv = set(kinds) == {'power'} and set(pk) == {'capped'}
        ctx.check(okv, R + '.coef/values', 'T-BRANCHFX', fn, 'coefficients are not 2^i in the loop (found %s) and w - 2^i + 1 in the peeled last bit (found %s)' % (sorted(kinds), sorted(pk)), body.site(c.bb))
        ctx.check(okv, R + '.coef/last-is-capped', 'T-BRANCHFX', fn, 'the peeled bit is not position n - 1 with the capped coefficient', body.site(psites[0][0].bb))
        return
    if set(kinds) == {'power'}:
        # every bit gets 2^i in the loop; afterwards the *last element* of the vector is overwritten in place with
        # w - (what is stored there) + 1:  `if let Some((_, c)) = terms.last_mut() { *c = w - *c + 1.0 }`
        LAST_T = re.compile(r'::(last_mut|deref_mut|as_mut_slice|as_mut)(::<.*>)?$')
        fix = []
        for bi, st in body.stmts():
            d_ = st['dst']
            if not d_['p'] or d_['p'][0] != '*' or any(bi in l_[4] for l_ in floops) or not body.dominates(lo[3], bi): continue
            r_, fs_, crossed_ = root_of(body, {'k': 'copy', 'pl': {'l': d_['l'], 'p': []}}, LAST_T)
            if r_ != tv or not any(re.search(r'::last_mut$', T.strip_generics_tail(x_)) for x_ in crossed_) or [f_ for a_, f_ in fs_][-1:] != ['1']: continue
            terms = linear_terms(def_expr(body, ('stmt', bi, st)), 1, lambda x: tree_is_width(body, x, 0))
            pos = [t_ for sg, t_ in terms if sg > 0]; neg = [t_ for sg, t_ in terms if sg < 0]
            old_ok = len(neg) == 1 and any(n_[0] == 'call' and n_[1] == 'last_mut' for n_ in T.expr_walk(neg[0]))
            fix.append(old_ok and len(pos) == 2 and sorted((tree_is_width(body, t_), const_is(t_, 1.0)) for t_ in pos) == [(False, True), (True, False)])
        if fix:
            okf = all(fix) and len(fix) == 1
            ctx.check(okf, R + '.coef/values', 'T-BRANCHFX', fn, 'the last element is not overwritten with w - (its power of two) + 1 exactly once after the loop', body.site(c.bb))
            ctx.check(okf, R + '.coef/last-is-capped', 'T-BRANCHFX', fn, 'the element capped after the loop is not the last one', body.site(c.bb))
            return
    okv = set(kinds) == {'power', 'capped'}
    ctx.check(okv, R + '.coef/values', 'T-BRANCHFX', fn, 'coefficient is not 2^i / w - 2^i + 1 (found %s)' % sorted(kinds), body.site(c.bb))
    if not okv: return
    # which iteration gets the capped one: the decision that separates the two definitions must single out i == n - 1
    good = False; seen = []
    for bi, st in body.stmts():
        rv = st['rv']
        if bi not in lo[4] or rv['k'] != 'bin' or rv['op'] not in ('Eq', 'Ne', 'Lt', 'Le', 'Gt', 'Ge') or rv.get('ty') == 'f64': continue
        ea, eb = xexpr(body, rv['ops'][0]), xexpr(body, rv['ops'][1])
        N_ = 6
        vals = []
        for i_ in range(N_):
            x = eval_index_expr(ea, item_bb, hi_root, body, i_, N_); y = eval_index_expr(eb, item_bb, hi_root, body, i_, N_)
            if x is None or y is None: vals = None; break
            vals.append({'Eq': x == y, 'Ne': x != y, 'Lt': x < y, 'Le': x <= y, 'Gt': x > y, 'Ge': x >= y}[rv['op']])
        if not vals or len(set(vals[:-1])) != 1 or vals[-1] == vals[0]: continue
        for sb, neg in T.bool_flow(body, st['dst']['l']):
            tt, ft = T.switch_sides(body, sb, neg)
            last_t, other_t = (tt, ft) if vals[-1] else (ft, tt)
            rl = body.reach([last_t], stop={lo[1]}); ro = body.reach([other_t], stop={lo[1]})
            seen.append('bb%d' % sb)
            if all(b in rl and b not in ro for b in kinds['capped']) and all(b in ro and b not in rl for b in kinds['power']): good = True
    ctx.check(good, R + '.coef/last-is-capped', 'T-BRANCHFX', fn, 'the capped coefficient is not chosen exactly for the last bit (i == n - 1); candidate tests: %s' % seen, body.site(c.bb))


def is_dv_field_leaf(leaf):
    k, key, _ = leaf
    return k == 'field' and key[0] == 1 and [f for a, f in key[1]] == ['decision_variables']


def check(ctx):
    R = 'C12'
    body0 = ctx.method(R + '.anchor/log_encode', INST, 'log_encode')
    if body0 is None: return
    body = open_up(ctx, body0)
    fn = body0.name
    # ---- the encoding loop = the loop that pushes decision variables onto self.decision_variables
    pushes = []
    for c in body.calls:
        if c.item == 'push' and len(c.args) == 2 and '::Vec::<' in c.name:
            r, fs, _ = root_of(body, c.args[0], REF_TRANSPARENT)
            if r == 1 and [f for a, f in fs] == ['decision_variables']: pushes.append(c)
    ctx.check(bool(pushes), R + '.loop/push', 'T-LOOPMUST', fn, 'nothing is pushed onto self.decision_variables', body.site())
    if not pushes: return
    floops = T.for_loops(body)
    def inner(bb):
        best = None
        for lo in floops:
            if bb in lo[4] and (best is None or len(lo[4]) < len(best[4])): best = lo
        return best
    # pushes inside the loop, and *peeled* ones: straight-line copies of the loop body for one more bit position (last
    # iteration unrolled, body in a local closure called once more, ..); see the per-site rules below
    looped = [c for c in pushes if inner(c.bb) is not None]; peeled = [c for c in pushes if inner(c.bb) is None]
    loop = inner(looped[0].bb) if looped else None
    ctx.check(loop is not None and all(inner(c.bb) is loop for c in looped), R + '.loop/found', 'T-LOOPMUST', fn, 'the pushes are not inside one loop', body.site(pushes[0].bb))
    if loop is None: return
    nextc, header, some_bb, none_bb, blocks = loop
    push_bbs = {c.bb for c in pushes}
    targets = set(body.strict_ok_exits()) | push_bbs | {header}

    def decide(rule, tests, none_msg, weak_msg, template='T-GUARD', implied_by=()):
        good = [t for t in tests if protects(body, t, targets, implied_by=implied_by)]
        ctx.counters['cfg_paths'] += len(tests)
        if good: ctx.ok(rule, template, body.site(good[0].sb), guard=good[0].what, shape=good[0].describe())
        elif not tests: ctx.bad(rule, template, fn, none_msg, body.site())
        else: ctx.bad(rule, template, fn, weak_msg, body.site(tests[0].sb), seen='; '.join(t.describe() for t in tests)[:300])
        return good

    # ---- guard 1: unknown variable.  A loop over self.decision_variables compares item.id with the argument;
    # running out of items is an error  (find / position / any / explicit for, all the same after normalisation)
    lookups = []
    for lo in floops:
        if lo is loop or not any(is_dv_field_leaf(x) for x in seq_sources(body, lo[0].args[0])): continue
        for bi, st in body.stmts():
            if bi not in lo[4] or st['rv']['k'] != 'bin' or st['rv']['op'] not in ('Eq', 'Ne'): continue
            ss = [ctx.S.slice_operand(body, o, depth=0) for o in st['rv']['ops']]
            for x, y in ((ss[0], ss[1]), (ss[1], ss[0])):
                if x.has_field(DV, 'id') and lo[0].dst['l'] in x.locals and 2 in y.params and not y.has_field(DV, 'id'):
                    lookups.append((lo, bi)); break
    ctx.check(bool(lookups), R + '.guards/unknown/lookup', 'T-ERRFLOW', fn, 'no search of self.decision_variables by the given id', body.site())
    lookup_test = None
    if lookups:
        # the search looks at EVERY element: no path from taking an item back to the header avoids the id comparison
        # (`.filter(p).find(by id)` / `if skip(dv) { continue }` in front of the comparison make a present id "not found"; seed C12-20)
        lo0 = lookups[0][0]
        via = {b for l, b in lookups if l is lo0}
        ctx.check(T.must_pass(body, lo0[2], {lo0[1]}, via), R + '.guards/unknown/every-element-compared', 'T-LOOPMUST', fn,
                  'an element of self.decision_variables can be passed over without its id being compared with the argument', body.site(lo0[2]))
    for lo, bi in lookups[:1]:
        t = Test(lo[1], [lo[2]], [lo[3]], 'lookup by id exhausted')
        # the header block holds the `next` call; the switch on its result follows it
        arms = T.option_arms(body, lo[0].dst['l'])
        if arms: t = Test(arms[0][0], [lo[2]], [lo[3]], 'lookup by id exhausted')
        decide(R + '.guards/unknown/none-is-error', [t], '', 'a variable that is not found does not lead to an error before anything else happens', 'T-ERRFLOW')
        lookup_test = t
    # "an error, not a panic": `expect` / `unwrap` in this function are justified by the variable having been found
    # ("At least one decision variable here"), so none of them may be reachable before the lookup has succeeded
    def may_panic(c):
        if re.search(r'(Option|Result)::<.*>::(unwrap|expect)$', c.name): return c.item
        # an explicit `panic!` / `unreachable!` / `assert!` failure branch (`match x { None => panic!(..) }`)
        if c.target < 0 and re.search(r'panicking::(panic|panic_fmt|panic_display|panic_explicit|assert_failed|unreachable_display)|begin_panic', c.name): return 'panic!'
        # a closure with overflow-checked arithmetic handed to a combinator: `.map(|id| id + 1)`
        for a_ in c.args:
            if a_['k'] in ('copy', 'move') and not a_['pl']['p']:
                d_ = _whole_defs(body, a_['pl']['l'])
                if len(d_) == 1 and d_[0][0] == 'stmt' and d_[0][2]['rv']['k'] == 'agg' and d_[0][2]['rv']['adt'].startswith('closure:'):
                    cb_ = ctx.F.bodies.get(d_[0][2]['rv']['adt'][8:])
                    if cb_ is not None and (any(cb_.blocks[b_]['term']['k'] == 'assert' for b_ in cb_.live) or any(re.search(r'<&?u64 as std::ops::(Add|Sub|Mul)', x.name) for x in cb_.calls)):
                        return c.item + '(closure with checked arithmetic)'
        return None
    for c in body.calls:
        what_ = may_panic(c)
        if what_:
            ctx.check(lookup_test is not None and protects(body, lookup_test, {c.bb}, need_err=False), R + '.guards/unknown/before-panics', 'T-GUARD', fn,
                      '`%s` can be reached before the variable lookup has succeeded (panic instead of the not-found error)' % what_, body.site(c.bb))
    # ---- guard 2: integer kind
    kind_adt = ctx.F.adt('v1::decision_variable::Kind')
    INTEGER = None
    if kind_adt:
        for v in kind_adt['variants']:
            if v['name'] == 'Integer': INTEGER = v['discr']
    from_kind = lambda s: s.has_field(DV, 'kind') or s.has_call(r'v1::DecisionVariable::kind$')
    ktests = []
    for c in body.calls:
        # `v.kind() == Kind::Integer` / `!=`
        if c.item in ('eq', 'ne') and 'PartialEq' in (c.trait or '') and re.search(r'decision_variable::Kind$', c.self_ty or ''):
            vs = [enum_variant_of_operand(ctx, body, a) for a in c.args]
            if not any(v and v.endswith('::Integer') for v in vs): continue
            others = [a for a, v in zip(c.args, vs) if not (v and v.endswith('::Integer'))]
            if not others or not from_kind(ctx.S.slice_operand(body, others[0])): continue
            ktests += bool_tests(body, c.dst['l'], c.item == 'eq', 'kind() == Integer')
    if INTEGER is not None:
        # `matches!(v.kind(), Kind::Integer)` / `match v.kind() { Kind::Integer => .., _ => error }`
        # (the scrutinee may be packed with others: `match (v.kind(), v.bound.as_ref()) { (Kind::Integer, Some(b)) => .. }`)
        for vl, reads in sorted(discr_reads(body).items()):
          if not body.locals[vl].lstrip('&').endswith('decision_variable::Kind'): continue
          if not from_kind(ctx.S.slice_operand(body, {'k': 'copy', 'pl': {'l': vl, 'p': []}})): continue
          for bi, st in reads:
            for k3, b3, sw in body.uses.get(st['dst']['l'], ()):
                if k3 != 'switch': continue
                m = {v: t for v, t in sw['ts']}
                if INTEGER not in m: continue
                fails = [t for v, t in sw['ts'] if v != INTEGER] + [sw['else']]
                fails = [f for f in fails if body.blocks[f]['term']['k'] != 'unreachable'] or [sw['else']]
                ktests.append(Test(b3, [m[INTEGER]], fails, 'match kind() { Integer => .. }'))
    if INTEGER is not None:
        # `v.kind == Kind::Integer as i32` / `!=`: the raw prost field against the discriminant of Integer
        for bi, st in body.stmts():
            rv = st['rv']
            if rv['k'] != 'bin' or rv['op'] not in ('Eq', 'Ne') or rv.get('ty') != 'i32': continue
            for x, y in ((rv['ops'][0], rv['ops'][1]), (rv['ops'][1], rv['ops'][0])):
                if x['k'] not in ('copy', 'move') or (DV, 'kind') not in xpath(body, x): continue
                consts = [n[1] for n in T.expr_walk(T.expr(body, y, depth=8))  if n[0] == 'const'] if y['k'] != 'const' else [y['v']]
                named = [c for c in consts if re.search(r'decision_variable::Kind::\w+', c)]
                is_int = (named and all(re.search(r'decision_variable::Kind::Integer\b', c) for c in named)) or \
                         (not named and [T.f64_const(c) for c in consts] == [float(INTEGER)])
                if is_int: ktests += bool_tests(body, st['dst']['l'], rv['op'] == 'Eq', 'kind == Integer as i32')
    if INTEGER is not None:
        # `match Kind::try_from(v.kind) { Ok(Kind::Integer) => .., _ => error }` (also `from_i32` -> Option): the conversion has to
        # succeed *and* give Integer; the Err / None arm and every other variant fail
        for bi, st in body.stmts():
            rv = st['rv']
            if rv['k'] != 'discr': continue
            P = [q for q in rv['pl']['p'] if q != '*']
            if len(P) != 2 or not (isinstance(P[0], dict) and P[0].get('dc') in ('Ok', 'Some')) or not (isinstance(P[1], dict) and P[1].get('f') == '0'): continue
            r_ = rv['pl']['l']; ty_ = body.locals[r_].lstrip('&')
            if not re.match(r'^std::(result::Result|option::Option)<v1::decision_variable::Kind\b', ty_): continue
            if not from_kind(ctx.S.backslice(body, [r_], depth=0)): continue
            pos_d = 0 if ty_.startswith('std::result') else 1
            for k5, b5, sw5 in body.uses.get(st['dst']['l'], ()):
                if k5 != 'switch': continue
                m5 = {v: t for v, t in sw5['ts']}
                if INTEGER not in m5: continue
                inner_fail = [(b5, t) for v, t in sw5['ts'] if v != INTEGER] + [(b5, sw5['else'])]
                inner_fail = [(a_, t) for a_, t in inner_fail if body.blocks[t]['term']['k'] != 'unreachable']
                for b0, st0 in discr_reads(body).get(r_, ()):
                    for k3, b3, sw3 in body.uses.get(st0['dst']['l'], ()):
                        if k3 != 'switch': continue
                        m3 = {v: t for v, t in sw3['ts']}
                        neg_t = m3.get(1 - pos_d, sw3['else'])
                        ktests.append(Test(b3, [m5[INTEGER]], [neg_t] + [t for a_, t in inner_fail], 'match Kind::try_from(kind) { Ok(Integer) => .. }',
                                           fail_edges=[(b3, neg_t)] + inner_fail, pass_edges=[(b5, m5[INTEGER])]))
    decide(R + '.guards/kind', ktests, 'no test `kind() == Integer` found', 'test `kind() == Integer` does not keep other kinds away from the encoding')
    # ---- guard 3: bound present
    btests = []; bsrc = 0
    opt_bound = re.compile(r"^std::option::Option<&?('\w+ )?v1::Bound>$")
    for l, ty in enumerate(body.locals):
        if not opt_bound.match(ty.strip()) or not body.defs_of(l): continue
        if not ctx.S.backslice(body, [l], depth=0).has_field(DV, 'bound'): continue
        bsrc += 1
        btests += option_tests(body, l, 'bound is Some')
    for bi, st in body.stmts():
        # `match v.bound { .. }` / `if let Some(b) = &v.bound`: discriminant read straight from the field
        rv = st['rv']
        if rv['k'] == 'discr' and fields_of_place(rv['pl'])[-1:] and fields_of_place(rv['pl'])[-1][1] == 'bound' and fields_of_place(rv['pl'])[-1][0].endswith(DV):
            bsrc += 1
            for k3, b3, sw in body.uses.get(st['dst']['l'], ()):
                if k3 == 'switch':
                    m = {v: t for v, t in sw['ts']}
                    btests.append(Test(b3, [m.get(1, sw['else'])], [m.get(0, sw['else'])], 'bound is Some (field match)'))
    ctx.check(bsrc >= 1, R + '.guards/no-bound/access', 'T-ERRFLOW', fn, 'no access to the optional bound found', body.site())
    decide(R + '.guards/no-bound/none-is-error', btests, 'the optional bound is never tested', 'a missing bound does not lead to an error before anything else happens', 'T-ERRFLOW')
    # bound must never be defaulted
    dflt = [c for c in body.calls if 'v1::Bound' in c.name and c.item in ('unwrap_or_default', 'unwrap_or', 'unwrap_or_else')]
    ctx.check(not dflt, R + '.guards/no-bound/defaulted', 'T-ERRFLOW', fn, 'missing bound is defaulted by ' + ', '.join(c.item for c in dflt), body.site(dflt[0].bb) if dflt else body.site())
    # `w == 0` (the single-integer shortcut) implies both ends finite and w >= 0: on its arm those guards need not have
    # been passed, so the shortcut may stand before or after them
    nonneg, zero_arms = width_tests(ctx, body)
    zero_edges = set(zero_arms)
    # ---- guard 4: finiteness of both ends
    finite_tests = {}; finite_good = {}
    for side in ('lower', 'upper'):
        ts = []
        is_end = lambda o: (lambda fs: (BOUND, side) in fs and (DV, 'bound') in fs)(xpath(body, o))
        for c in body.calls:
            # idioms that keep +-inf out (a NaN end is rejected by the empty-range guard: NaN >= 0 is false)
            if 'f64' not in c.name or not c.args or not is_end(c.args[0]): continue
            if c.item == 'is_finite': ts += bool_tests(body, c.dst['l'], True, 'bound.%s.is_finite()' % side, True)            # x.is_finite()
            elif c.item == 'is_infinite': ts += bool_tests(body, c.dst['l'], False, '!bound.%s.is_infinite()' % side, False)    # !x.is_infinite(): NaN passes
        for c in body.calls:
            # `[a, b].into_iter().all(f64::is_finite)` | `.iter().copied().all(..)` | `!.. .any(f64::is_infinite)`: the predicate holds for /
            # for none of the listed values (a closure instead of the path is opened by the normal form into a loop)
            if c.item not in ('all', 'any') or not (c.trait or '').endswith('Iterator') or len(c.args) != 2 or c.args[1]['k'] != 'const': continue
            pred = (c.args[1].get('fnp') or c.args[1].get('v') or '').split('::')[-1]
            want = {('all', 'is_finite'): True, ('any', 'is_infinite'): False}.get((c.item, pred))
            if want is None: continue
            seq_t = re.compile(r'::(into_iter|iter|copied|cloned|by_ref)(::<.*>)?$')
            lst = root_of(body, c.args[0], seq_t)[0]
            d_ = _whole_defs(body, lst) if lst is not None else []
            for _ in range(3):
                # `&[a, b]` coerced to a slice (`.iter()` on an array)
                if len(d_) == 1 and d_[0][0] == 'stmt' and d_[0][2]['rv']['k'] == 'cast' and d_[0][2]['rv']['to'].startswith('&'):
                    lst = root_of(body, d_[0][2]['rv']['ops'][0], seq_t)[0]; d_ = _whole_defs(body, lst) if lst is not None else []
                else: break
            if len(d_) == 1 and d_[0][0] == 'stmt' and d_[0][2]['rv']['k'] == 'agg' and d_[0][2]['rv']['adt'] == 'array' and any(is_end(o_) for o_ in d_[0][2]['rv']['ops']):
                ts += bool_tests(body, c.dst['l'], want, '[..bound.%s..].%s(%s)' % (side, c.item, pred), want)
        for bi_, st_ in f64_compares(body, ('Lt', 'Gt')):
            # x.abs() < f64::INFINITY  |  f64::INFINITY > x.abs()
            a_, b_ = st_['rv']['ops']
            small, big = (a_, b_) if st_['rv']['op'] == 'Lt' else (b_, a_)
            be = T.strip_wrappers(T.expr(body, big, depth=6))
            if not (be[0] == 'const' and T.f64_const(be[1]) == float('inf')) or small['k'] not in ('copy', 'move'): continue
            d_ = _whole_defs(body, root_of(body, small)[0])
            ac = _callmap(body).get(d_[0][1]) if len(d_) == 1 and d_[0][0] == 'call' else None
            if ac is not None and ac.item == 'abs' and 'f64' in ac.name and is_end(ac.args[0]):
                ts += bool_tests(body, st_['dst']['l'], True, 'bound.%s.abs() < INFINITY' % side, True)
        finite_tests[side] = ts
        finite_good[side] = decide(R + '.guards/finite/' + side, ts, 'no `bound.%s.is_finite()` test guarding the encoding loop (an infinite bound makes the bit count unbounded)' % side,
               '`bound.%s.is_finite()` does not keep a non-finite bound away from the encoding loop' % side, implied_by=zero_edges)
    # ---- guard 5: the range contains an integer
    range_good = decide(R + '.guards/empty-range', nonneg, 'no `floor(upper) - ceil(lower) >= 0` test guarding the loop',
           'the `floor(upper) - ceil(lower) >= 0` test does not keep an empty range away from the encoding', implied_by=zero_edges)
    # NaN: a NaN end is neither infinite nor `< 0`-comparable.  It must be sent to an error by some protecting guard: by the
    # finiteness tests of both ends in a NaN-rejecting spelling (is_finite, abs() < INFINITY), or by the range test in one
    # (a comparison that has to be *true*, partial_cmp with None as error).  `!is_infinite()` + `if w < 0 { bail }` lets NaN through.
    strict = lambda ts_: any(getattr(t_, 'rejects_nan', None) for t_ in ts_)
    ctx.check((strict(finite_good.get('lower', [])) and strict(finite_good.get('upper', []))) or strict(range_good), R + '.guards/nan', 'T-GUARD', fn,
              'a NaN bound passes every guard: the finiteness tests do not reject NaN (is_infinite) and the range test lets an unordered comparison through (required false)', body.site())
    # floor on upper, ceil on lower (not swapped)
    for c in body.calls:
        if c.item in ('floor', 'ceil') and 'f64' in c.name and c.bb not in blocks:
            fs = xpath(body, c.args[0])
            if (BOUND, 'upper') in fs:
                ctx.check(c.item == 'floor', R + '.round/upper-floor', 'T-BRANCHFX', fn, 'upper bound is rounded with ' + c.item, body.site(c.bb))
            elif (BOUND, 'lower') in fs:
                ctx.check(c.item == 'ceil', R + '.round/lower-ceil', 'T-BRANCHFX', fn, 'lower bound is rounded with ' + c.item, body.site(c.bb))
    # ---- C12.cast: f64 -> usize cast feeding the loop bound is protected by finiteness tests
    si = ctx.S.slice_operand(body, nextc.args[0])
    casts = [(bi, st) for bi, st in body.stmts() if st['rv']['k'] == 'cast' and re.fullmatch(r'[iu](8|16|32|64|128|size)', st['rv']['to']) and st['dst']['l'] in si.locals
             and st['rv']['ops'][0]['k'] in ('copy', 'move') and body.locals[st['rv']['ops'][0]['pl']['l']] == 'f64']
    for bi, st in casts:
        s = ctx.S.slice_operand(body, st['rv']['ops'][0])
        srcs = sorted({f for a, f in s.fields if a.endswith(BOUND)})
        guarded = [side for side in ('lower', 'upper') if any(protects(body, t, {bi}, need_err=False, implied_by=zero_edges) for t in finite_tests[side])]
        ctx.check(set(srcs) <= set(guarded), R + '.cast/finite-before-usize', 'T-GUARD', fn,
                  'loop trip count is an f64→usize cast of a value depending on %s without a finiteness test in front of it' % sorted(set(srcs) - set(guarded)), body.site(bi))
    # ---- single-integer range: constant result, nothing pushed
    oks = body.strict_ok_exits()
    single = None
    for sb, arm in zero_arms:
        r = feasible_reach(body, [0], via={(sb, arm)})
        if (r & oks) and not (r & push_bbs) and not (r & set(blocks)): single = (sb, arm, r)
    ctx.check(single is not None, R + '.single/returns-without-push', 'T-BRANCHFX', fn, 'no `u - l == 0` early return that adds no variable', body.site())
    single_region = single[2] if single else set()
    if single:
        for e, k, st in body.ret_assignments():
            if e in single_region and k == 'ok':
                # the Linear without terms and with constant ceil(lower): `Linear::from(c)` / `c.into()`, or what that conversion
                # builds written out, `Linear { terms: <empty>, constant: c }`
                rr = root_of(body, st['rv']['ops'][0])[0]
                d = _whole_defs(body, rr)
                frm = _callmap(body).get(d[0][1]) if len(d) == 1 and d[0][0] == 'call' else None
                lit = construction_of(ctx, body, rr, 'v1::Linear')
                okc = frm is not None and is_conversion(frm, 'f64', 'v1::Linear') and is_rounded(xexpr(body, frm.args[0]), 'ceil', 'lower')
                if not okc and lit is not None:
                    co, to = lit.operand('constant'), lit.operand('terms')
                    okc = co is not None and to is not None and is_rounded(xexpr(body, co), 'ceil', 'lower') and is_empty_vec_operand(body, to)
                ctx.check(okc,
                          R + '.single/constant-is-lower', 'T-CARRY', fn, 'the constant returned for a single-integer range is not ceil(lower)', body.site(e))
    # ---- atomic
    for what, bi, badexits in T.check_atomic(body, ctx.S, ctx.F):
        ctx.check(not badexits, R + '.atomic', 'T-ATOMIC', fn, 'an Err-exit (bb%s) is reachable after mutation `%s`' % (badexits, what), body.site(bi))
    w = self_writes(ctx, body)
    extra = sorted(x for x in w if x not in {'decision_variables'})
    ctx.check(not extra, R + '.only-decision-variables', 'T-ATOMIC', fn, 'writes to self outside decision_variables: %s' % extra, body.site(), writes=sorted(w))
    # ---- pushed variables
    br = bit_range(body, loop, floops)
    hi_op = br[1]['rv']['ops'][1] if br is not None else None
    hi_c = canon(body, xexpr(body, hi_op), ()) if hi_op is not None else None
    site_ids = []; loop_ide = None
    for pc in looped + peeled:
        is_peeled = pc in peeled
        # the pushed value: a literal, or `DecisionVariable::default()` / a constructor completed by field assignments and setters
        a = construction_of(ctx, body, root_of(body, pc.args[1])[0], DV)
        ctx.check(a is not None and inner(a.bb) is inner(pc.bb) and body.dominates(a.bb, pc.bb), R + '.vars/literal', 'T-CARRY', fn,
                  'the value pushed is not a DecisionVariable built in the same iteration', body.site(pc.bb))
        if a is None: continue
        bi = a.bb
        # which Kind variants the field can come from: `Kind::Binary as i32` (a constant) or `set_kind(Kind::Binary)` (a value)
        ks = a.slice('kind')
        kinds = set()
        for c_ in ks.consts: kinds |= set(re.findall(r'decision_variable::Kind::(\w+)', c_))
        for b2, st2 in body.stmts():
            m_ = re.search(r'decision_variable::Kind::(\w+)$', st2['rv']['adt']) if st2['rv']['k'] == 'agg' else None
            if m_ and st2['dst']['l'] in ks.locals: kinds.add(m_.group(1))
        ctx.check('Binary' in kinds, R + '.vars/kind-binary', 'T-CARRY', fn, 'field `kind` does not depend on Kind::Binary', body.site(bi))
        ctx.check(kinds <= {'Binary'}, R + '.vars/kind-only-binary', 'T-CONST', fn, 'kind depends on another Kind: %s' % sorted(kinds - {'Binary'}), body.site(bi))
        okb = False
        s = a.slice('bound')
        for b2, st2 in find_aggregates(body, BOUND):
            if st2['dst']['l'] in s.locals:
                vals = [T.f64_const(o['v']) if o['k'] == 'const' else None for o in st2['rv']['ops']]
                d = dict(zip(st2['rv']['fields'], vals))
                okb = d.get('lower') == 0.0 and d.get('upper') == 1.0
        if not okb:
            # `Bound::new(0.0, 1.0)` (the crate's checked bound) converted into the message: the same two numbers
            for c_ in s.call_objs:
                if c_.item == 'new' and re.search(r'\bBound\b', c_.name) and 'v1::' not in c_.name.split('>::')[0][-12:] and len(c_.args) == 2:
                    vals = [T.f64_const(o['v']) if o['k'] == 'const' else None for o in c_.args]
                    if vals == [0.0, 1.0]: okb = True
        ctx.check(okb, R + '.vars/bound-0-1', 'T-CONST', fn, 'bound of the new variables is not Some([0,1])', body.site(bi))
        idop = a.operand('id')
        ids = fresh_id(ctx, R + '.vars/fresh-id', body, idop, 'id of the new binary variable', body.site(bi), fn, s=a.slice('id'))
        if idop is None:
            ctx.bad(R + '.vars/id-per-bit', 'T-CARRY', fn, 'the id of the pushed variable is not given by one initialiser / assignment', body.site(bi)); continue
        # (expression tree, not the slice: id_base comes from `self`, which the loop itself mutates, so the slice of
        #  anything read from `self` contains the loop)
        ide = xexpr(body, idop)
        ss = construction_carry(ctx, R + '.vars/subscripts', a, 'subscripts', need_params=[2])
        # tagged with the *encoded variable*: the first subscript is the id that was passed in (not the position where the
        # variable was found, not the id base).  Precise on the list literal the subscripts are made of (`vec![a, b]`,
        # `Vec::from([a, b])`, `[a, b].to_vec()`), because slices in this function are polluted by the mutation of `self`.
        if ss is not None:
            lits = [st2 for b2, st2 in body.stmts() if st2['rv']['k'] == 'agg' and st2['rv']['adt'] == 'array' and len(st2['rv']['ops']) == 2
                    and st2['dst']['l'] in ss.locals and (inner(b2) is inner(bi))]
            firsts = [strip_casts(xexpr(body, st2['rv']['ops'][0])) for st2 in lits]
            ctx.check(bool(firsts) and all(e_[0] == 'place' and e_[1] == 2 and not e_[2] for e_ in firsts), R + '.vars/subscripts-first-is-id', 'T-CARRY', fn,
                      'the first subscript of the new variable is not the id of the encoded variable (the argument)%s' %
                      ('' if firsts else ': no two-element list literal found'), body.site(bi), first=[T.expr_str(e_) for e_ in firsts])
        if not is_peeled:
            if loop_ide is None: loop_ide = ide
            ctx.check(any(x[0] == 'call' and len(x) > 4 and x[4] == nextc.bb for x in T.expr_walk(ide)), R + '.vars/id-per-bit', 'T-CARRY', fn,
                      'id is not computed from the bit index', body.site(bi), id_expr=T.expr_str(ide))
            if ss is not None:
                ctx.check(nextc in ss.call_objs, R + '.vars/subscripts-bit', 'T-CARRY', fn, 'subscripts do not contain the bit index', body.site(bi))
        else:
            # a peeled copy: the same id expression with the loop item replaced by its own bit position X, and X is the
            # position after the loop's last one (the loop runs over 0..h, X = h)
            X = match_index(loop_ide, ide, nextc.bb) if loop_ide is not None else None
            okx = X is not None and hi_c is not None and canon(body, strip_casts(X), ()) == hi_c
            ctx.check(okx, R + '.vars/id-per-bit', 'T-CARRY', fn, 'the variable pushed outside the loop is not the loop body repeated for the bit position after the loop\'s last one',
                      body.site(bi), id_expr=T.expr_str(ide))
            if ss is not None and hi_op is not None:
                ctx.check(root_of(body, hi_op)[0] in ss.locals, R + '.vars/subscripts-bit', 'T-CARRY', fn, 'subscripts of the peeled variable do not contain its bit position', body.site(bi))
        site_ids.append(canon(body, ide, floops))
    # the same ids go into the returned linear expression
    for e, k, rst in body.ret_assignments():
        if k == 'ok' and e not in single_region:
            # Ok(Linear::new(terms, c)): c = ceil(lower), and the elements of `terms` are pushed — in a loop once per iteration, or
            # in a peeled copy — as (the id given to the variable of the same bit, _).  "The same id" = the same canonical
            # expression (see canon): the same local, or recomputed from the same inputs in a loop over the same range
            rX = root_of(body, rst['rv']['ops'][0])[0]
            d = _whole_defs(body, rX)
            new = _callmap(body).get(d[0][1]) if len(d) == 1 and d[0][0] == 'call' else None
            precise = False; seen_ids = []
            if new is not None and new.item in ('collect', 'from_iter') and rX is not None and body.locals[rX].endswith('v1::Linear') and len(new.args) == 1:
                # `terms.collect::<Linear>()` is `Linear::new(terms, 0.0)` (FromIterator for Linear); the constant is what is then
                # assigned to `.constant` (exactly once)
                asg = [st2 for b2, st2 in body.stmts() if st2['dst']['l'] == rX and [q.get('f') for q in st2['dst']['p'] if isinstance(q, dict)] == ['constant']]
                if len(asg) == 1 and asg[0]['rv']['k'] == 'use':
                    class _New: pass
                    nn = _New(); nn.name = 'linear::<impl v1::Linear>::new'; nn.args = [new.args[0], asg[0]['rv']['ops'][0]]; nn.bb = new.bb
                    new = nn
            litX = construction_of(ctx, body, rX, 'v1::Linear') if new is None else None
            if litX is not None and litX.operand('terms') is not None and litX.operand('constant') is not None:
                # `Linear { terms, constant }` written out (the body of Linear::new at the call site)
                class _New2: pass
                new = _New2(); new.name = 'linear::<impl v1::Linear>::new'; new.args = [litX.operand('terms'), litX.operand('constant')]; new.bb = litX.bb
            if new is not None and re.search(r'impl v1::Linear>::new(::<.*>)?$', new.name) and len(new.args) == 2:
                ts_ = term_sites(ctx, body, new, pushes, header)
                tp = [x[0] for x in ts_] if ts_ else []
                okp = bool(tp)
                readback = bool(ts_) and all(x[1] == 'READBACK' for x in ts_)
                for c, idop_, cop_ in (ts_ or []):
                    tid = canon(body, xexpr(body, idop_), floops) if idop_ != 'READBACK' else 'READBACK'
                    seen_ids.append(tid)
                    lt = inner(c.bb)
                    if lt is not None and not T.must_pass(body, lt[2], {lt[1]}, {x.bb for x in tp if x.bb in lt[4]}): okp = False
                if readback:
                    # ids read back from the registered variables: the j-th coefficient must belong to the j-th variable, i.e.
                    # both are pushed exactly once per iteration of the same loop (no peeled copies)
                    ids_ok = not peeled and len(looped) == 1 and len(tp) == 1 and inner(tp[0].bb) is loop
                else:
                    ids_ok = {x or '' for x in seen_ids} == set(site_ids) and (len(seen_ids) == len(site_ids) or C09_once(body, loop, [x.bb for x in tp if x.bb in blocks]))
                precise = okp and ids_ok and any('ITEM<' in x for x in site_ids) and is_rounded(xexpr(body, new.args[1]), 'ceil', 'lower')
                check_coefficients(ctx, R, body, fn, floops, ts_)
            ctx.check(precise, R + '.result/uses-new-ids-and-lower', 'T-CARRY', fn,
                      'the returned Linear is not `Linear::new(terms, ceil(lower))` with every term pushed as (id of the variable of the same bit, _): variable ids %s, term ids %s' % (site_ids, seen_ids), body.site(e))
    loop_must(ctx, R + '.loop/push-every-bit', body, loop, lambda c: c.bb in {x.bb for x in looped}, 'decision_variables.push')
    # the number of bits: the loop's range, plus one when the last bit is peeled
    hi_e = xexpr(body, hi_op) if hi_op is not None else None
    how = None
    if hi_e is not None and not peeled: how = is_bit_count(body, hi_e)
    elif hi_e is not None:
        a_ = T.arith(strip_casts(hi_e))
        if len(peeled) == 1 and a_[0] == 'bin' and a_[1] == 'Sub' and const_is(a_[3], 1.0): how = is_bit_count(body, a_[2])
        if how: how += ' - 1, last bit peeled'
    ctx.check(how is not None, R + '.bits/count', 'T-BRANCHFX', fn, 'the bit loop does not run over 0..ceil(log2(w + 1)) with w = floor(upper) - ceil(lower)%s' %
              ('' if hi_e is None else ': n = ' + T.expr_str(hi_e)), body.site(), idiom=how)
    # the loop starts at bit 0
    rng = [st for bi, st in body.stmts() if st['rv']['k'] == 'agg' and st['rv']['adt'].endswith('ops::Range') and st['dst']['l'] in si.locals]
    ctx.check(len(rng) >= 1 and all(re.fullmatch(r'0_[iu](8|16|32|64|128|size)', r['rv']['ops'][0].get('v') or '') for r in rng), R + '.loop/from-bit-0', 'T-CONST', fn, 'bit loop does not start at 0', body.site())
    ctx.floor('C12.guards', 9); ctx.floor('C12.vars', 9); ctx.floor('C12.cast', 1); ctx.floor('C12.single', 2); ctx.floor('C12.atomic', 2)
    ctx.floor('C12.loop', 5); ctx.floor('C12.round', 2); ctx.floor('C12.result', 1); ctx.floor('C12.bits', 1); ctx.floor('C12.coef', 2)
