"""C11 — QUBO / PUBO export (DESIGN §5 C11)."""
from .common import *

INST = 'v1::Instance'


def export_rules(ctx, name, keyty, qubo):
    R = 'C11.%s' % name
    body = ctx.method(R + '/anchor', INST, name)
    if body is None: return
    # ---- refusal guards
    def is_empty(c): return c.item == 'is_empty' and re.search(r'Vec::<v1::Constraint>', c.name)
    guard(ctx, R + '/guard/no-active-constraints', body, is_empty, True, 'self.constraints.is_empty()',
          operand_need=lambda c: ctx.S.slice_operand(body, c.args[0]).has_field(INST, 'constraints'))
    enum_eq_guard(ctx, R + '/guard/not-maximize', body, r'instance::Sense$', 'Maximize', False, 'sense() == Maximize',
                  src_need=lambda s: s.has_field(INST, 'sense'))
    def is_subset(c): return c.item == 'is_subset' and 'BTreeSet' in c.name
    def subset_ops(c):
        a = ctx.S.slice_operand(body, c.args[0]); b = ctx.S.slice_operand(body, c.args[1])
        return a.has_call(r'used_decision_variable_ids') and a.has_field(INST, 'objective') and b.has_call(r'impl v1::Instance>::binary_ids') and not b.has_field(INST, 'objective')
    guard(ctx, R + '/guard/only-binaries', body, is_subset, True, 'used ids ⊆ binary ids', operand_need=subset_ops)
    bids = ctx.method(R + '/binary_ids/anchor', INST, 'binary_ids')
    if bids is not None:
        s = ctx.S.backslice(bids, [0])
        kinds = []
        for cn in s.closures:
            cb = ctx.F.bodies.get(cn)
            if cb is None: continue
            for c in cb.calls:
                if c.item in ('eq', 'ne') and 'PartialEq' in (c.trait or '') and re.search(r'Kind$', c.self_ty or ''):
                    kinds.append((c.item, [enum_variant_of_operand(ctx, cb, a) for a in c.args]))
        ok = any(it == 'eq' and any(v and v.endswith('Kind::Binary') for v in vs) for it, vs in kinds)
        ctx.check(ok and s.has_call(r'Iterator>::filter') and s.has_field('v1::DecisionVariable', 'id'), R + '/binary_ids/filter-binary', 'T-BRANCHFX', bids.name,
                  'binary_ids does not filter on kind() == Binary (%s)' % kinds, bids.site())
    # ---- the term loop
    loops = [lo for lo in T.for_loops(body) if ctx.S.slice_operand(body, lo[0].args[0]).has_field(INST, 'objective')]
    ctx.check(len(loops) == 1, R + '/loop/one', 'T-LOOPMUST', body.name, 'expected one loop over the objective terms, found %d' % len(loops), body.site())
    if len(loops) != 1: return
    lo = loops[0]; nextc, header, some_bb, none_bb, blocks = lo
    si = ctx.S.slice_operand(body, nextc.args[0])
    ctx.check(si.has_call(r'IntoIterator for &v1::Function>::into_iter'), R + '/loop/term-iterator', 'T-CARRY', body.name, 'loop does not iterate the objective term iterator', body.site(nextc.bb))
    ctx.check(all(body.dominates(header, e) for e in body.strict_ok_exits()), R + '/loop/dominates', 'T-MUSTCALL', body.name, 'term loop does not dominate the Ok-exit', body.site(nextc.bb))
    # keys only through the canonicalising constructors
    aggs = [bi for bi, st in body.stmts() if st['rv']['k'] == 'agg' and re.search(r'sorted_ids::Binary(Ids|IdPair)$', st['rv']['adt'])]
    ctx.check(not aggs, R + '/keys/no-direct-construction', 'T-CARRY', body.name, 'key constructed directly at %s' % [body.site(b) for b in aggs], body.site())
    entry = [c for c in body.calls if c.item == 'entry' and 'BTreeMap' in c.name and c.bb in blocks]
    ctx.check(len(entry) == 1, R + '/loop/one-entry', 'T-LOOPMUST', body.name, 'expected one map.entry(key) in the loop, found %d' % len(entry), body.site())
    for c in entry:
        ks = ctx.S.slice_operand(body, c.args[1])
        conv = r'BinaryIdPair as std::convert::TryFrom<' if qubo else r'BinaryIds as std::convert::From<sorted_ids::SortedIds>>::from'
        ctx.check(ks.has_call(conv) and nextc in ks.call_objs, R + '/keys/from-term-ids', 'T-CARRY', body.name, 'map key is not the canonicalised id set of the term', body.site(c.bb))
    if qubo:
        tf = [c for c in body.calls if c.item == 'try_from' and re.search(r'BinaryIdPair as std::convert::TryFrom', c.name)]
        ctx.check(len(tf) >= 1, R + '/guard/degree/try_from', 'T-GUARD', body.name, 'BinaryIdPair::try_from not called', body.site())
        errflow_calls(ctx, R + '/guard/degree/propagates', body, tf, 'BinaryIdPair::try_from result')
    # accumulate: and_modify(+=c) / or_insert(c)
    acc = [c for c in body.calls if c.item in ('or_insert', 'or_insert_with', 'or_default') and c.bb in blocks]
    ctx.check(len(acc) == 1, R + '/accumulate/or_insert', 'T-LOOPMUST', body.name, 'expected one or_insert in the loop, found %d' % len(acc), body.site())
    addc = False
    for c in acc:
        s = ctx.S.slice_operand(body, c.args[0])
        for cn in s.closures:
            cb = ctx.F.bodies.get(cn)
            if cb is None: continue
            for bi, st in cb.stmts():
                if st['rv']['k'] == 'bin' and st['rv']['op'] == 'Add' and st['rv'].get('ty') == 'f64' and st['dst']['p']: addc = True
        v = ctx.S.slice_operand(body, c.args[1]) if len(c.args) > 1 else None
        ctx.check(v is not None and nextc in v.call_objs, R + '/accumulate/insert-coefficient', 'T-CARRY', body.name, 'inserted value is not the term coefficient', body.site(c.bb))
    ctx.check(addc, R + '/accumulate/add', 'T-BRANCHFX', body.name, 'existing entry is not updated with `+= c`', body.site())
    # ---- zero filter after accumulation, and the only skipped terms are the tiny ones
    cmps = [(bi, st) for bi, st in float_cmp_sites(body) if bi in blocks and any(o['k'] == 'const' and 'EPSILON' in o['v'] for o in st['rv']['ops'])]
    post = []; pre = []
    for bi, st in cmps:
        other = [o for o in st['rv']['ops'] if not (o['k'] == 'const')]
        if not other: continue
        s = ctx.S.slice_operand(body, other[0])
        if not s.has_call(r'f64>::abs$'): continue
        if any(c in s.call_objs for c in acc): post.append((bi, st))
        else: pre.append((bi, st))
    ctx.check(len(post) == 1, R + '/zero/filter-present', 'T-BRANCHFX', body.name, 'expected one |value| < EPSILON test on the accumulated entry, found %d' % len(post), body.site())
    for bi, st in post:
        gs = T.guards_from_local(body, st['dst']['l'], bi)
        op = st['rv']['op']; const_right = st['rv']['ops'][1]['k'] == 'const'
        small_when_true = (op in ('Lt', 'Le')) == const_right
        okk = False
        for g in gs:
            tb = g.true_bb if small_when_true else g.false_bb
            fb = g.false_bb if small_when_true else g.true_bb
            treg = body.reach([tb], stop={header}) ; freg = body.reach([fb], stop={header}) if fb is not None else set()
            rm = [c for c in body.calls if c.item == 'remove' and 'BTreeMap' in c.name and c.bb in treg and c.bb not in freg]
            if rm and T.must_pass(body, tb, {header}, {c.bb for c in rm}):
                ksl = ctx.S.slice_operand(body, rm[0].args[1])
                if nextc in ksl.call_objs: okk = True
        ctx.check(okk, R + '/zero/removes-key', 'T-BRANCHFX', body.name, 'a vanishing entry is not removed from the map under its key', body.site(bi))
    ctx.check(len(pre) == 1, R + '/skip/epsilon-test', 'T-BRANCHFX', body.name, 'expected one |c| vs EPSILON test on the raw coefficient, found %d' % len(pre), body.site())
    via = {c.bb for c in entry}
    for bi, st in pre:
        gs = T.guards_from_local(body, st['dst']['l'], bi)
        op = st['rv']['op']; const_right = st['rv']['ops'][1]['k'] == 'const'
        small_when_true = (op in ('Lt', 'Le')) == const_right
        for g in gs:
            skip = g.true_bb if small_when_true else g.false_bb
            via.add(skip)
            keep = g.false_bb if small_when_true else g.true_bb
            ctx.check(not (body.reach([skip], stop={header}) & {c.bb for c in entry}), R + '/skip/small-are-skipped', 'T-BRANCHFX', body.name, 'tiny coefficients still reach the map', body.site(bi))
    if qubo:
        # constant term: empty id list => added to the offset
        emp = [c for c in body.calls if c.item == 'is_empty' and c.bb in blocks]
        okc = False
        for c in emp:
            for g in T.guards_from_call(body, c):
                treg = body.reach([g.true_bb], stop={header})
                adds = [(bi, st) for bi, st in body.stmts() if bi in treg and st['rv']['k'] == 'bin' and st['rv']['op'] == 'Add' and st['rv'].get('ty') == 'f64']
                if adds and not (treg & {x.bb for x in entry}):
                    okc = True; via.add(g.true_bb)
                    cl = adds[0][1]['dst']['l']
                    # the returned offset is that accumulator
                    rets = [st for bi, k, st in body.ret_assignments() if k == 'ok']
                    for r in rets:
                        s = ctx.S.slice_operand(body, r['rv']['ops'][0])
                        ctx.check(cl in s.locals, R + '/constant/returned', 'T-CARRY', body.name, 'the accumulated constant is not part of the result', body.site())
                        # ... as a plain copy (no arithmetic between the accumulator and the result)
                        plain = False
                        op0 = r['rv']['ops'][0]
                        if op0['k'] in ('copy', 'move'):
                            for k2, b2, d2 in body.defs_of(op0['pl']['l']):
                                if k2 == 'stmt' and d2['rv']['k'] == 'agg' and d2['rv']['adt'] == 'tuple':
                                    for o in d2['rv']['ops']:
                                        if o['k'] in ('copy', 'move') and body.locals[o['pl']['l']] == 'f64':
                                            src = o['pl']['l']
                                            chain = {src}
                                            for _ in range(4):
                                                for k3, b3, d3 in body.defs_of(src):
                                                    if k3 == 'stmt' and d3['rv']['k'] == 'use' and d3['rv']['ops'][0]['k'] in ('copy', 'move'):
                                                        src = d3['rv']['ops'][0]['pl']['l']; chain.add(src)
                                            plain = cl in chain
                        ctx.check(plain, R + '/constant/returned-unchanged', 'T-CARRY', body.name, 'the returned offset is not the accumulator itself', body.site())
        ctx.check(okc, R + '/constant/empty-ids', 'T-BRANCHFX', body.name, 'terms with no ids are not accumulated into the offset', body.site())
    ctx.counters['cfg_paths'] += 1
    ctx.check(T.must_pass(body, some_bb, {header}, via), R + '/loop/every-term', 'T-LOOPMUST', body.name, 'a term can bypass the map without being tiny', body.site(nextc.bb))
    # result is the accumulated map
    rets = [st for bi, k, st in body.ret_assignments() if k == 'ok']
    for r in rets:
        s = ctx.S.slice_operand(body, r['rv']['ops'][0])
        ctx.check(any(c in s.call_objs for c in entry), R + '/result/is-the-map', 'T-CARRY', body.name, 'returned value is not the accumulated map', body.site())


def pair_rules(ctx):
    R = 'C11.pair'
    b = ctx.method(R + '/anchor', 'sorted_ids::BinaryIdPair', 'try_from', trait='TryFrom', targs=['std::vec::Vec<u64>'])
    if b is None: return
    mustcall(ctx, R + '/sorted', b, lambda c: c.item in ('sort_unstable', 'sort'), 'ids.sort()', propagate=False)
    mustcall(ctx, R + '/dedup', b, lambda c: c.item == 'dedup', 'ids.dedup()', propagate=False)
    aggs = find_aggregates(b, 'sorted_ids::BinaryIdPair')
    ctx.check(len(aggs) >= 2, R + '/arms', 'T-BRANCHFX', b.name, 'expected pair constructions for one and two ids', b.site())
    # length tests: Ok only under len in {1,2}
    lens = set()
    for bi, st in b.stmts():
        if st['rv']['k'] == 'bin' and st['rv']['op'] == 'Eq':
            for o in st['rv']['ops']:
                if o['k'] in ('copy', 'move'):
                    for k, b2, d in b.defs_of(o['pl']['l']):
                        if k == 'stmt' and d['rv']['k'] == 'use' and d['rv']['ops'][0]['k'] == 'const':
                            m = re.match(r'^(\d+)_usize$', d['rv']['ops'][0]['v'])
                            if m: lens.add(int(m.group(1)))
    ctx.check(lens == {1, 2}, R + '/lengths', 'T-TABLE', b.name, 'accepted lengths are %s, expected {1, 2}' % sorted(lens), b.site())
    ctx.check(bool(b.err_exits()), R + '/other-lengths-error', 'T-TABLE', b.name, 'no Err-exit for other lengths', b.site())
    # crate-wide: the pair / set keys are only constructed inside their own impls
    outside = []
    for fb in ctx.F.bodies.values():
        for bi, st in fb.stmts():
            if st['rv']['k'] == 'agg' and re.search(r'sorted_ids::Binary(Ids|IdPair)$', st['rv']['adt']):
                if not re.search(r'sorted_ids::Binary(Ids|IdPair)', fb.hdr.get('self') or ''):
                    outside.append('%s@%s' % (fb.name, fb.site(bi)))
    ctx.check(not outside, R + '/constructed-only-in-impls', 'T-CARRY', 'crate', 'keys constructed outside their impls: %s' % outside[:4])
    for src in ('sorted_ids::SortedIds', 'sorted_ids::BinaryIds'):
        fb = ctx.method(R + '/anchor/' + src, 'sorted_ids::BinaryIdPair', 'try_from', trait='TryFrom', targs=[src])
        if fb is not None:
            s = ctx.S.backslice(fb, [0])
            ctx.check(s.has_call(r'BinaryIdPair as std::convert::TryFrom<std::vec::Vec<u64>>>::try_from') and 1 in s.params, R + '/delegates/' + src.split('::')[-1], 'T-DELEG', fb.name,
                      'does not delegate to TryFrom<Vec<u64>>', fb.site())
    fb = ctx.method(R + '/anchor/BinaryIds-from', 'sorted_ids::BinaryIds', 'from', trait='From', targs=['sorted_ids::SortedIds'])
    if fb is not None:
        s = ctx.S.backslice(fb, [0])
        ctx.check(1 in s.params and s.has_call(r'collect::<std::collections::BTreeSet<u64>>'), R + '/BinaryIds-from-set', 'T-CARRY', fb.name, 'BinaryIds::from does not collect the ids into a set', fb.site())


def check(ctx):
    export_rules(ctx, 'as_pubo_format', 'BinaryIds', False)
    export_rules(ctx, 'as_qubo_format', 'BinaryIdPair', True)
    pair_rules(ctx)
    ctx.floor('C11.as_pubo_format', 18); ctx.floor('C11.as_qubo_format', 22); ctx.floor('C11.pair', 9)
