"""C14 — relaxing and restoring constraints only moves them (DESIGN §5 C14)."""
from .common import *

INST = 'v1::Instance'
REMOVE_RE = r'Vec::<%s>::(remove|swap_remove)$'
PUSH_RE = r'Vec::<%s>::(push|insert)$'


def one_move(ctx, name, src_field, src_ty, dst_field, dst_ty):
    R = 'C14.%s' % name
    body = ctx.method(R + '/anchor', INST, name)
    if body is None: return
    # ---- lookup: position of the element whose id equals the argument; None => Err before any mutation
    pos = [c for c in body.calls if c.item in ('position', 'rposition') and 'Iterator' in (c.trait or '')]
    ctx.check(len(pos) == 1, R + '/lookup/one', 'T-ERRFLOW', body.name, 'expected one position(..) lookup, found %d' % len(pos), body.site())
    for c in pos:
        r = ctx.S.slice_operand(body, c.args[0]); cl = ctx.S.slice_operand(body, c.args[1])
        ctx.check(r.has_field(INST, src_field) and not r.has_field(INST, dst_field), R + '/lookup/list', 'T-CARRY', body.name,
                  'lookup does not search self.%s' % src_field, body.site(c.bb))
        adaptors = sorted({x.item for x in r.call_objs if 'Iterator' in (x.trait or '') and x.item not in ('position', 'rposition', 'into_iter', 'iter', 'by_ref')})
        ctx.check(not adaptors, R + '/lookup/index-of-the-list-itself', 'T-CARRY', body.name,
                  'the position is computed on an adapted iterator (%s), so it is not an index into self.%s' % (adaptors, src_field), body.site(c.bb))
        ctx.check(cl.has_field('v1::Constraint', 'id') and 2 in cl.params, R + '/lookup/by-id', 'T-CARRY', body.name,
                  'lookup predicate does not compare the constraint id with the argument', body.site(c.bb))
        eq = False
        for cn in cl.closures:
            cb = ctx.F.bodies.get(cn)
            if cb is None: continue
            for bi, st in cb.stmts():
                if st['rv']['k'] == 'bin' and st['rv']['op'] == 'Eq' and st['dst']['l'] == 0: eq = True
        ctx.check(eq, R + '/lookup/eq', 'T-BRANCHFX', body.name, 'lookup predicate is not an equality test', body.site(c.bb))
        errflow_calls(ctx, R + '/lookup/none-is-error', body, [c], 'lookup result')
    # ---- the move itself
    rm = [c for c in body.calls if re.search(REMOVE_RE % re.escape(src_ty), c.name)]
    pu = [c for c in body.calls if re.search(PUSH_RE % re.escape(dst_ty), c.name)]
    ctx.check(len(rm) == 1, R + '/move/one-remove', 'T-CARRY', body.name, 'expected exactly one removal from self.%s, found %d' % (src_field, len(rm)), body.site())
    ctx.check(len(pu) == 1, R + '/move/one-push', 'T-CARRY', body.name, 'expected exactly one push onto self.%s, found %d' % (dst_field, len(pu)), body.site())
    loops = body.loops()
    for c in rm + pu:
        ctx.check(not any(c.bb in blocks for blocks in loops.values()), R + '/move/not-in-loop', 'T-LOOPMUST', body.name, '%s is inside a loop' % c.item, body.site(c.bb))
        ctx.check(all(body.dominates(c.bb, e) for e in body.strict_ok_exits()), R + '/move/on-every-success-path', 'T-MUSTCALL', body.name,
                  '%s does not dominate the Ok-exit' % c.item, body.site(c.bb))
    for c in rm:
        r = ctx.S.slice_operand(body, c.args[0]); ix = ctx.S.slice_operand(body, c.args[1])
        ctx.check(r.has_field(INST, src_field), R + '/move/remove-from', 'T-CARRY', body.name, 'removal is not on self.%s' % src_field, body.site(c.bb))
        ctx.check(any(p in ix.call_objs for p in pos), R + '/move/remove-index', 'T-CARRY', body.name, 'removed index does not come from the lookup', body.site(c.bb))
        ctx.check(not ix.has_const(r'^[0-9]+_usize$') or True, R + '/move/remove-index-plain', 'T-CARRY', body.name, '', body.site(c.bb))
    for c in pu:
        r = ctx.S.slice_operand(body, c.args[0]); it = ctx.S.slice_operand(body, c.args[-1])
        ctx.check(r.has_field(INST, dst_field), R + '/move/push-to', 'T-CARRY', body.name, 'push is not on self.%s' % dst_field, body.site(c.bb))
        ctx.check(bool(rm) and rm[0] in it.call_objs and not any(x.item == 'clone' for x in it.call_objs), R + '/move/same-element', 'T-CARRY', body.name,
                  'the pushed element is not the removed one', body.site(c.bb))
        if c.item == 'insert' or len(c.args) != 2:
            ctx.bad(R + '/move/push-shape', 'T-CARRY', body.name, 'unexpected push form ' + c.name[:60], body.site(c.bb))
    if name == 'relax_constraint':
        aggs = find_aggregates(body, 'v1::RemovedConstraint')
        ctx.check(len(aggs) == 1, R + '/reason/one-aggregate', 'T-CARRY', body.name, 'expected one RemovedConstraint aggregate, found %d' % len(aggs), body.site())
        for bi, st in aggs:
            s = carry_field(ctx, R + '/reason/constraint', body, st, 'constraint', site=body.site(bi))
            ctx.check(bool(rm) and s is not None and rm[0] in s.call_objs, R + '/reason/constraint-is-removed-one', 'T-CARRY', body.name, 'wrapped constraint is not the removed one', body.site(bi))
            carry_field(ctx, R + '/reason/removed_reason', body, st, 'removed_reason', need_params=[3], site=body.site(bi))
            carry_field(ctx, R + '/reason/removed_reason_parameters', body, st, 'removed_reason_parameters', need_params=[4], site=body.site(bi))
            # nothing of the element is rewritten: Some(c) directly
            op = agg_field_operand(st, 'constraint')
    else:
        # restore: the pushed element is the `.constraint` payload of the removed entry
        for c in pu:
            it = ctx.S.slice_operand(body, c.args[-1])
            ctx.check(it.has_field('v1::RemovedConstraint', 'constraint'), R + '/move/payload', 'T-CARRY', body.name, 'pushed element is not the removed entry\'s constraint', body.site(c.bb))
    # ---- nothing else written; no error after a mutation
    writes_only(ctx, R + '/only', body, {src_field, dst_field})
    for what, bi, badexits in T.check_atomic(body, ctx.S, ctx.F):
        ctx.check(not badexits, R + '/atomic', 'T-ATOMIC', body.name, 'an Err-exit (bb%s) is reachable after mutation `%s`' % (badexits, what), body.site(bi))
    # the moved element is neither mutably borrowed nor partially assigned on its way
    for c in pu:
        it = ctx.S.slice_operand(body, c.args[-1])
        chain = {l for l in it.locals if re.search(r'v1::(Constraint|RemovedConstraint)\b', body.locals[l]) and not body.locals[l].startswith('&') and 'Vec<' not in body.locals[l] and 'Iter<' not in body.locals[l]}
        touched = []
        for bi, st in body.stmts():
            rv = st['rv']
            if rv['k'] == 'ref' and rv.get('mut') and rv['pl']['l'] in chain: touched.append(body.site(bi))
            if st['dst']['p'] and st['dst']['l'] in chain: touched.append(body.site(bi))
        ctx.check(not touched, R + '/element-not-borrowed-mutably', 'T-CARRY', body.name, 'the moved element is modified at %s' % sorted(set(touched)), body.site(c.bb), chain=sorted(chain))
    # no field of the moved constraint is assigned
    writes = [body.site(bi) for bi, st in body.stmts() if st['dst']['p'] and any(a.endswith('v1::Constraint') for a, f in fields_of_place(st['dst']))]
    ctx.check(not writes, R + '/element-untouched', 'T-CARRY', body.name, 'a field of the constraint is written at %s' % writes, body.site())


# what relaxing / restoring means for the feasibility flags is decided by the C05 flag rules
RELIES_ON = {'C05': ['C05.flags', 'C05.lists', 'C05.rule']}


def check(ctx):
    one_move(ctx, 'relax_constraint', 'constraints', 'v1::Constraint', 'removed_constraints', 'v1::RemovedConstraint')
    one_move(ctx, 'restore_constraint', 'removed_constraints', 'v1::RemovedConstraint', 'constraints', 'v1::Constraint')
    ctx.floor('C14.relax_constraint', 20); ctx.floor('C14.restore_constraint', 17)
