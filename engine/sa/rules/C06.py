"""C06 — sample-set evaluation agrees with per-sample evaluation (DESIGN §5 C06).

Written against the normal form (VIEW = 'norm'): helpers that do not exist on the pinned tree are inlined and
`iter().map(..).collect()` / `find` / `extend(filter(..))` chains are explicit loops, so every rule below speaks
about loops, the items they visit and what is inserted / pushed for an item, not about adaptors or closures."""
from .common import *
from .feas import (check_feasibility_rule, origins, PathEval, const_operand, absent_inserts, error_propagates, result_kind,
                   canon, whole, is_const, item_calls, enum_tests, generic_param,
                   dominates_ok, dominates_sem, must_pass_sem, loop_must2 as loop_must, returned_struct, field_is_none, with_renormalised, value_sources)
from .C05 import inherited_from, missing_is_error

INST = 'v1::Instance'; DV = 'v1::DecisionVariable'; CON = 'v1::Constraint'; RC = 'v1::RemovedConstraint'
SC = 'v1::SampledConstraint'; EC = 'v1::EvaluatedConstraint'; SS = 'v1::SampleSet'; SDV = 'v1::SampledDecisionVariable'
SVE = 'v1::sampled_values::SampledValuesEntry'
TOL = 1e-6
VIEW = 'norm'
CONV_DV = re.compile(r"TryFrom<&('\w+ )?v1::DecisionVariable>>::try_from|TryInto<bound::Bound>>::try_into")


def root_local(body, operand):
    fs, root, calls = T.access_path(body, operand, transparent=T.TRANSPARENT_NOCLONE)
    return root


def restricting(ctx, body, lo):
    si = ctx.S.slice_operand(body, lo[0].args[0])
    return sorted({x.item for x in si.call_objs if x.item in RESTRICTING and 'Iterator' in (x.trait or '')})


def at_most_once(body, calls, header):
    """none of `calls` can be reached from another one (or itself) without coming round the loop"""
    return not [c for c in calls if c.target >= 0 and any(q.bb in body.reach([c.target], stop={header}) for q in calls)]


def infeasible_only(ctx, body, c, fc, outer):
    """`flags.insert(key, value)` (call c) inside the loop `outer`: is it executed exactly for the pairs (id, ok) of this
    iteration's is_feasible result with ok == false, with key = that id and value = false?   Idioms:
        for (id, ok) in r { if !ok { flags.insert(id, false) } }
        flags.extend(r.into_iter().filter(|(_, ok)| !ok))                      (value = the pair's own `ok`, false on that path)
        for (id, ok) in r { if ok { continue } flags.insert(id, false) }
    -> dict(precise, false, only) or None"""
    nextc, header, some_bb, none_bb, blocks = outer
    inner = [l for l in T.for_loops(body) if c.bb in l[4] and l[1] != header and set(l[4]) < set(blocks)]
    inner = [il for il in inner if any(x in ctx.S.slice_operand(body, il[0].args[0]).call_objs for x in fc)]
    branches = 0          # branches of this function on the verdict of the pair being visited
    for il in inner:
        item = il[0].dst['l']
        kroot, kfs = canon(body, c.args[1])
        for l, ty in enumerate(body.locals):
            if re.sub(r"&('\w+ )?", '', ty).strip() != 'bool' or l <= body.argc: continue       # `ok` bound by value or by reference
            root, fs = canon(body, whole(l))
            if root != item or not fs or fs[-1][1] != '1' or fs[-1][0] != 'tuple': continue
            for sb, neg in T.bool_flow(body, l):
                if sb not in il[4]: continue
                tt, ft = T.switch_sides(body, sb, neg)
                if ft is None or tt == ft: continue
                branches += 1
                if c.bb not in body.edge_region(sb, ft): continue
                every = must_pass_sem(ctx, body, ft, {il[1]}, {c.bb})
                vfalse = is_const(body, c.args[2], 'false') or canon(body, c.args[2]) == (root, fs)
                keyok = kroot == item and kfs == fs[:-1] + (('tuple', '0'),)
                return dict(precise=True, false=vfalse, only=every and keyok, why='')
    if branches:
        # the verdict is tested here, but the update is not confined to the `false` side
        return dict(precise=True, false=is_const(body, c.args[2], 'false'), only=False, why='')
    for il in inner:
        if is_const(body, c.args[2], 'false') and il[0].dst['l'] in ctx.S.slice_operand(body, c.args[1]).locals:
            return dict(precise=False, false=True, only=None, why='the `!ok` test is not a branch of this function (filter closure of an iterator bound to a name first: %s)' % restricting(ctx, body, il))
    return None


def evaluate_samples_rules(ctx, body):
    R = 'C06.samples'
    sv = returned_struct(ctx, body, SS)
    if sv is None:
        ctx.bad(R + '/aggregate', 'ANCHOR', body.name, 'the SampleSet returned on success is not one recognisable value'); return
    sbi, ss = sv.where, sv.st()
    cover(ctx, 'C06.cover/evaluate_samples', body, INST, exempt=('description', 'parameters', 'constraint_hints'))
    # ---- the two flag maps
    relaxed_l = root_local(body, agg_field_operand(ss, 'feasible_relaxed'))
    feas_l = root_local(body, agg_field_operand(ss, 'feasible'))
    ctx.check(relaxed_l is not None and feas_l is not None and relaxed_l != feas_l and 'HashMap<u64, bool>' in body.locals[relaxed_l] and 'HashMap<u64, bool>' in body.locals[feas_l],
              R + '/flags/two-maps', 'T-CARRY', body.name, 'SampleSet.feasible_relaxed / feasible are not two distinct maps', body.site(sbi))
    if relaxed_l is None or feas_l is None: return
    flag_ins = [c for c in body.calls if c.item == 'insert' and re.search(r'HashMap::<(u64, bool|K, V)>::insert', c.name) and len(c.args) == 3 and root_local(body, c.args[0]) in (relaxed_l, feas_l)]
    # keys: starts empty and gets (id, true) for every id of samples.ids()
    #   `ids.iter().map(|id| (*id, true)).collect()`  ==  `for id in ids { m.insert(id, true) }`   (same loop in the normal form)
    init_ins = []
    for lo in T.for_loops(body):
        its = ctx.S.slice_operand(body, lo[0].args[0])
        if not (its.has_call(r'impl v1::Samples>::ids') and 2 in its.params) or restricting(ctx, body, lo): continue
        for c in flag_ins:
            if c.bb in lo[4] and root_local(body, c.args[0]) == relaxed_l and is_const(body, c.args[2], 'true') \
                    and lo[0].dst['l'] in ctx.S.slice_operand(body, c.args[1]).locals and must_pass_sem(ctx, body, lo[2], {lo[1]}, {c.bb}):
                init_ins.append(c)
    fresh = any(k == 'call' and re.search(r'HashMap::<.*>::(new|with_capacity)$|as std::default::Default>::default$', d['r'] or d['f']) for k, bi, d in body.defs_of(relaxed_l))
    ctx.check(bool(init_ins) and fresh, 'C06.keys/relaxed-from-sample-ids', 'T-CARRY', body.name, 'feasible_relaxed is not initialised as {id: true for id in samples.ids()}', body.site())
    fdefs = [d for d in body.defs_of(feas_l) if d[0] == 'call']
    clone = [c for c in body.calls if c.item == 'clone' and c.dst['l'] == feas_l and root_local(body, c.args[0]) == relaxed_l]
    ctx.check(len(clone) == 1 and len(fdefs) == 1, 'C06.keys/feasible-is-clone-of-relaxed', 'T-CARRY', body.name, 'feasible is not a clone of feasible_relaxed', body.site())
    # ---- the two constraint loops
    def pushes_sc(c):
        if c.item != 'push' or not re.search(r'Vec::<(v1::SampledConstraint|T)>::push', c.name): return False
        r = root_local(body, c.args[0])
        return r is not None and 'v1::SampledConstraint' in body.locals[r]
    pushes = [c for c in body.calls if pushes_sc(c)]
    loops = {}
    for field, ty, target in (('constraints', CON, relaxed_l), ('removed_constraints', RC, feas_l)):
        ls = [l for l in loops_over(ctx, body, INST, field) if item_calls(body, l, ty, 'evaluate_samples')]
        ctx.check(len(ls) >= 1, R + '/%s/loop' % field, 'T-LOOPMUST', body.name, 'no loop over self.%s that calls evaluate_samples on its items' % field, body.site())
        if not ls: continue
        lo = ls[0]; loops[field] = lo
        nextc, header, some_bb, none_bb, blocks = lo
        ev = item_calls(body, lo, ty, 'evaluate_samples')
        for c in ev:
            ctx.check(nextc.dst['l'] in ctx.S.slice_operand(body, c.args[0]).locals and root_local(body, c.args[1]) == 2, R + '/%s/evaluate-item' % field, 'T-CARRY', body.name, 'evaluate_samples is not applied to (loop item, samples)', body.site(c.bb))
            error_propagates(ctx, R + '/%s/error-propagates' % field, body, [c], 'constraint evaluation')
        loop_must(ctx, R + '/%s/evaluate-every' % field, body, lo, lambda c: c in ev, 'evaluate_samples')
        ps = [c for c in pushes if c.bb in blocks]
        ctx.check(bool(ps) and at_most_once(body, ps, header), R + '/%s/one-push' % field, 'T-LOOPMUST', body.name, 'a sampled constraint is not pushed exactly once per iteration', body.site(nextc.bb))
        loop_must(ctx, R + '/%s/push-every' % field, body, lo, lambda c: c in ps, 'constraints.push')
        for c in ps:
            s = ctx.S.slice_operand(body, c.args[1])
            ctx.check(any(e in s.call_objs for e in ev), R + '/%s/push-is-result' % field, 'T-CARRY', body.name, 'pushed value is not the evaluation result', body.site(c.bb))
        ctx.check(dominates_ok(ctx, body, header), R + '/%s/dominates' % field, 'T-MUSTCALL', body.name, 'loop does not dominate the Ok-exit', body.site(nextc.bb))
        # feasibility of this list goes into the right map, with the tolerance; only `false` is written, only for infeasible samples
        fc = [c for c in body.calls if c.bb in blocks and c.item == 'is_feasible' and c.path.endswith('SampledConstraint>::is_feasible')]
        ctx.check(bool(fc), R + '/%s/is_feasible' % field, 'T-LOOPMUST', body.name, 'no is_feasible test in the loop', body.site(nextc.bb))
        for c in fc:
            const_operand(ctx, R + '/%s/tolerance' % field, body, c, 1, TOL, 'feasibility tolerance', tol=1e-9)
            rs = ctx.S.slice_operand(body, c.args[0])
            ctx.check(any(e in rs.call_objs for e in ev), R + '/%s/tests-this-iteration' % field, 'T-CARRY', body.name, 'is_feasible is not applied to this iteration\'s result', body.site(c.bb))
            error_propagates(ctx, R + '/%s/is_feasible-error' % field, body, [c], 'is_feasible')
            loop_must(ctx, R + '/%s/is_feasible-every' % field, body, lo, lambda x: x is c, 'is_feasible')
        ins = [c for c in flag_ins if c.bb in blocks]
        ctx.check(bool(ins), R + '/%s/one-insert' % field, 'T-LOOPMUST', body.name, 'the flags of infeasible samples are not updated in the loop', body.site(nextc.bb))
        for c in ins:
            ctx.check(root_local(body, c.args[0]) == target, R + '/%s/insert-target' % field, 'T-CARRY', body.name,
                      'infeasibility of self.%s is recorded in the wrong map' % field, body.site(c.bb))
            res = infeasible_only(ctx, body, c, fc, lo)
            ctx.check(res is not None and res['false'], R + '/%s/insert-false' % field, 'T-CONST', body.name, 'flag is overwritten with something other than `false`', body.site(c.bb))
            rule = R + '/%s/insert-only-infeasible' % field
            if res is not None and res['precise']:
                ctx.check(res['only'], rule, 'T-BRANCHFX', body.name, 'the flag of a sample is not cleared exactly when that sample is infeasible', body.site(c.bb))
            elif res is not None:
                ctx.undecided(rule, 'T-BRANCHFX', body.site(c.bb), res['why']); ctx.ok(rule + '~slice', 'T-BRANCHFX', body.site(c.bb))
            else:
                ctx.bad(rule, 'T-BRANCHFX', body.name, 'the flag of a sample is not cleared exactly when that sample is infeasible', body.site(c.bb))
    stray_p = [c for c in pushes if not any(c.bb in lo[4] for lo in loops.values())]
    stray_i = [c for c in flag_ins if c not in init_ins and not any(c.bb in lo[4] for lo in loops.values())]
    ctx.check(bool(pushes) and not stray_p and not stray_i, R + '/two-lists', 'T-LOOPMUST', body.name, 'pushes / flag updates outside the two evaluation loops: %d / %d' % (len(stray_p), len(stray_i)), body.site())
    if 'constraints' in loops and clone:
        lo = loops['constraints']
        ctx.check(clone[0].bb not in lo[4] and dominates_sem(ctx, body, lo[1], clone[0].bb), 'C06.keys/feasible-cloned-after-active-loop', 'T-BRANCHFX', body.name, 'feasible is not cloned after the active-constraint loop', body.site(clone[0].bb))
        if 'removed_constraints' in loops:
            ctx.check(dominates_sem(ctx, body, clone[0].bb, loops['removed_constraints'][1]), 'C06.keys/feasible-cloned-before-removed-loop', 'T-BRANCHFX', body.name, 'feasible is cloned after the removed loop', body.site(clone[0].bb))
    cs = carry_field(ctx, R + '/constraints-field', body, ss, 'constraints', need_fields=[(INST, 'constraints'), (INST, 'removed_constraints')], site=body.site(sbi))
    if cs is not None:
        ctx.check(all(p in cs.call_objs for p in pushes), R + '/constraints-field-is-the-list', 'T-CARRY', body.name, 'SampleSet.constraints is not the list both loops push to', body.site(sbi))
    # ---- objective
    ex = T.expr(body, agg_field_operand(ss, 'objectives'), depth=14)
    # ... evaluated on the function's own `samples` parameter, not on the clone that is completed further down (seed C06-19; `clone` is not transparent here)
    def on_given_samples(x):
        oc = [c for c in body.calls if len(x) > 4 and c.bb == x[4]]
        return bool(oc) and root_local(body, oc[0].args[1]) == 2 and not T.access_path(body, oc[0].args[1], transparent=T.TRANSPARENT_NOCLONE)[0]
    okobj = any(x[0] == 'call' and x[1] == 'evaluate_samples' and 'v1::Function as evaluate::Evaluate' in x[2] and T.expr_has_call(x[3][0], 'objective') and on_given_samples(x) for x in T.expr_walk(ex))
    ctx.check(okobj and ex[0] == 'agg' and ex[1].endswith('Option::Some') and [f for a, f in T.own_fields(ex[2][0]) if a == 'tuple'][-1:] == ['0'], R + '/objective', 'T-CARRY', body.name,
              'SampleSet.objectives is not Some(`.0` of self.objective().evaluate_samples(samples))', body.site(sbi))
    error_propagates(ctx, R + '/objective/error', body, [c for c in body.calls if c.item == 'evaluate_samples' and 'v1::Function as evaluate::Evaluate' in c.name], 'objective evaluation')
    carry_field(ctx, R + '/sense', body, ss, 'sense', need_fields=[(INST, 'sense')], site=body.site(sbi))
    ctx.check(T.access_path(body, agg_field_operand(ss, 'sense'))[0] == [(INST, 'sense')], R + '/sense-direct', 'T-CARRY', body.name, 'SampleSet.sense is not self.sense', body.site(sbi))
    # ---- decision variable values: dependencies evaluated and omitted variables completed for every state
    dvs = carry_field(ctx, R + '/decision_variables', body, ss, 'decision_variables', need_fields=[(INST, 'decision_variables')], need_calls=[r'impl v1::Samples>::transpose'], need_params=[2], site=body.site(sbi))
    # the loop that completes every state of (a copy of) the samples: over `samples.states_mut()` (helper iterator) or over
    # `&mut samples.entries` with the entry's own `state` -- recognised by what it does: it walks the entries of a Samples local and
    # hands (part of) its item to eval_dependencies as the state
    def samples_locals(lo):
        sl_ = ctx.S.slice_operand(body, lo[0].args[0])
        return {l for l in sl_.locals if l > body.argc and re.fullmatch(r'v1::Samples', body.locals[l])}
    sl = []
    for l in T.for_loops(body):
        its = ctx.S.slice_operand(body, l[0].args[0])
        if not (its.has_call(r'impl v1::Samples>::states_mut') or its.has_field('v1::Samples', 'entries')) or not samples_locals(l): continue
        if any(c.bb in l[4] and c.item == 'eval_dependencies' and len(c.args) == 2 and l[0].dst['l'] in ctx.S.slice_operand(body, c.args[1]).locals for c in body.calls): sl.append(l)
    sl.sort(key=lambda l: -len(l[4]))
    ctx.check(len(sl) >= 1 and not restricting(ctx, body, sl[0]), 'C06.sibling/states-loop', 'T-LOOPMUST', body.name, 'no loop over all states of the samples (samples.states_mut()) that evaluates the dependencies', body.site())
    tr = [c for c in body.calls if c.item == 'transpose' and c.path.endswith('Samples>::transpose')]
    for lo in sl[:1]:
        nextc, header, some_bb, none_bb, blocks = lo
        ed = [c for c in body.calls if c.bb in blocks and c.item == 'eval_dependencies']
        ctx.check(len(ed) >= 1, 'C06.sibling/eval_dependencies', 'T-LOOPMUST', body.name, 'eval_dependencies is not applied inside the state loop', body.site(nextc.bb))
        for c in ed[:1]:
            ctx.check(ctx.S.slice_operand(body, c.args[0]).has_field(INST, 'decision_variable_dependency') and nextc.dst['l'] in ctx.S.slice_operand(body, c.args[1]).locals,
                      'C06.sibling/eval_dependencies/args', 'T-CARRY', body.name, 'not (dependency map, this state)', body.site(c.bb))
            error_propagates(ctx, 'C06.sibling/eval_dependencies/error', body, [c], 'eval_dependencies')
            loop_must(ctx, 'C06.sibling/eval_dependencies/every-state', body, lo, lambda x: x is c, 'eval_dependencies')
        # completion with nearest_to_zero, only where the state has no value (sibling of Instance::evaluate); any "insert if absent" idiom
        okfill = False
        for a in absent_inserts(ctx, body, blocks):
            c = a['call']
            vex = T.expr(body, a['value'], depth=14)
            inner = [l for l in loops_over(ctx, body, INST, 'decision_variables') if c.bb in l[4] and set(l[4]) < set(blocks)]
            keyed = (DV, 'id') in T.access_path(body, a['key'])[0] and nextc.dst['l'] in ctx.S.slice_operand(body, a['map']).locals
            if a['how'] == 'contains_key': keyed = keyed and (DV, 'id') in T.access_path(body, a['test'].args[1])[0]
            if T.expr_has_call(vex, 'nearest_to_zero') and any(CONV_DV.search(x[2]) for x in T.expr_calls(vex)) and inner and keyed:
                il = inner[0]
                okfill = il[0].dst['l'] in ctx.S.slice_operand(body, a['value']).locals and il[0].dst['l'] in ctx.S.slice_operand(body, a['key']).locals \
                         and must_pass_sem(ctx, body, some_bb, {header}, {il[1]}) and (not ed or dominates_sem(ctx, body, ed[0].bb, il[1])) and not restricting(ctx, body, il)
        # ... and present values are not touched by the completion (sibling of C05.state/fill/present-values-untouched)
        fills = [a['call'] for a in absent_inserts(ctx, body, blocks)]
        inner_blocks = set()
        for l in loops_over(ctx, body, INST, 'decision_variables'):
            if any(f.bb in l[4] for f in fills) and set(l[4]) < set(blocks): inner_blocks |= set(l[4])
        others = [x for x in body.calls if x.bb in inner_blocks and x not in fills and x.item != 'entry' and nextc.dst['l'] in ctx.S.slice_operand(body, x.args[0]).locals
                  and (T.MUT_CALL.search(x.name) or re.search(r'OccupiedEntry(::)?<.*>::(insert|get_mut|into_mut|remove|remove_entry)', x.name) or re.search(r'HashMap::<.*>::(get_mut|values_mut|iter_mut)', x.name))] if inner_blocks else []
        ctx.check(not others, 'C06.sibling/fill-present-values-untouched', 'T-SIBLING', body.name, 'the completion loop also writes entries the state already has: %s' % [x.name[:70] for x in others][:2], body.site(others[0].bb) if others else body.site(nextc.bb))
        ctx.check(okfill, 'C06.sibling/fill-nearest_to_zero', 'T-SIBLING', body.name,
                  'omitted irrelevant variables are not completed with Bound::nearest_to_zero for every state, after its dependencies (Instance::evaluate does this)', body.site(nextc.bb))
        # a bound check, if there is one, looks at the states AS SUBMITTED (Instance::evaluate checks before anything is evaluated or completed):
        # no check_bound that can follow eval_dependencies / the completion within an iteration (seed C06-9: dependent values checked, an Err evaluate does not have)
        cbs = [c for c in body.calls if c.item == 'check_bound' and c.path.endswith('Instance>::check_bound')]
        late = [c for c in cbs for e in ed + [a['call'] for a in absent_inserts(ctx, body, blocks)] if e.target >= 0 and c.bb in body.reach([e.target], stop={header})]
        after_loop = [c for c in cbs if c.bb not in blocks and dominates_sem(ctx, body, header, c.bb) and root_local(body, c.args[1]) in samples_locals(lo)]
        ctx.check(not late and not after_loop, 'C06.sibling/bound-check-on-submitted-state', 'T-SIBLING', body.name, 'check_bound is applied to a state after its dependent / default values were written (Instance::evaluate checks the state as given)', body.site((late + after_loop)[0].bb) if late or after_loop else body.site(nextc.bb))
        for c in tr:
            ctx.check(dominates_sem(ctx, body, none_bb, c.bb) and c.bb not in blocks, 'C06.sibling/transpose-after-completion', 'T-MUSTCALL', body.name, 'values are transposed before the states are completed', body.site(c.bb))
            ctx.check(root_local(body, c.args[0]) in samples_locals(lo), 'C06.sibling/transpose-same-samples', 'T-CARRY', body.name, 'transpose is applied to other samples than the completed ones', body.site(c.bb))
    ctx.check(len(tr) == 1, 'C06.sibling/transpose', 'T-MUSTCALL', body.name, 'expected one transpose, found %d' % len(tr), body.site())
    # per-variable samples: transposed.remove(&d.id) with the variable itself (the aggregate sits in the loop of the normal form,
    # or in a closure the normal form did not splice)
    gone = getattr(ctx.F, 'inlined_closures', ())
    holders = [body] + [ctx.F.bodies[cn] for cn in sorted(dvs.closures if dvs is not None else ()) if cn in ctx.F.bodies and ctx.F.bodies[cn].parent == body.name and cn not in gone]
    found = 0
    for cb in holders:
        for bi, st in find_aggregates(cb, SDV):
            found += 1
            dvx = T.expr(cb, agg_field_operand(st, 'decision_variable'))
            smx = T.expr(cb, agg_field_operand(st, 'samples'), depth=12)
            rm = [x for x in T.expr_walk(smx) if x[0] == 'call' and x[1] in ('remove', 'get')]
            okk = bool(rm) and (DV, 'id') in T.expr_fields(rm[0][3][1]) and dvx[0] == 'agg' and dvx[1].endswith('Option::Some')
            if okk and cb is body:
                # both the clone and the key come from the variable of this iteration
                il = [l for l in loops_over(ctx, body, INST, 'decision_variables') if bi in l[4]]
                okk = bool(il) and all(il[-1][0].dst['l'] in ctx.S.slice_operand(body, agg_field_operand(st, f)).locals for f in ('decision_variable', 'samples'))
            ctx.check(okk, R + '/decision_variables/keyed-by-own-id', 'T-CARRY', cb.name, 'samples of a variable are not looked up under its own id', cb.site(bi))
    if not found: ctx.bad(R + '/decision_variables/keyed-by-own-id', 'T-CARRY', body.name, 'no SampledDecisionVariable is built', body.site())


KERNELS = (('Function', 'v1::Function'), ('Linear', 'v1::Linear'), ('Quadratic', 'v1::Quadratic'), ('Polynomial', 'v1::Polynomial'))
SET_ADD = re.compile(r'(BTreeSet|HashSet)::<.*>::(append|insert|extend)$|as std::iter::Extend<.*>>::extend')


def closure_of(ctx, body, operand, depth=6):
    """(closure body, captured operands) of an operand that holds a closure created in `body` (directly, bound to a name first,
    or passed as `&mut f`)"""
    if operand['k'] not in ('copy', 'move') or depth < 0: return None, []
    if [p for p in operand['pl']['p'] if p != '*']: return None, []
    defs = body.defs_of(operand['pl']['l'])
    if len(defs) != 1 or defs[0][0] != 'stmt' or defs[0][2]['dst']['p']: return None, []
    rv = defs[0][2]['rv']
    if rv['k'] == 'agg' and rv['adt'].startswith('closure:'): return ctx.F.bodies.get(rv['adt'][8:]), rv['ops']
    if rv['k'] == 'use': return closure_of(ctx, body, rv['ops'][0], depth - 1)
    if rv['k'] == 'ref': return closure_of(ctx, body, {'k': 'copy', 'pl': rv['pl']}, depth - 1)
    return None, []


RESULT_COMB = re.compile(r'result::Result::<.*>::(map|and_then)::<')


def per_state_closure(ctx, parent, mapcall, ty):
    """Does the closure K handed to `samples.map(..)` compute, for the state it is given, `.0` of `<ty as Evaluate>::evaluate(self, state)`
    with the parent's own self, on each of its successful returns?  The ways K may hand that value back:
        let (v, ids) = self.evaluate(s)?; ..; Ok(v)                      `?` + Ok
        match self.evaluate(s) { Ok((v, ids)) => { ..; Ok(v) } Err(e) => Err(e) }      tail match
        self.evaluate(s).map(|(v, ids)| { ..; v })                       combinator; also .and_then(|(v, ids)| { ..; Ok(v) })
    -> (K, the evaluate call, bodies in which the used ids may be recorded) or (K, None, [])"""
    K, caps = closure_of(ctx, parent, mapcall.args[1]) if len(mapcall.args) == 2 else (None, [])
    if K is None: return None, None, []
    for c in K.calls:
        if c.item != 'evaluate' or not (c.trait or '').endswith('Evaluate'): continue
        # `<ty as Evaluate>::evaluate`, or -- inside a generic helper `fn h<E: Evaluate>(f: &E, ..)` that was inlined -- `<E as Evaluate>::evaluate`:
        # the callee then is decided by the receiver, which below has to be the parent's own self (of type ty)
        if not (re.search(re.escape(ty) + '$', c.self_ty or '') or generic_param(c.self_ty or '')): continue
        fs, root, calls = T.access_path(K, c.args[0])
        if root != 1 or len(fs) != 1 or not fs[0][1].isdigit() or int(fs[0][1]) >= len(caps): continue
        cfs, croot, ccalls = T.access_path(parent, caps[int(fs[0][1])])
        if croot != 1 or cfs: continue                                           # the parent's self, not a part of it
        sfs, sroot, scalls = T.access_path(K, c.args[1])
        if sroot != 2 or sfs: continue                                           # the state handed to the closure
        rets = [(e, k, rs) for e, k, rs in K.ret_assignments() if k in ('ok', 'val', 'callval')]
        good = bool(rets); where = [K]
        for e, k, rs in rets:
            if k == 'ok':
                ex = T.expr(K, rs['rv']['ops'][0], depth=14)
                has = any(x[0] == 'call' and x[1] == 'evaluate' and len(x) > 4 and x[4] == c.bb for x in T.expr_walk(ex))
                good = good and has and T.own_fields(ex)[-1:] == [('tuple', '0')] and all(T.WRAPPER_OWNER.search(a) for a, f in T.own_fields(ex)[:-1])
            elif k == 'callval' and RESULT_COMB.search(rs['r'] or rs['f']) and len(rs['args']) == 2:
                # the evaluation's own Result, its Ok payload mapped to `.0` by a second closure
                rfs, rroot, rcalls = T.access_path(K, rs['args'][0], transparent=T.TRANSPARENT_NOCLONE)
                K2, caps2 = closure_of(ctx, K, rs['args'][1])
                is_map = re.search(r'::map::<', rs['r'] or rs['f']) is not None
                ok2 = rroot == c.dst['l'] and not rfs and K2 is not None
                if ok2:
                    r2 = [(e2, k2, x2) for e2, k2, x2 in K2.ret_assignments()]
                    ok2 = bool(r2)
                    for e2, k2, x2 in r2:
                        if is_map: ok2 = ok2 and k2 == 'val' and x2['rv']['k'] == 'use' and T.expr(K2, x2['rv']['ops'][0]) == ('place', 2, [('tuple', '0')])
                        else: ok2 = ok2 and k2 == 'ok' and T.expr(K2, x2['rv']['ops'][0]) == ('place', 2, [('tuple', '0')])
                good = good and ok2
                if ok2: where.append(K2)
            else: good = False
        if good: return K, c, where
    return K, None, []


def records_used_ids(ctx, K, ev, where):
    """a set insertion (append / extend / insert) into a captured set whose argument is what the evaluation `ev` used:
    in K itself (argument derives from the call) or in the closure that receives the evaluation's payload (argument derives from its parameter)"""
    for body in where:
        for x in body.calls:
            if not SET_ADD.search(T.strip_generics_tail(x.name)) or len(x.args) < 2 or T.access_path(body, x.args[0])[1] != 1: continue
            sl = ctx.S.slice_operand(body, x.args[1])
            if (body is K and ev in sl.call_objs) or (body is not K and 2 in sl.params): return True
    return False


def delegated_samples_call(ctx, b, e):
    """the `<P as Evaluate>::evaluate_samples(part of self, samples)` call inside an expression, if any"""
    for x in T.expr_walk(e):
        if x[0] == 'call' and x[1] == 'evaluate_samples' and len(x) > 4:
            c = [c for c in b.calls if c.bb == x[4]]
            if not c: continue
            c = c[0]
            if not (c.trait or '').endswith('Evaluate') or not any(re.search(re.escape(t) + '$', c.self_ty or '') for n, t in KERNELS): continue
            fs, root, calls = T.access_path(b, c.args[0])
            if root == 1 and T.access_path(b, c.args[1])[1] == 2: return c
    return None


def kernel_rules(ctx):
    """evaluate_samples of a function (kernel) agrees with evaluating each state alone: on EVERY successful return the value table is
    `samples.map(|state| self.evaluate(state).0)` -- or the evaluate_samples of a payload of self (per-arm delegation) -- and the used
    ids are the union of what those evaluations used.  A second success exit (a "fast path") that builds the table otherwise is the
    defect of seed C06-4."""
    for nm, ty in KERNELS:
        R = 'C06.kernel/%s::evaluate_samples' % nm
        b = ctx.method(R + '/anchor', ty, 'evaluate_samples', trait='Evaluate')
        if b is None: continue
        exits = [(e, k, rst) for e, k, rst in b.ret_assignments() if k in ('ok', 'val', 'callval')]
        vbad = []; ibad = []; pbad = []; maps = []
        for e, k, rst in exits:
            if k == 'callval':
                # `arm => payload.evaluate_samples(samples)` returned as it is
                c = [c for c in b.calls if c.bb == e]
                d = delegated_samples_call(ctx, b, ('call', 'evaluate_samples', '', [], e)) if c and c[0].item == 'evaluate_samples' else None
                if d is None: vbad.append((e, 'returns the result of %s' % (c[0].name[:60] if c else '?')))
                continue
            ops = None
            if k == 'ok':
                te = rst['rv']['ops'][0]
                if te['k'] in ('copy', 'move') and not te['pl']['p']:
                    ds = [d for kk, bb, d in b.defs_of(te['pl']['l']) if kk == 'stmt' and d['rv']['k'] == 'agg' and d['rv']['adt'] == 'tuple' and len(d['rv']['ops']) == 2]
                    if len(ds) == 1 and len(b.defs_of(te['pl']['l'])) == 1: ops = ds[0]['rv']['ops']
            if ops is None: vbad.append((e, 'result is not a (values, ids) pair built here')); continue
            hs, leaves = origins(b, ops[0])
            ids_slice = ctx.S.slice_operand(b, ops[1])
            if not leaves: vbad.append((e, 'no source'))
            for kind, bi, obj in leaves:
                if kind == 'call' and obj.item == 'map' and obj.path.endswith('Samples>::map') and T.access_path(b, obj.args[0])[1] == 2:
                    K, ev, where = per_state_closure(ctx, b, obj, ty)
                    if ev is None: pbad.append((bi, 'the closure given to samples.map does not return `.0` of self.evaluate(state)')); continue
                    maps.append((obj, K, ev))
                    if K.name not in ids_slice.closures or not records_used_ids(ctx, K, ev, where): ibad.append((e, 'used ids do not collect what self.evaluate(state) used'))
                elif kind == 'place' and delegated_samples_call(ctx, b, obj) is not None and T.own_fields(obj)[-1:] == [('tuple', '0')]:
                    d = delegated_samples_call(ctx, b, obj)
                    if d not in ids_slice.call_objs: ibad.append((e, 'used ids do not come from the delegated evaluate_samples'))
                else:
                    vbad.append((bi, 'value table from %s' % (obj.name[:70] if kind == 'call' else kind)))
        ctx.check(bool(exits) and not vbad, R + '/values', 'T-SIBLING', b.name, 'a successful return does not hand back samples.map(|state| self.evaluate(state)): %s' % (vbad[:2],), b.site(vbad[0][0]) if vbad else b.site())
        ctx.check(not pbad, R + '/per-state', 'T-CARRY', b.name, '%s' % (pbad[:2],), b.site(pbad[0][0]) if pbad else b.site())
        ctx.check(bool(exits) and not ibad, R + '/used-ids', 'T-CARRY', b.name, '%s' % (ibad[:2],), b.site(ibad[0][0]) if ibad else b.site())
        seen = set()
        for obj, K, ev in maps:
            if K.name in seen: continue
            seen.add(K.name); ctx.fn(K)
            error_propagates(ctx, R + '/per-state/error', K, [ev], 'evaluation of one state')
        error_propagates(ctx, R + '/error', b, [obj for obj, K, ev in maps], 'samples.map')


def _constraint_samples(ctx, R, b):
    if True:
        sv = returned_struct(ctx, b, SC)
        ctx.check(sv is not None, R + '/evaluate_samples/aggregate', 'T-CARRY', b.name, 'the SampledConstraint returned on success is not one recognisable value', b.site())
        for bi, st in ([(sv.where, sv.st())] if sv is not None else []):
            for f in ('id', 'equality', 'name', 'subscripts', 'parameters', 'description'):
                fs, root, calls = T.access_path(b, agg_field_operand(st, f))
                ctx.check(root == 1 and fs == [(CON, f)], R + '/evaluate_samples/carry/' + f, 'T-CARRY', b.name, 'SampledConstraint.%s is not self.%s' % (f, f), b.site(bi))
            ex = T.expr(b, agg_field_operand(st, 'evaluated_values'), depth=14)
            okv = any(x[0] == 'call' and x[1] == 'evaluate_samples' and 'v1::Function as evaluate::Evaluate' in x[2] and T.expr_has_call(x[3][0], 'function') and T.strip_wrappers(x[3][1]) == ('place', 2, []) for x in T.expr_walk(ex))
            ctx.check(okv, R + '/evaluate_samples/values', 'T-CARRY', b.name, 'evaluated_values is not self.function().evaluate_samples(samples)', b.site(bi))
            fs_ = slice_op(ctx, b, agg_field_operand(st, 'feasible'))
            ctx.check(fs_.has_call(r'impl v1::SampledValues>::iter') and fs_.has_call('v1::Function as evaluate::Evaluate>::evaluate_samples'),
                      R + '/evaluate_samples/feasible-from-values', 'T-CARRY', b.name, 'per-sample feasibility does not derive from the evaluated values', b.site(bi))
            uop = agg_field_operand(st, 'used_decision_variable_ids')
            ctx.check(uop is not None and slice_op(ctx, b, uop).has_call('v1::Function as evaluate::Evaluate>::evaluate_samples'), R + '/evaluate_samples/used-ids', 'T-CARRY', b.name, 'used ids do not come from the function evaluation', b.site(bi))
            ctx.check(field_is_none(ctx, b, sv, 'removed_reason'), R + '/evaluate_samples/no-reason', 'T-CONST', b.name, 'active constraint gets a removal reason', b.site(bi))
        error_propagates(ctx, R + '/evaluate_samples/error', b, [c for c in b.calls if c.item == 'evaluate_samples'], 'function evaluation')
        # the third copy of the feasibility rule: decided per (sample id, value) of the evaluated values, i.e. in the loop over them
        #   `values.iter().map(|(id, v)| { if eq == .. { return Ok((*id, ..)) } .. bail! }).collect::<Result<_>>()?`
        #   ==  `for (id, v) in values.iter() { let ok = match eq { .. }; m.insert(*id, ok) }`
        vloops = [lo for lo in T.for_loops(b) if ctx.S.slice_operand(b, lo[0].args[0]).has_call(r'impl v1::SampledValues>::iter')
                  and enum_tests(ctx, b, 'v1::Equality', set(lo[4]), raw_field='equality')]
        ctx.check(len(vloops) >= 1, 'C06.rule/Constraint::evaluate_samples/closure', 'T-SIBLING', b.name, 'no loop over the evaluated values that decides feasibility per sample', b.site())
        for lo in vloops[:1]:
            check_feasibility_rule(ctx, 'C06.rule/Constraint::evaluate_samples', b, TOL, blocks=set(lo[4]))
            # key of the produced pair is the sample id of the same item: `(id, verdict)` tuples and direct `insert(id, verdict)`
            item = lo[0].dst['l']; keys = []
            for bi, st in b.stmts():
                if bi in lo[4] and st['rv']['k'] == 'agg' and st['rv']['adt'] == 'tuple' and len(st['rv']['ops']) == 2 and not st['dst']['p'] and b.locals[st['dst']['l']].replace(' ', '') == '(u64,bool)':
                    keys.append((bi, st['rv']['ops'][0]))
            for c in b.calls:
                if c.bb in lo[4] and c.item == 'insert' and re.search(r'HashMap::<u64, bool>::insert', c.name) and len(c.args) == 3: keys.append((c.bb, c.args[1]))
            okk = bool(keys) and not restricting(ctx, b, lo)
            for bi, op in keys:
                root, fs = canon(b, op)
                okk = okk and root == item and bool(fs) and fs[-1] == ('tuple', '0')
            ctx.check(okk, 'C06.rule/Constraint::evaluate_samples/key', 'T-CARRY', b.name, 'pair key is not the sample id of the item (or not every sample gets a verdict)', b.site(lo[0].bb))


def _removed_samples(ctx, R, b):
    if True:
        ce = [c for c in b.calls if c.item == 'evaluate_samples' and re.search(r'<v1::Constraint as evaluate::Evaluate>::evaluate_samples', c.name)]
        ctx.check(len(ce) >= 1, R + '/removed/delegates', 'T-MUSTCALL', b.name, 'does not evaluate the wrapped constraint', b.site())
        for c in ce:
            ctx.check((RC, 'constraint') in T.access_path(b, c.args[0])[0] and T.access_path(b, c.args[1])[1] == 2, R + '/removed/args', 'T-CARRY', b.name, 'not (self.constraint, samples)', b.site(c.bb))
            error_propagates(ctx, R + '/removed/error', b, [c], 'constraint evaluation')
        # the returned SampledConstraint: the two removal fields from self, every other field the wrapped constraint's
        #   `out.f = x; Ok((out, ids))`  ==  `Ok((SampledConstraint { f: x, ..out }, ids))`
        sv = returned_struct(ctx, b, SC)
        for f in ('removed_reason', 'removed_reason_parameters'):
            op = sv.fields.get(f) if sv is not None else None
            ok = False
            if op is not None:
                ex = T.expr(b, op)
                ok = (RC, f) in T.expr_fields(ex) and (f != 'removed_reason' or (ex[0] == 'agg' and ex[1].endswith('Option::Some')))
            ctx.check(ok, R + '/removed/' + f, 'T-CARRY', b.name, 'SampledConstraint.%s is not set from self.%s' % (f, f), b.site())
        bad = inherited_from(ctx, b, sv, ce, ('removed_reason', 'removed_reason_parameters')) if sv is not None else ['?']
        ctx.check(not bad, R + '/removed/returns-it', 'T-CARRY', b.name, 'returned value is not the sampled constraint in its fields %s' % bad, b.site())


def constraint_rules(ctx):
    R = 'C06.constraint'
    # Constraint::evaluate_samples
    b = ctx.method(R + '/evaluate_samples/anchor', CON, 'evaluate_samples', trait='Evaluate')
    if b is not None: with_renormalised(ctx, b, lambda bd: _constraint_samples(ctx, R, bd))
    # RemovedConstraint::evaluate_samples
    b = ctx.method(R + '/removed/anchor', RC, 'evaluate_samples', trait='Evaluate')
    if b is not None: with_renormalised(ctx, b, lambda bd: _removed_samples(ctx, R, bd))
    # SampledConstraint::is_feasible (second copy of the rule)
    b = ctx.method('C06.rule/SampledConstraint::is_feasible/anchor', SC, 'is_feasible')
    if b is not None:
        check_feasibility_rule(ctx, 'C06.rule/SampledConstraint::is_feasible', b, 'given')
        # missing evaluated_values is an error, however the Option is opened (`.as_ref().context(..)?`, `let Some(v) = &self.evaluated_values else { bail! }`, match): one instance
        missing_is_error(ctx, 'C06.rule/SampledConstraint::is_feasible/missing-values', b, SC, 'evaluated_values', [c for c in b.calls if c.item == 'iter' and c.path.endswith('SampledValues>::iter')], 'missing evaluated_values')
    # SampledConstraint::get
    b = ctx.method(R + '/get/anchor', SC, 'get')
    if b is not None:
        sv = returned_struct(ctx, b, EC)
        ctx.check(sv is not None, R + '/get/aggregate', 'T-CARRY', b.name, 'the EvaluatedConstraint returned on success is not one recognisable value', b.site())
        for bi, st in ([(sv.where, sv.st())] if sv is not None else []):
            for f in ('id', 'equality', 'used_decision_variable_ids', 'name', 'subscripts', 'parameters', 'description', 'removed_reason', 'removed_reason_parameters'):
                fs, root, calls = T.access_path(b, agg_field_operand(st, f))
                ctx.check(root == 1 and fs == [(SC, f)], R + '/get/carry/' + f, 'T-CARRY', b.name, 'EvaluatedConstraint.%s is not self.%s (%s)' % (f, f, fs), b.site(bi))
            ex = T.expr(b, agg_field_operand(st, 'evaluated_value'), depth=14)
            gets = [x for x in T.expr_walk(ex) if x[0] == 'call' and x[1] == 'get' and 'SampledValues' in x[2]]
            ctx.check(bool(gets) and (SC, 'evaluated_values') in T.expr_fields(gets[0][3][0]) and T.strip_wrappers(gets[0][3][1]) == ('place', 2, []), R + '/get/value', 'T-CARRY', b.name,
                      'evaluated_value is not self.evaluated_values.get(sample_id)', b.site(bi))
        g = [c for c in b.calls if c.item == 'get' and c.path.endswith('SampledValues>::get')]
        error_propagates(ctx, R + '/get/missing-sample-is-error', b, g, 'missing sample value')
        missing_is_error(ctx, R + '/get/missing-values-is-error', b, SC, 'evaluated_values', g, 'missing evaluated_values')
        cover(ctx, 'C06.cover/SampledConstraint::get', b, SC, exempt=('feasible',))


def option_tests_on(body, adt, field, blocks):
    """tests `Some / None` of an Option that is (a copy of) field adt.field, also when it was first packed into a tuple
    (`match (v.substituted_value, &s.samples) { (Some(x), _) => .. }`): (switch bb, Some target, None target)"""
    out = []
    for bi in sorted(body.live):
        if bi not in blocks: continue
        t = body.blocks[bi]['term']
        if t['k'] != 'switch' or t['d']['k'] == 'const': continue
        for k2, b2, d in body.defs_of(t['d']['pl']['l']):
            if k2 == 'stmt' and d['rv']['k'] == 'discr':
                e = T.expr(body, {'k': 'copy', 'pl': d['rv']['pl']})
                fs = T.own_fields(e) if e[0] in ('place', 'proj') else []
                if fs and fs[-1][1] == field and (fs[-1][0] == adt or fs[-1][0].endswith('::' + adt)):
                    m = {v: tg for v, tg in t['ts']}
                    out.append((bi, m.get(1, t['else']), m.get(0, t['else'])))
    return out


def get_rules(ctx):
    b = ctx.method('C06.get/anchor', SS, 'get')
    if b is None: return
    with_renormalised(ctx, b, lambda bd: get_rules_on(ctx, bd))


def get_rules_on(ctx, b):
    R = 'C06.get'
    cover(ctx, 'C06.cover/SampleSet::get', b, SS, exempt=('sense',))
    sv = returned_struct(ctx, b, 'v1::Solution')
    ctx.check(sv is not None, R + '/aggregate', 'T-CARRY', b.name, 'the Solution returned on success is not one recognisable value', b.site())
    for bi, st in ([(sv.where, sv.st())] if sv is not None else []):
        # objective <- objectives.get(sample_id)
        ex = T.expr(b, agg_field_operand(st, 'objective'), depth=14)
        gets = [x for x in T.expr_walk(ex) if x[0] == 'call' and x[1] == 'get' and 'SampledValues' in x[2]]
        ctx.check(bool(gets) and T.expr_has_call(gets[0][3][0], 'objectives') and T.strip_wrappers(gets[0][3][1]) == ('place', 2, []), R + '/objective', 'T-CARRY', b.name,
                  'objective is not self.objectives()?.get(sample_id)', b.site(bi))
        # flags: which accessor feeds which
        for field, acc, other in (('feasible_relaxed', 'feasible_relaxed', 'feasible_unrelaxed'), ('feasible', 'feasible_unrelaxed', 'feasible_relaxed')):
            ex = T.expr(b, agg_field_operand(st, field), depth=16)
            names = [x[1] for x in T.expr_calls(ex)]
            gets = [x for x in T.expr_calls(ex) if x[1] == 'get' and 'HashMap' in x[2]]
            ok = acc in names and other not in names and bool(gets) and T.expr_has_call(gets[0][3][0], acc) and ('place', 2, []) in [T.strip_wrappers(y) for y in T.expr_walk(gets[0][3][1])]
            ctx.check(ok, R + '/flags/' + field, 'T-CARRY', b.name, 'Solution.%s is not *self.%s().get(&sample_id) (calls: %s)' % (field, acc, names), b.site(bi))
        carry_field(ctx, R + '/evaluated_constraints', b, st, 'evaluated_constraints', need_fields=[(SS, 'constraints')], need_calls=[r'impl v1::SampledConstraint>::get'], need_params=[2], site=b.site(bi))
        carry_field(ctx, R + '/decision_variables', b, st, 'decision_variables', need_fields=[(SS, 'decision_variables'), (SDV, 'decision_variable')], site=b.site(bi))
        carry_field(ctx, R + '/state', b, st, 'state', need_fields=[(SDV, 'samples')], need_params=[2], site=b.site(bi))
    # every missing entry is an error
    for c in b.calls:
        if c.item == 'get' and ('HashMap::<u64, bool>' in c.name or c.path.endswith('SampledValues>::get')) and b.locals[c.dst['l']].startswith('std::option::Option'):
            ex_uses = b.uses.get(c.dst['l'], ())
            # the one inside the state loop feeds the value table below
            if any(k == 'call' and x.item in ('with_context', 'context', 'ok_or', 'ok_or_else') for k, bi, x in ex_uses):
                error_propagates(ctx, R + '/missing-is-error', b, [c], 'missing entry for the sample')
    # a constraint that cannot be read for this sample is an error:  `.map(|c| c.get(id)).collect::<Result<_>>()?`  ==  `for c { v.push(c.get(id)?) }`
    error_propagates(ctx, R + '/constraint-error', b, [c for c in b.calls if c.item == 'get' and c.path.endswith('SampledConstraint>::get')], 'SampledConstraint::get error')
    # state value: substituted value first, else the sampled value, else error
    loops = loops_over(ctx, b, SS, 'decision_variables')
    ctx.check(len(loops) >= 1, R + '/state/loop', 'T-LOOPMUST', b.name, 'no loop over self.decision_variables', b.site())
    for lo in loops[:1]:
        nextc, header, some_bb, none_bb, blocks = lo
        ins = [c for c in b.calls if c.bb in blocks and c.item == 'insert' and 'HashMap::<u64, f64>::insert' in c.name]
        tests = option_tests_on(b, DV, 'substituted_value', blocks)
        # where the inserted values come from (through `Some(..)` wrappers, `let .. else`, `match` arms):
        #   `if let Some(x) = v.substituted_value { insert(x) } else if let Some(y) = sampled { insert(y) } else { bail! }`
        #   ==  `let value = match (v.substituted_value, samples) { (Some(x), _) => Some(x), (None, Some(s)) => s.get(id), .. }; let Some(value) = value else { bail! }; insert(value)`
        subst = []; sampled = []; other = []
        for c in ins:
            hs, leaves = origins(b, c.args[2])
            for kind, bi, obj in leaves:
                if kind == 'place' and any(f == 'substituted_value' for a, f in T.expr_fields(obj)): subst.append((c, bi))
                elif kind == 'call':
                    s = ctx.S.slice_operand(b, {'k': 'copy', 'pl': obj.dst})
                    if (s.has_call(r'impl v1::SampledValues>::get') or obj.path.endswith('SampledValues>::get')) and 2 in s.params and (SDV, 'samples') in s.fields: sampled.append((c, bi))
                    else: other.append((kind, bi, obj.name[:60]))
                else: other.append((kind, bi, str(obj)[:60]))
        # priority: the sampled value is looked at only where substituted_value is None
        none_only = set()
        for sb, some_t, none_t in tests:
            none_only |= b.reach([none_t], stop={header}) - b.reach([some_t], stop={header})
        first = bool(tests) and bool(subst) and bool(sampled) and all(bi in none_only for c, bi in sampled) and all(bi not in none_only for c, bi in subst)
        ctx.check(first, R + '/state/substituted-first', 'T-BRANCHFX', b.name, 'the sampled value is not used only where there is no substituted_value (tests %d, substituted %d, sampled %d)' % (len(tests), len(subst), len(sampled)), b.site(nextc.bb))
        keyed = bool(ins) and all((DV, 'id') in T.access_path(b, c.args[1])[0] for c in ins)
        ctx.check(keyed and not other and bool(subst) and bool(sampled), R + '/state/table', 'T-BRANCHFX', b.name, 'state value is not {substituted_value if set, else samples.get(sample_id)} keyed by the variable id %s' % (other[:3],), b.site(nextc.bb))
        # neither => error
        errs = b.err_exits()
        via = {c.bb for c in ins}
        none_sides = [none_t for sb, some_t, none_t in tests]
        ctx.check(bool(tests) and T.must_pass(b, some_bb, errs, via) is False and all(bool(b.reach([n], stop={header}) & errs) for n in none_sides), R + '/state/missing-is-error', 'T-ERRFLOW', b.name, 'a variable without any value is not an error', b.site(nextc.bb))
        ctx.check(bool(ins) and must_pass_sem(ctx, b, some_bb, {header}, via), R + '/state/every-variable', 'T-LOOPMUST', b.name, 'a variable can be skipped without a value', b.site(nextc.bb))


def entry_base(e, adt, field):
    """identity of the value whose field adt.field an expression reads: ('place', root local, prefix) / ('call', bb, prefix)"""
    for x in T.expr_walk(e):
        if x[0] in ('proj', 'place') and x[2]:
            for i, (a, f) in enumerate(x[2]):
                if f == field and (a == adt or a.endswith('::' + adt)):
                    pre = tuple(x[2][:i])
                    if x[0] == 'place': return ('place', x[1], pre)
                    inner = x[1]
                    if inner[0] == 'call': return ('call', inner[4] if len(inner) > 4 else inner[2], pre)
                    if inner[0] == 'local': return ('local', inner[1], pre)
                    return (inner[0], T.expr_str(inner), pre)
    return None


def membership_tests(ctx, b):
    """Tests "the sample id (parameter 2) is one of X.ids" in every idiom; -> list of (identity of X, [GuardInfo]):
         X.ids.contains(&id)
         X.ids.iter().any(|x| *x == id)      (normal form: loop over X.ids, `item == id` => flag = true and leave, flag = false when exhausted)
    `binary_search(&id).is_ok()` is deliberately not one of them: it is a membership test on sorted lists only (seeds C06-1 / C15-6)."""
    out = []
    for c in b.calls:
        if c.item != 'contains' or len(c.args) != 2: continue
        fs = T.access_path(b, c.args[0])[0]
        if (SVE, 'ids') not in fs or T.strip_wrappers(T.expr(b, c.args[1])) != ('place', 2, []): continue
        base = entry_base(T.expr(b, c.args[0]), SVE, 'ids')
        if base is not None: out.append((base, T.guards_from_call(b, c), c.dst['l']))
    for lo in T.for_loops(b):
        base = entry_base(T.expr(b, lo[0].args[0], depth=20), SVE, 'ids')
        if base is None or restricting(ctx, b, lo): continue
        item = lo[0].dst['l']
        for bi, st in b.stmts():
            rv = st['rv']
            if bi not in lo[4] or rv['k'] != 'bin' or rv['op'] != 'Eq' or st['dst']['p']: continue
            sides = [(canon(b, o) if o['k'] in ('copy', 'move') else (None, ())) for o in rv['ops']]
            exprs = [T.strip_wrappers(T.expr(b, o)) for o in rv['ops']]
            if not any(sd[0] == item and all(T.WRAPPER_OWNER.search(a) for a, f in sd[1]) and ex2 == ('place', 2, []) for sd, ex2 in ((sides[0], exprs[1]), (sides[1], exprs[0]))): continue
            for sb, neg in T.bool_flow(b, st['dst']['l']):
                tt, ft = T.switch_sides(b, sb, neg)
                if tt is None or tt == ft: continue
                hit = b.edge_region(sb, tt)
                # the flag: `true` only on the equal side (and the loop is left), `false` only when the ids are exhausted
                for d, ty in enumerate(b.locals):
                    if ty != 'bool': continue
                    defs = [(k, bb, x) for k, bb, x in b.defs_of(d)]
                    trues = [bb for k, bb, x in defs if k == 'stmt' and x['rv']['k'] == 'use' and x['rv']['ops'][0].get('v') == 'true']
                    falses = [bb for k, bb, x in defs if k == 'stmt' and x['rv']['k'] == 'use' and x['rv']['ops'][0].get('v') == 'false']
                    if len(trues) + len(falses) != len(defs) or not trues or not falses: continue
                    outside = {x for x in b.live if x not in lo[4]}
                    left = lambda bb: lo[1] not in b.reach([x for x in b.succ(bb) if x in lo[4]], stop=outside)      # no further id is looked at
                    if all(bb in hit and left(bb) for bb in trues) and all(bb not in lo[4] and (bb == lo[3] or b.dominates(lo[3], bb)) for bb in falses):
                        out.append((base, T.guards_from_local(b, d, trues[0]), d))
    return out


def values_get_rules(ctx, R, b):
    """SampledValues::get(id): the value of the (first) entry whose ids contain id, None if there is none.  Shapes of the search:
         (a) for e in entries { if MEMBER(e) { return Some(e.value) } } None
         (b) entries.iter().find(|e| MEMBER(e)).map(|e| e.value)                      found = Some(e) / None, mapped to .value
         (c) let mut found = None; for e in entries { if found.is_none() && MEMBER(e) { found = Some(e.value) } } found      (or with `break`)
         (d) self.iter().find(|(id, _)| **id == id0).map(|(_, v)| *v)                   the type's own (id, &value) pairs, first pair with that id
         (e) entries.iter().find_map(|e| MEMBER(e).then_some(e.value))
       MEMBER in any idiom of membership_tests()."""
    okk = False; nones = [e for e, k, rst in b.ret_assignments() if k == 'none']
    lo_all = loops_over(ctx, b, 'v1::SampledValues', 'entries')
    members = membership_tests(ctx, b)
    for bi_, guards, mlocal in members:
        for g in guards:
            if g.true_bb is None: continue
            tr = b.reach([g.true_bb]); only_true = b.edge_region(g.switch_bb, g.true_bb)
            lo = [l for l in lo_all if g.switch_bb in l[4]]
            # (a)
            for e, k, rst in b.ret_assignments():
                if e in tr and k in ('ok', 'val') and rst['rv']['k'] == 'agg':
                    bv = entry_base(T.expr(b, rst['rv']['ops'][0]), SVE, 'value') if rst['rv']['ops'] else None
                    if bv is not None and bv == bi_: okk = True
            for e, k, rst in b.ret_assignments():
                found = None; maps_value = True; want = 'entry'
                if k == 'callval' and re.search(r'Option::<.*>::map::<', rst['r'] or rst['f']) and len(rst['args']) == 2:
                    # (b) the entry itself is kept, the result mapped to its `.value`
                    found = rst['args'][0]; maps_value = False
                    cb, caps = closure_of(ctx, b, rst['args'][1])
                    if cb is not None:
                        rets = [T.expr(cb, rs['rv']['ops'][0]) for e2, k2, rs in cb.ret_assignments() if k2 == 'val' and rs['rv']['k'] == 'use']
                        maps_value = bool(rets) and len(rets) == len(cb.ret_assignments()) and all(r[0] == 'place' and r[1] == 2 and [f for a, f in r[2]] == ['value'] for r in rets)
                elif k == 'val' and rst['rv']['k'] == 'use' and rst['rv']['ops'][0]['k'] in ('copy', 'move'):
                    found = rst['rv']['ops'][0]; want = 'value'                  # (c)
                if found is None or found['k'] not in ('copy', 'move') or found['pl']['p'] or not maps_value: continue
                fl = found['pl']['l']
                defs = []
                for kk, bb, d in b.defs_of(fl):
                    # `found = Some(x)` is often `tmp = Some(x); found = move tmp`
                    if kk == 'stmt' and d['rv']['k'] == 'use' and d['rv']['ops'][0]['k'] in ('copy', 'move') and not d['rv']['ops'][0]['pl']['p']:
                        dd = b.defs_of(d['rv']['ops'][0]['pl']['l'])
                        if len(dd) == 1 and dd[0][0] == 'stmt' and dd[0][2]['rv']['k'] == 'agg' and dd[0][1] == bb: d = dd[0][2]
                    defs.append((kk, bb, d))
                somes = [(bb, d) for kk, bb, d in defs if kk == 'stmt' and d['rv']['k'] == 'agg' and d['rv']['adt'].endswith('Option::Some')]
                nn = [bb for kk, bb, d in defs if kk == 'stmt' and d['rv']['k'] == 'agg' and d['rv']['adt'].endswith('Option::None')]
                if not somes or len(somes) + len(nn) != len(defs) or not lo or not (bi_[0] == 'call' and bi_[1] == lo[-1][0].bb): continue
                kept = True
                for bb, d in somes:
                    if bb not in only_true: kept = False; continue
                    if want == 'entry': kept = kept and canon(b, d['rv']['ops'][0])[0] == lo[-1][0].dst['l']
                    else: kept = kept and entry_base(T.expr(b, d['rv']['ops'][0]), SVE, 'value') == bi_
                    # the FIRST match is kept: the loop is left after the assignment, or the assignment is guarded by `found.is_none()`
                    leaves = lo[-1][1] not in b.reach(b.succ(bb))
                    guarded = False
                    for c in b.calls:
                        if c.item in ('is_none', 'is_some') and T.access_path(b, c.args[0])[1] == fl and not T.access_path(b, c.args[0])[0]:
                            for g2 in T.guards_from_call(b, c):
                                side = g2.true_bb if c.item == 'is_none' else g2.false_bb
                                if side is not None and bb in b.edge_region(g2.switch_bb, side): guarded = True
                    kept = kept and (leaves or guarded)
                if kept:
                    okk = True; nones += nn
    # (e) `entries.iter().find_map(|e| MEMBER(e).then_some(e.value))`: the verdict is turned into Some(value of that entry) / None by bool::then_some (or `then(|| ..)`),
    #     the first Some leaves the loop and is the result, None when the entries are exhausted
    for bi_, guards, mlocal in members:
        lo = [l for l in lo_all if any(g.src_bb in l[4] for g in guards)] or [l for l in lo_all if bi_[0] == 'call' and bi_[1] == l[0].bb]
        for tcall in b.calls:
            if not re.search(r'bool>::then_some$|<impl bool>::then_some$', T.strip_generics_tail(tcall.name)) or len(tcall.args) != 2 or not lo or tcall.bb not in lo[-1][4]: continue
            if canon(b, tcall.args[0])[0] != mlocal and not (tcall.args[0]['k'] in ('copy', 'move') and tcall.args[0]['pl']['l'] == mlocal): continue
            if entry_base(T.expr(b, tcall.args[1]), SVE, 'value') != bi_ or not (bi_[0] == 'call' and bi_[1] == lo[-1][0].bb): continue
            r = tcall.dst['l']; outside = {x for x in b.live if x not in lo[-1][4]}
            # where r is Some: the Some side of a test of r's discriminant
            some_regions = set()
            for sb, m_, els in T.option_arms(b, r): some_regions |= b.edge_region(sb, m_.get(1, els))
            # the result: r itself on that side (loop left), None otherwise
            res_defs = b.defs_of(0)
            takes = [(bb, d) for k, bb, d in res_defs if k == 'stmt' and d['rv']['k'] == 'use' and d['rv']['ops'][0]['k'] in ('copy', 'move') and d['rv']['ops'][0]['pl'] == {'l': r, 'p': []}]
            nn = [bb for k, bb, d in res_defs if k == 'stmt' and d['rv']['k'] == 'agg' and d['rv']['adt'].endswith('Option::None')]
            if takes and len(takes) + len(nn) == len(res_defs) and all(bb in some_regions and lo[-1][1] not in b.reach([x for x in b.succ(bb) if x in lo[-1][4]], stop=outside) for bb, d in takes) \
                    and all(bb not in lo[-1][4] for bb in nn):
                okk = True; nones += nn
    # (d) the type's own pair iterator reused: `self.iter().find(|(id, _)| **id == sample_id).map(|(_, v)| *v)` -- iter() yields (id, &value of the entry listing id)
    #     in storage order (C06.compress/iter/pairs), so the first pair with that id carries the value of the first entry containing it
    pair_loops = []
    for l in T.for_loops(b):
        its = ctx.S.slice_operand(b, l[0].args[0])
        ic = [c for c in its.call_objs if c.item == 'iter' and c.path.endswith('SampledValues>::iter') and T.access_path(b, c.args[0])[1] == 1]
        if ic and not restricting(ctx, b, l): pair_loops.append(l)
    for lo in pair_loops:
        item = lo[0].dst['l']; outside = {x for x in b.live if x not in lo[4]}
        for bi, st in b.stmts():
            rv = st['rv']
            if bi not in lo[4] or rv['k'] != 'bin' or rv['op'] != 'Eq' or st['dst']['p']: continue
            sides = [(canon(b, o) if o['k'] in ('copy', 'move') else (None, ())) for o in rv['ops']]
            exprs = [T.strip_wrappers(T.expr(b, o)) for o in rv['ops']]
            is_id = lambda sd: sd[0] == item and bool(sd[1]) and sd[1][-1] == ('tuple', '0') and all(T.WRAPPER_OWNER.search(a) for a, f in sd[1][:-1])
            if not ((is_id(sides[0]) and exprs[1] == ('place', 2, [])) or (is_id(sides[1]) and exprs[0] == ('place', 2, []))): continue
            for sb, neg in T.bool_flow(b, st['dst']['l']):
                tt, ft = T.switch_sides(b, sb, neg)
                if tt is None or tt == ft: continue
                hit = b.edge_region(sb, tt)
                for e, k, rst in b.ret_assignments():
                    if k != 'callval' or not re.search(r'Option::<.*>::map::<', rst['r'] or rst['f']) or len(rst['args']) != 2: continue
                    found = rst['args'][0]
                    cb, caps = closure_of(ctx, b, rst['args'][1])
                    if cb is None or found['k'] not in ('copy', 'move') or found['pl']['p']: continue
                    rets = [T.expr(cb, rs['rv']['ops'][0]) for e2, k2, rs in cb.ret_assignments() if k2 == 'val' and rs['rv']['k'] == 'use']
                    if not rets or len(rets) != len(cb.ret_assignments()) or not all(r[0] == 'place' and r[1] == 2 and [f for a, f in r[2]] == ['1'] for r in rets): continue
                    defs = b.defs_of(found['pl']['l'])
                    somes = [(bb, d) for kk, bb, d in defs if kk == 'stmt' and d['rv']['k'] == 'agg' and d['rv']['adt'].endswith('Option::Some')]
                    nn = [bb for kk, bb, d in defs if kk == 'stmt' and d['rv']['k'] == 'agg' and d['rv']['adt'].endswith('Option::None')]
                    if not somes or len(somes) + len(nn) != len(defs): continue
                    kept = all(bb in hit and canon(b, d['rv']['ops'][0])[0] == item and all(T.WRAPPER_OWNER.search(a) for a, f in canon(b, d['rv']['ops'][0])[1])
                               and lo[1] not in b.reach([x for x in b.succ(bb) if x in lo[4]], stop=outside) for bb, d in somes)
                    if kept: okk = True; nones += nn
    ctx.check(okk, R + '/get/value-of-matching-entry', 'T-BRANCHFX', b.name, 'get does not return the value of the entry whose ids contain the sample id', b.site())
    ctx.check(bool(nones), R + '/get/none-when-absent', 'T-BRANCHFX', b.name, 'no None result for an unknown sample id', b.site())
    ctx.check(len(lo_all) >= 1 and not any(restricting(ctx, b, l) for l in lo_all), R + '/get/all-entries', 'T-LOOPMUST', b.name, 'no loop over all entries', b.site())


def values_iter_pairs(ctx, b):
    """SampledValues::iter yields, for every entry e and every id in e.ids, the pair (id, &e.value) of THAT entry.  The lazy chain is
    `entries.iter().flat_map(K)`; inside K (whose argument is the entry, whole or destructured) the pairs are built by
        (a) e.ids.iter().map(|id| (id, &e.value))          inner closure capturing the entry or its value
        (b) e.ids.iter().zip(std::iter::repeat(&e.value))
    both the ids and the value have to hang on K's own argument."""
    fm = [c for c in b.calls if c.item == 'flat_map' and (c.trait or '').endswith('Iterator') and len(c.args) == 2]
    if len(fm) != 1: return False, 'no single flat_map over the entries'
    if not ctx.S.slice_operand(b, fm[0].args[0]).has_field('v1::SampledValues', 'entries'): return False, 'flat_map is not over self.entries'
    K, caps = closure_of(ctx, b, fm[0].args[1])
    if K is None: return False, 'closure of flat_map not found'
    def hangs_on_arg(body, operand, field, env_caps=None):
        """operand reads <K's argument>.field (K's argument is parameter 2 of K)"""
        e = T.expr(body, operand, depth=14)
        for x in T.expr_walk(e):
            if x[0] == 'place' and x[1] == 2 and body is K and x[2] and x[2][-1] == (SVE, field): return True
        return False
    ids_calls = [c for c in K.calls if c.item == 'iter' and c.args and hangs_on_arg(K, c.args[0], 'ids')]
    if not ids_calls: return False, 'the ids iterated are not those of the entry handed to the closure'
    # (b)
    for z in K.calls:
        if z.item == 'zip' and len(z.args) == 2 and any(i in ctx.S.slice_operand(K, z.args[0]).call_objs for i in ids_calls):
            reps = [r for r in ctx.S.slice_operand(K, z.args[1]).call_objs if r.item == 'repeat' and r.args]
            if reps and all(hangs_on_arg(K, r.args[0], 'value') for r in reps): return True, ''
    # (a)
    for m in K.calls:
        if m.item != 'map' or len(m.args) != 2 or not any(i in ctx.S.slice_operand(K, m.args[0]).call_objs for i in ids_calls): continue
        K2, caps2 = closure_of(ctx, K, m.args[1])
        if K2 is None: continue
        rets = [rs for e, k, rs in K2.ret_assignments() if k == 'val' and rs['rv']['k'] == 'agg' and rs['rv']['adt'] == 'tuple' and len(rs['rv']['ops']) == 2]
        if len(rets) != 1 or len(K2.ret_assignments()) != 1: continue
        ide = T.strip_wrappers(T.expr(K2, rets[0]['rv']['ops'][0])); ve = T.expr(K2, rets[0]['rv']['ops'][1])
        if ide != ('place', 2, []): continue
        vplaces = [x for x in T.expr_walk(ve) if x[0] == 'place' and x[1] == 1 and x[2] and x[2][0][1].isdigit()]
        for x in vplaces:
            k = int(x[2][0][1]); rest = [f for f in x[2][1:]]
            if k >= len(caps2): continue
            ce = T.expr(K, caps2[k], depth=14)
            cplaces = [y for y in T.expr_walk(ce) if y[0] == 'place' and y[1] == 2]
            for y in cplaces:
                full = list(y[2]) + rest
                if full and full[-1] == (SVE, 'value') and (SVE, 'ids') not in full: return True, ''
    return False, 'the second component is not `.value` of the entry whose ids are iterated'


def compress_rules(ctx):
    R = 'C06.compress'
    # Samples::map: each entry -> value of that entry's state, with that entry's ids
    b = ctx.method(R + '/map/anchor', 'v1::Samples', 'map')
    if b is not None:
        holders = [b] + list(ctx.F.closures_of(b))
        ok = False; n = 0
        for cb in holders:
            for bi, st in find_aggregates(cb, SVE):
                n += 1
                vx = T.expr(cb, agg_field_operand(st, 'value'), depth=40); ix = T.expr(cb, agg_field_operand(st, 'ids'), depth=20)
                bs = entry_base(vx, 'v1::samples::SamplesEntry', 'state'); bids = entry_base(ix, 'v1::samples::SamplesEntry', 'ids')
                same = bs is not None and bs == bids
                if cb is b and same:
                    # ... and that entry is the item of a loop over self.entries (`self.entries[0]` is not "this entry")
                    lo = [l for l in loops_over(ctx, b, 'v1::Samples', 'entries') if bi in l[4]]
                    same = bool(lo) and bs[0] == 'call' and bs[1] == lo[-1][0].bb
                elif same:
                    same = bs[0] == 'place' and bs[1] == 2            # the closure's own item
                applied = any(x[0] == 'call' and re.search(r'Fn(Mut|Once)?<|call_mut|call_once|::call$|<indirect:', x[2]) for x in T.expr_calls(vx))
                ok = same and applied
                ctx.fn(cb)
        ctx.check(ok and n == 1, R + '/map/entry', 'T-CARRY', b.name, 'SampledValuesEntry is not {value: f(entry.state), ids: entry.ids} of the same entry', b.site())
        # every input entry yields exactly ONE output entry, namely that pair, and nothing else is ever written into the output:
        # in every iteration of the loop over self.entries the pair is pushed (once), and the output vector is touched by nothing but
        # these pushes (no `out[j].ids.extend(..)` merging into an entry produced for another input entry -- seed C06-7)
        lo_e = loops_over(ctx, b, 'v1::Samples', 'entries')
        aggl = [st['dst']['l'] for bi, st in find_aggregates(b, SVE) if not st['dst']['p']]
        pushes = [c for c in b.calls if c.item == 'push' and re.search(r'Vec::<(v1::sampled_values::SampledValuesEntry|T)>::push', c.name) and len(c.args) == 2
                  and any(l in ctx.S.slice_operand(b, c.args[1]).locals for l in aggl)]
        one = False; others = []
        if pushes and lo_e:
            out = {root_local(b, c.args[0]) for c in pushes}
            lo = [l for l in lo_e if all(c.bb in l[4] for c in pushes)]
            one = len(out) == 1 and None not in out and bool(lo) and must_pass_sem(ctx, b, lo[-1][2], {lo[-1][1]}, {c.bb for c in pushes}) and at_most_once(b, pushes, lo[-1][1]) and not restricting(ctx, b, lo[-1])
            o = next(iter(out))
            for c in b.calls:
                if c in pushes or c.item in ('new', 'with_capacity'): continue
                for a in c.args:
                    if a['k'] in ('copy', 'move') and '&mut' in b.locals[a['pl']['l']] and root_local(b, a) == o: others.append(c)
            others += [bi for bi, st in b.stmts() if st['dst']['p'] and st['dst']['l'] == o]
        ctx.check(one and not others, R + '/map/one-output-per-entry', 'T-LOOPMUST', b.name,
                  'an input entry does not yield exactly its own output entry (skipped push / other write into the output: %s)' % ([getattr(x, 'name', x) for x in others][:2],), b.site())
        s = ctx.S.backslice(b, [0])
        restr = sorted({x.item for x in s.call_objs if x.item in RESTRICTING and 'Iterator' in (x.trait or '')})
        ctx.check(s.has_field('v1::Samples', 'entries') and not restr, R + '/map/all-entries', 'T-LOOPMUST', b.name, 'map does not visit every entry %s' % restr, b.site())
    # SampledValues::get
    b = ctx.method(R + '/get/anchor', 'v1::SampledValues', 'get')
    if b is not None: values_get_rules(ctx, R, b)
    # SampledValues::iter: (id, value) of the same entry
    b = ctx.method(R + '/iter/anchor', 'v1::SampledValues', 'iter')
    if b is not None:
        ok, why = values_iter_pairs(ctx, b)
        s = ctx.S.backslice(b, [0])
        restr = sorted({x.item for x in s.call_objs if x.item in RESTRICTING and 'Iterator' in (x.trait or '')})
        ctx.check(ok and not restr and s.has_field(SVE, 'ids') and s.has_field('v1::SampledValues', 'entries'), R + '/iter/pairs', 'T-CARRY', b.name, 'iter does not yield (id, value-of-that-entry): %s' % (why or restr), b.site())
    # Samples::ids / iter / transpose
    b = ctx.method(R + '/ids/anchor', 'v1::Samples', 'ids')
    if b is not None:
        s = ctx.S.backslice(b, [0])
        restr = sorted({x.item for x in s.call_objs if x.item in RESTRICTING and 'Iterator' in (x.trait or '')})
        ctx.check(s.has_field('v1::Samples', 'entries') and s.has_field('v1::samples::SamplesEntry', 'ids') and not restr, R + '/ids/all', 'T-CARRY', b.name, 'ids() does not enumerate the ids of every entry', b.site())
    b = ctx.method(R + '/transpose/anchor', 'v1::Samples', 'transpose')
    if b is not None: with_renormalised(ctx, b, lambda bd: transpose_rules(ctx, R, bd))


def transpose_rules(ctx, R, b):
    """Samples::transpose: for every entry, every sample id s of it and every (d, v) of ITS state:  result[d][OrderedFloat(v)].push(s).
    Phrased on the nest of loops around the push, whatever produces the (id, state) pairs: the helper iterator `self.iter()`
    (one loop over pairs) or explicit loops over self.entries / entry.ids; the two map lookups chained or split into statements."""
    ENT = 'v1::samples::SamplesEntry'
    pu = [c for c in b.calls if c.item == 'push' and 'Vec::<u64>::push' in c.name]
    ctx.check(len(pu) >= 1, R + '/transpose/push', 'T-LOOPMUST', b.name, 'no push of a sample id', b.site())
    for c in pu[:1]:
        rs = ctx.S.slice_operand(b, c.args[0]); vs = ctx.S.slice_operand(b, c.args[1])
        chain = sorted([l for l in T.for_loops(b) if c.bb in l[4]], key=lambda l: -len(l[4]))         # outermost first
        its = [ctx.S.slice_operand(b, l[0].args[0]) for l in chain]
        ok = len(chain) >= 2
        why = []
        if ok:
            inner = chain[-1]; outer = chain[:-1]
            # the innermost loop walks the (variable id, value) pairs of a state; the loops around it walk all entries and all their ids
            if not its[-1].has_field('v1::State', 'entries'): why.append('innermost loop is not over state.entries')
            allf = lambda a, f: any(x.has_field(a, f) for x in its) or vs.has_field(a, f)
            for a, f in (('v1::Samples', 'entries'), (ENT, 'ids'), (ENT, 'state')):
                if not allf(a, f): why.append('no loop over %s.%s' % (a.split('::')[-1], f))
            # the pushed value is a sample id of the entry: from an enclosing loop, not from the state pair
            by_slice = any(l[0].dst['l'] in vs.locals for l in outer) and inner[0].dst['l'] not in vs.locals
            # (the slice mixes the components of a tuple that is copied as a whole -- `(variable, value, sample)` triples handed from a map closure to a for_each
            #  closure; value_sources follows the component itself)
            leaves = value_sources(b, c.args[1])
            by_component = bool(leaves) and all(k == 'call' and obj.bb in {l[0].bb for l in outer} for k, bb, obj, pending in leaves)
            if not (vs.has_field(ENT, 'ids') and (by_slice or by_component)): why.append('pushed value is not the sample id')
            # ... of the SAME entry whose state is walked: id and state hang on the item of one common loop
            if not any(l[0].dst['l'] in vs.locals and l[0].dst['l'] in its[-1].locals for l in outer): why.append('sample id and state do not belong to the same entry')
            # keyed by (variable id, value) of this pair: two map lookups (chained or one after the other), one of them under OrderedFloat(value)
            ents = [x for x in rs.call_objs if x.item == 'entry']
            keys = [T.expr(b, x.args[1]) for x in ents]
            if not (len(ents) == 2 and inner[0].dst['l'] in rs.locals and all(inner[0].dst['l'] in ctx.S.slice_operand(b, x.args[1]).locals for x in ents)
                    and any(T.expr_has_call(k, 'OrderedFloat') or (k[0] == 'agg' and 'OrderedFloat' in k[1]) for k in keys)): why.append('not filed under (variable id, OrderedFloat(value)) of the pair')
            # nothing is skipped: each loop of the nest reaches the next one (the innermost the push) in every iteration, no restricted iterator
            for l, nxt in zip(chain, chain[1:]):
                if not must_pass_sem(ctx, b, l[2], {l[1]}, {nxt[1]}): why.append('an iteration can skip the inner loop')
            restr = sorted({x for l in chain for x in restricting(ctx, b, l)})
            if restr: why.append('iterator restricted by %s' % restr)
            loop_must(ctx, R + '/transpose/every-value', b, inner, lambda x: x is c, 'push(sample_id)')
        ctx.check(ok and not why, R + '/transpose/keyed', 'T-CARRY', b.name, 'sample id is not pushed under (variable id, value) of the same state entry: %s' % ('; '.join(why) or 'no loop nest'), b.site(c.bb))


# evaluate_samples resolves the dependent variables of every state through eval_dependencies (C04.deps) and has to call it on the
# dependency map (C04.use); those rule families are re-decided under this property
# ... and `SampleSet::get(i) == evaluate(state_i)` holds only if Instance::evaluate reports the state the way evaluate_samples builds it
# (substituted / dependent / default values: C05.state -- seed C06-10 changes the default value in evaluate only)
# ... and the used ids a kernel reports must not depend on the state (evaluate_samples stores their union over all samples, get() hands that union to every
# extracted sample): the C01 kernel families, as under C05 (seed C06-11: Polynomial::evaluate leaves a monomial at its first zero factor)
RELIES_ON = {'C01': ['C01.lookup', 'C01.fields', 'C01.every-term', 'C01.linear-none', 'C01.oneof', 'C01.used'], 'C04': ['C04.deps', 'C04.use'], 'C05': ['C05.state'],
             # a partially evaluated instance: fixed values are recorded and the dependency functions are partially evaluated as well, otherwise
             # evaluate (which inserts the fixed values first) and evaluate_samples (which does not) part ways (seeds C05-15, C06-15 / C04-12)
             'C03': ['C03.instance/record', 'C03.instance/cover/decision_variable_dependency', 'C03.instance/apply/decision_variable_dependency']}


def check(ctx):
    body = ctx.method('C06.anchor/Instance::evaluate_samples', INST, 'evaluate_samples', trait='Evaluate')
    if body is not None: with_renormalised(ctx, body, lambda bd: evaluate_samples_rules(ctx, bd))
    kernel_rules(ctx)
    constraint_rules(ctx)
    get_rules(ctx)
    compress_rules(ctx)
    # floors = decided instances per family on the pinned tree
    ctx.floor('C06.samples', 50); ctx.floor('C06.keys', 4); ctx.floor('C06.sibling', 12); ctx.floor('C06.constraint', 31); ctx.floor('C06.rule', 15)
    ctx.floor('C06.kernel', 20); ctx.floor('C06.get', 16); ctx.floor('C06.compress', 12); ctx.floor('C06.cover', 22)
