"""C04 — substitution and dependent variables (DESIGN §5 C04)."""
from .common import *

INST = 'v1::Instance'
SUBST = r'impl v1::Function>::substitute$'


def instance_rules(ctx):
    R = 'C04.instance'
    b = ctx.method(R + '/anchor', INST, 'substitute')
    if b is None: return
    cover(ctx, R + '/cover', b, INST, exempt=('description', 'sense', 'parameters', 'constraint_hints', 'decision_variables'))
    subs = [c for c in b.calls if c.item == 'substitute' and re.search(SUBST, c.path)]
    want = {'objective': [(INST, 'objective')], 'constraints': [(INST, 'constraints'), ('v1::Constraint', 'function')],
            'removed_constraints': [(INST, 'removed_constraints'), ('v1::RemovedConstraint', 'constraint'), ('v1::Constraint', 'function')],
            'decision_variable_dependency': [(INST, 'decision_variable_dependency')]}
    found = {}
    for c in subs:
        s = ctx.S.slice_operand(b, c.args[0])
        cands = [f for f, need in want.items() if all(s.has_field(a, x) for a, x in need)]
        # most specific match (removed_constraints also has Constraint.function)
        cands.sort(key=lambda f: -len(want[f]))
        if cands and cands[0] not in found: found[cands[0]] = c
    for f in want:
        c = found.get(f)
        ctx.check(c is not None, R + '/rewrite/' + f, 'T-MUSTCALL', b.name, 'functions held by self.%s are not substituted' % f, b.site())
        if c is None: continue
        ctx.check(T.access_path(b, c.args[1])[1] == 2, R + '/rewrite/%s/map' % f, 'T-CARRY', b.name, 'not substituted with the given replacement map', b.site(c.bb))
        errflow_calls(ctx, R + '/rewrite/%s/error' % f, b, [c], 'Function::substitute')
        # result written back into the place it was read from
        recv_root = T.access_path(b, c.args[0], transparent=T.TRANSPARENT_NOCLONE)[1]
        ws = []
        for bi, st in b.stmts():
            if st['dst']['p'] == ['*'] and st['rv']['k'] == 'use':
                s = ctx.S.slice_operand(b, st['rv']['ops'][0])
                if c in s.call_objs and T.access_path(b, {'k': 'copy', 'pl': {'l': st['dst']['l'], 'p': []}}, transparent=T.TRANSPARENT_NOCLONE)[1] == recv_root:
                    ws.append(bi)
        ctx.check(len(ws) == 1, R + '/rewrite/%s/written-back' % f, 'T-CARRY', b.name, 'the substituted function is not written back to where it was read', b.site(c.bb))
        if f == 'objective':
            must_pass_or_none(ctx, R + '/rewrite/objective/every-path', b, c, INST, 'objective', 'substituting the objective')
        else:
            ls = [lo for lo in T.for_loops(b) if c.bb in lo[4]]
            ctx.check(len(ls) == 1, R + '/rewrite/%s/loop' % f, 'T-LOOPMUST', b.name, 'not inside one loop over self.%s' % f, b.site(c.bb))
            for lo in ls:
                via = {c.bb}
                # a constraint without function (None) has nothing to rewrite
                for adt, fld in (('v1::Constraint', 'function'), ('v1::RemovedConstraint', 'constraint')):
                    for sb, sm, nn in option_field_tests(b, adt, fld):
                        if sb in lo[4]: via.add(nn)
                for x in b.calls:
                    if x.bb in lo[4] and x.item == 'as_mut' and 'Option::<v1::Function>' in x.name:
                        for sb2, m2, els2 in T.option_arms(b, x.dst['l']): via.add(m2.get(0, els2))
                ctx.check(T.must_pass(b, lo[2], {lo[1]}, via), R + '/rewrite/%s/every-item' % f, 'T-LOOPMUST', b.name, 'an element can be skipped', b.site(c.bb))
                si = ctx.S.slice_operand(b, lo[0].args[0])
                restr = sorted({x.item for x in si.call_objs if x.item in RESTRICTING and 'Iterator' in (x.trait or '')})
                ctx.check(not restr, R + '/rewrite/%s/all-items' % f, 'T-LOOPMUST', b.name, 'iterator restricted by %s' % restr, b.site(c.bb))
                ctx.check(all(b.dominates(lo[1], e) for e in b.strict_ok_exits()), R + '/rewrite/%s/dominates' % f, 'T-MUSTCALL', b.name, 'loop does not dominate the Ok-exit', b.site(c.bb))
    # the replacement map is recorded
    ext = [c for c in b.calls if c.item == 'extend' and 'HashMap<u64, v1::Function>' in c.name]
    ok = False
    for c in ext:
        if (INST, 'decision_variable_dependency') in T.access_path(b, c.args[0])[0] and T.access_path(b, c.args[1])[1] == 2 and all(b.dominates(c.bb, e) for e in b.strict_ok_exits()): ok = True
    ctx.check(ok, R + '/record-map', 'T-MUSTCALL', b.name, 'decision_variable_dependency.extend(replacement) is not on every success path', b.site())
    if ext and 'decision_variable_dependency' in found:
        # existing dependencies are rewritten before the new ones are added (new ones are not substituted into themselves)
        lo = [l for l in T.for_loops(b) if found['decision_variable_dependency'].bb in l[4]]
        if lo: ctx.check(b.dominates(lo[0][1], ext[0].bb) and ext[0].bb not in lo[0][4], R + '/record-after-rewrite', 'T-BRANCHFX', b.name, 'the map is recorded before existing dependencies are rewritten', b.site(ext[0].bb))
    writes_only(ctx, R + '/only', b, {'objective', 'constraints', 'removed_constraints', 'decision_variable_dependency'})


def function_rules(ctx):
    R = 'C04.function'
    b = ctx.method(R + '/anchor', 'v1::Function', 'substitute')
    if b is None: return
    # empty map => clone
    emp = [c for c in b.calls if c.item == 'is_empty' and 'HashMap' in c.name and T.access_path(b, c.args[0])[1] == 2]
    okc = False
    for c in emp:
        for g in T.guards_from_call(b, c):
            tr = T.reach_cp(b, [g.true_bb]) - T.reach_cp(b, [g.false_bb])
            for e, k, st in b.ret_assignments():
                if e in tr and k == 'ok':
                    ex = T.expr(b, st['rv']['ops'][0])
                    if ex[0] == 'call' and ex[1] == 'clone' and T.strip_wrappers(ex) == ('place', 1, []): okc = True
    ctx.check(okc, R + '/empty-map-is-identity', 'T-BRANCHFX', b.name, 'an empty replacement map does not return a clone of self', b.site())
    loops = T.for_loops(b)
    outer = [lo for lo in loops if ctx.S.slice_operand(b, lo[0].args[0]).has_call(r'IntoIterator for &v1::Function>::into_iter') and not any(set(lo[4]) < set(o[4]) for o in loops)]
    ctx.check(len(outer) == 1, R + '/term-loop', 'T-LOOPMUST', b.name, 'expected one loop over the terms of self', b.site())
    if len(outer) != 1: return
    o = outer[0]
    inner = [lo for lo in loops if set(lo[4]) < set(o[4])]
    ctx.check(len(inner) == 1, R + '/id-loop', 'T-LOOPMUST', b.name, 'expected one loop over the ids of a term', b.site())
    if len(inner) != 1: return
    i = inner[0]
    ctx.check(o[0].dst['l'] in ctx.S.slice_operand(b, i[0].args[0]).locals, R + '/id-loop/of-term', 'T-CARRY', b.name, 'inner loop does not iterate the ids of the current term', b.site(i[0].bb))
    probes = [c for c in b.calls if c.bb in i[4] and c.item == 'get' and 'HashMap::<u64, v1::Function>::get' in c.name]
    ctx.check(len(probes) == 1, R + '/probe', 'T-BRANCHFX', b.name, 'expected one replacements.get(id), found %d' % len(probes), b.site())
    muls = [c for c in b.calls if c.bb in i[4] and c.item == 'mul' and (c.trait or '').endswith('ops::Mul')]
    if len(probes) == 1:
        p = probes[0]
        ctx.check(T.access_path(b, p.args[0])[1] == 2 and i[0].dst['l'] in ctx.S.slice_operand(b, p.args[1]).locals, R + '/probe/key', 'T-CARRY', b.name, 'probe is not replacements.get(id of this term)', b.site(p.bb))
        loop_must(ctx, R + '/probe/every-id', b, i, lambda c: c is p, 'replacements.get(id)')
        arms = T.option_arms(b, p.dst['l'])
        ok_some = ok_none = False
        for sb, m, els in arms:
            sr = b.reach([m.get(1, els)], stop={i[1]}) - b.reach([m.get(0, els)], stop={i[1]})
            nr = b.reach([m.get(0, els)], stop={i[1]}) - b.reach([m.get(1, els)], stop={i[1]})
            for c in muls:
                a0 = T.expr(b, c.args[0]); a1 = T.expr(b, c.args[1], depth=12)
                if c.bb in sr:
                    # v * replacement.clone()
                    if any(x[0] == 'call' and x[1] == 'get' and len(x) > 4 and x[4] == p.bb for x in T.expr_walk(a1)) and T.must_pass(b, m.get(1, els), {i[1]}, {c.bb}): ok_some = True
                if c.bb in nr:
                    st_ = [x for x in T.expr_walk(a1) if x[0] == 'call' and x[1] == 'single_term']
                    if st_ and st_[0][3][1] == ('const', '1f64') and T.must_pass(b, m.get(0, els), {i[1]}, {c.bb}):
                        kx = st_[0][3][0]
                        if any(x[0] == 'call' and x[1] == 'next' and len(x) > 4 and x[4] == i[0].bb for x in T.expr_walk(kx)): ok_none = True
        ctx.check(ok_some, R + '/case/replaced', 'T-BRANCHFX', b.name, 'a replaced id does not multiply the term by its replacement', b.site(p.bb))
        ctx.check(ok_none, R + '/case/kept', 'T-BRANCHFX', b.name, 'an id without replacement does not multiply the term by x_id (single_term(id, 1.0))', b.site(p.bb))
    # the running product `v`: starts from the coefficient, is the left operand and the destination of every Mul
    vroots = set()
    for c in muls:
        vroots.add(T.access_path(b, c.args[0], transparent=T.TRANSPARENT_NOCLONE)[1])
    v_init_ok = False
    froms = [c for c in b.calls if c.bb in o[4] and c.bb not in i[4] and c.item == 'from' and re.search(r'From<f64> for v1::Function|From<f64>>::from', c.name)]
    for c in froms:
        if o[0].dst['l'] in ctx.S.slice_operand(b, c.args[0]).locals and [f for a, f in T.own_fields(T.expr(b, c.args[0])) if a == 'tuple'][-1:] == ['1']: v_init_ok = True
    ctx.check(v_init_ok, R + '/product-starts-from-coefficient', 'T-CARRY', b.name, 'the factor product does not start from Function::from(coefficient)', b.site())
    # out = out + v for every term; returned
    adds = [c for c in b.calls if c.bb in o[4] and c.bb not in i[4] and c.item == 'add' and (c.trait or '').endswith('ops::Add') and 'v1::Function' in c.name]
    ctx.check(len(adds) == 1, R + '/sum/one-add', 'T-LOOPMUST', b.name, 'expected one `out = out + v`, found %d' % len(adds), b.site())
    for c in adds:
        ctx.check(T.must_pass(b, o[2], {o[1]}, {c.bb}), R + '/sum/every-term', 'T-LOOPMUST', b.name, 'a term can be skipped', b.site(c.bb))
        s1 = ctx.S.slice_operand(b, c.args[1]); s0 = ctx.S.slice_operand(b, c.args[0])
        ctx.check(all(m in s1.call_objs for m in muls) and any(f in s1.call_objs for f in froms), R + '/sum/adds-the-product', 'T-CARRY', b.name, 'the added value is not the factor product of this term', b.site(c.bb))
        for e, k, st in b.ret_assignments():
            if k == 'ok' and e not in b.reach([0], stop={o[1]}) | set():
                s = ctx.S.slice_operand(b, st['rv']['ops'][0])
                ctx.check(c in s.call_objs, R + '/sum/returned', 'T-CARRY', b.name, 'the accumulated sum is not returned', b.site(e))
    zs = [c for c in b.calls if c.item == 'zero' and 'v1::Function' in c.name]
    ctx.check(len(zs) == 1 and zs[0].bb not in o[4], R + '/sum/starts-from-zero', 'T-CONST', b.name, 'the sum does not start from Function::zero()', b.site())
    si = ctx.S.slice_operand(b, o[0].args[0])
    restr = sorted({x.item for x in si.call_objs if x.item in RESTRICTING and 'Iterator' in (x.trait or '')})
    ctx.check(not restr and T.access_path(b, [c for c in si.call_objs if c.item == 'into_iter' and 'v1::Function' in c.name][0].args[0])[1] == 1, R + '/term-loop/all-terms-of-self', 'T-LOOPMUST', b.name, 'not all terms of self are visited', b.site())


def deps_rules(ctx):
    R = 'C04.deps'
    b = ctx.free_fn(R + '/anchor', 'evaluate::eval_dependencies')
    if b is None: return
    oks = b.strict_ok_exits(); errs = b.err_exits()
    # queue initialised from every dependency
    pops = [c for c in b.calls if c.item == 'pop' and 'Vec::<(&u64, &v1::Function)>' in c.name]
    ctx.check(len(pops) == 1, R + '/queue/pop', 'T-LOOPMUST', b.name, 'expected one bucket.pop()', b.site())
    if len(pops) != 1: return
    pop = pops[0]
    bucket = T.access_path(b, pop.args[0], transparent=T.TRANSPARENT_NOCLONE)[1]
    s = ctx.S.backslice(b, [bucket], depth=0)
    restr = sorted({x.item for x in s.call_objs if x.item in RESTRICTING and 'Iterator' in (x.trait or '')})
    ctx.check(1 in s.params and any(c.item == 'collect' for c in s.call_objs) and not restr, R + '/queue/all-dependencies', 'T-CARRY', b.name, 'the work list is not initialised with every dependency', b.site())
    # evaluate the popped function at the state; Ok => store under the popped id; Err => re-queue the same pair
    ev = [c for c in b.calls if c.item == 'evaluate' and 'v1::Function as evaluate::Evaluate' in c.name]
    ctx.check(len(ev) == 1, R + '/step/evaluate', 'T-LOOPMUST', b.name, 'expected one f.evaluate(state)', b.site())
    if len(ev) != 1: return
    ev = ev[0]
    fx = T.expr(b, ev.args[0]); sx = T.strip_wrappers(T.expr(b, ev.args[1]))
    ctx.check(any(x[0] == 'call' and x[1] == 'pop' for x in T.expr_walk(fx)) and [f for a, f in T.own_fields(fx) if a == 'tuple'][-1:] == ['1'], R + '/step/evaluates-popped-function', 'T-CARRY', b.name,
              'the evaluated function is not the popped one', b.site(ev.bb))
    ctx.check(sx == ('place', 2, []), R + '/step/at-current-state', 'T-CARRY', b.name, 'not evaluated at the state being completed', b.site(ev.bb))
    arms = T.option_arms(b, ev.dst['l'])
    ok_store = ok_requeue = False
    some_pop = [m.get(1, els) for sb, m, els in T.option_arms(b, pop.dst['l'])]
    hdrs = set(b.loops())
    for sb, m, els in arms:
        okb = m.get(0, els); erb = m.get(1, els)
        okr = b.reach([okb], stop=hdrs | {pop.bb}) - b.reach([erb], stop=hdrs | {pop.bb}); err = b.reach([erb], stop=hdrs | {pop.bb}) - b.reach([okb], stop=hdrs | {pop.bb})
        for c in b.calls:
            if c.bb in okr and c.item == 'insert' and 'HashMap::<u64, f64>::insert' in c.name:
                kx = T.expr(b, c.args[1]); vx = T.expr(b, c.args[2])
                key_ok = kx[0] == 'proj' and kx[1][0] == 'call' and kx[1][1] == 'pop' and [f for a, f in T.own_fields(kx) if a == 'tuple'] == ['0']
                val_ok = any(x[0] == 'call' and x[1] == 'evaluate' and len(x) > 4 and x[4] == ev.bb for x in T.expr_walk(vx)) and [f for a, f in T.own_fields(vx) if a == 'tuple'][-1:] == ['0']
                tgt_ok = ('v1::State', 'entries') in T.access_path(b, c.args[0])[0] and T.access_path(b, c.args[0])[1] == 2
                if key_ok and val_ok and tgt_ok and T.must_pass(b, okb, {pop.bb}, {c.bb}): ok_store = True
            if c.bb in err and c.item == 'push' and 'Vec::<(&u64, &v1::Function)>::push' in c.name:
                px = T.expr(b, c.args[1])
                if px[0] == 'agg' and px[1] == 'tuple' and len(px[2]) == 2:
                    k0 = [f for a, f in T.own_fields(px[2][0]) if a == 'tuple'][-1:]; k1 = [f for a, f in T.own_fields(px[2][1]) if a == 'tuple'][-1:]
                    both_pop = all(any(x[0] == 'call' and x[1] == 'pop' for x in T.expr_walk(y)) for y in px[2])
                    if k0 == ['0'] and k1 == ['1'] and both_pop and T.must_pass(b, erb, {pop.bb}, {c.bb}):
                        ok_requeue = True; pending = T.access_path(b, c.args[0], transparent=T.TRANSPARENT_NOCLONE)[1]
    ctx.check(ok_store, R + '/step/store-under-own-id', 'T-BRANCHFX', b.name, 'a successfully evaluated dependency is not stored as state[id] = value of the same entry', b.site(ev.bb))
    ctx.check(ok_requeue, R + '/step/requeue-same-entry', 'T-BRANCHFX', b.name, 'a dependency that cannot be evaluated yet is not re-queued unchanged', b.site(ev.bb))
    if not ok_requeue: return
    # (a) pending list empty <=> the only Ok-exit
    emp = [c for c in b.calls if c.item == 'is_empty' and T.access_path(b, c.args[0], transparent=T.TRANSPARENT_NOCLONE)[1] == pending]
    a_ok = False
    for c in emp:
        for g in T.guards_from_call(b, c):
            tr = T.reach_cp(b, [g.true_bb], stop=hdrs); fr = T.reach_cp(b, [g.false_bb], stop=hdrs) if g.false_bb is not None else set()
            if (tr & oks) and not (tr & errs) and not (fr & oks) and g.dominates_ok_exits(): a_ok = True
    ctx.check(a_ok, R + '/exit/ok-only-when-nothing-pending', 'T-GUARD', b.name, 'Ok can be returned while dependencies are still pending (partial answer)', b.site())
    # (b) no progress => Err ; (c) progress measure updated
    prev = None; b_ok = False
    for bi, st in b.stmts():
        if st['rv']['k'] == 'bin' and st['rv']['op'] == 'Eq' and st['rv'].get('ty') == 'usize':
            xs = [T.expr(b, o) for o in st['rv']['ops']]
            lens = [x for x in xs if x[0] == 'call' and x[1] == 'len']
            others = [x for x in xs if not (x[0] == 'call' and x[1] == 'len')]
            if lens and others and others[0][0] in ('local', 'place'):
                for g in T.guards_from_local(b, st['dst']['l'], bi):
                    tr = T.reach_cp(b, [g.true_bb], stop=hdrs)
                    if (tr & errs) and not (tr & oks) and not any(h in T.reach_cp(b, [g.true_bb]) for h in hdrs if False):
                        b_ok = True; prev = others[0][1]; cont_bb = g.false_bb; eq_bb = bi
    ctx.check(b_ok, R + '/exit/no-progress-is-error', 'T-GUARD', b.name, 'no `pending size unchanged => error` test (cyclic dependencies would loop forever)', b.site())
    if b_ok:
        # the stall test sits on every path that goes round the outer loop again
        outer_h = [h for h, bl in b.loops().items() if eq_bb in bl]
        outer_h = max(outer_h, key=lambda h: len(b.loops()[h])) if outer_h else None
        ctx.check(outer_h is not None and all(eq_bb in b.back_reach({t}) and T.must_pass(b, outer_h, {t} if False else set(), set()) is not None for t, hh in b.back_edges() if hh == outer_h), R + '/exit/stall-test-on-every-retry', 'T-LOOPMUST', b.name, 'retry path bypasses the stall test', b.site())
        if outer_h is not None:
            tails = [t for t, hh in b.back_edges() if hh == outer_h]
            # every path from the pop-loop exit (queue drained) to the back edge passes the Eq test
            none_pop = [m.get(0, els) for sb, m, els in T.option_arms(b, pop.dst['l'])]
            ctx.check(all(T.must_pass(b, n, set(tails), {eq_bb}) for n in none_pop), R + '/exit/stall-test-before-retry', 'T-LOOPMUST', b.name, 'a retry round can start without the stall test', b.site())
        c_ok = False
        for k, bi, d in b.defs_of(prev):
            if k == 'stmt' and bi in T.reach_cp(b, [cont_bb], stop=hdrs):
                ex = T.expr(b, d['rv']['ops'][0]) if d['rv'].get('ops') else None
                if ex and ex[0] == 'call' and ex[1] == 'len': c_ok = True
        ctx.check(c_ok, R + '/exit/progress-measure-updated', 'T-BRANCHFX', b.name, 'the remembered pending size is not updated before retrying', b.site())
        # initial measure = number of dependencies
        init_ok = any(k == 'call' and (d['r'] or d['f']).endswith('::len') and bi not in set().union(*b.loops().values()) for k, bi, d in b.defs_of(prev))
        ctx.check(init_ok, R + '/exit/initial-measure', 'T-CARRY', b.name, 'the progress measure does not start from the number of dependencies', b.site())
    # pending entries go back into the work list
    app = [c for c in b.calls if c.item == 'append' and 'Vec::<(&u64, &v1::Function)>' in c.name]
    okapp = any(T.access_path(b, c.args[0], transparent=T.TRANSPARENT_NOCLONE)[1] == bucket and T.access_path(b, c.args[1], transparent=T.TRANSPARENT_NOCLONE)[1] == pending for c in app)
    ctx.check(okapp, R + '/queue/pending-requeued', 'T-BRANCHFX', b.name, 'pending entries are not moved back into the work list', b.site())


def use_rules(ctx):
    for item in ('evaluate', 'evaluate_samples'):
        b = ctx.method('C04.use/%s/anchor' % item, INST, item, trait='Evaluate')
        if b is None: continue
        ed = [c for c in b.calls if c.item == 'eval_dependencies']
        ok = len(ed) == 1 and ctx.S.slice_operand(b, ed[0].args[0]).has_field(INST, 'decision_variable_dependency')
        ctx.check(ok, 'C04.use/%s/calls-eval_dependencies' % item, 'T-MUSTCALL', b.name, 'eval_dependencies is not applied to the dependency map', b.site())
        errflow_calls(ctx, 'C04.use/%s/error' % item, b, ed, 'eval_dependencies')
        # variables without a value must still be missing when the dependencies are evaluated: a default
        # filled in earlier would hide cyclic / unsatisfiable dependencies and feed placeholders into chains
        vac = [c for c in b.calls if c.item == 'insert' and 'VacantEntry' in c.name]
        if ed:
            early = [b.site(c.bb) for c in vac if not b.dominates(ed[0].bb, c.bb)]
            ctx.check(not early, 'C04.use/%s/no-defaults-before-dependencies' % item, 'T-MUSTCALL', b.name,
                      'omitted variables are filled with default values before eval_dependencies runs (%s)' % early, b.site(ed[0].bb))


def check(ctx):
    instance_rules(ctx); function_rules(ctx); deps_rules(ctx); use_rules(ctx)
    ctx.floor('C04.instance', 30); ctx.floor('C04.function', 14); ctx.floor('C04.deps', 12); ctx.floor('C04.use', 6)
