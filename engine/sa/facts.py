"""Loader for the JSON-lines facts emitted by engine/factdrv and basic CFG utilities.

Everything here works on the mini-MIR of the *current* /repo tree; nothing is executed.
"""
import json, collections, re, functools

PANIC_RE = re.compile(r'(panicking::(panic|panic_fmt|assert_failed|panic_nounwind|panic_bounds_check|unreachable_display|panic_display|panic_explicit)|'
                      r'result::unwrap_failed|option::unwrap_failed|option::expect_failed|Option::<.*>::unwrap$|Option::<.*>::expect$|'
                      r'Result::<.*>::unwrap$|Result::<.*>::expect$|begin_panic|slice_index_fail|slice_(start|end)_index_len_fail)')


def strip_generics(name):
    """remove ::<...> segments (turbofish args) from a rendered def path"""
    out = []; i = 0; n = len(name)
    while i < n:
        if name.startswith('::<', i):
            depth = 1; i += 3
            while depth and i < n:
                ch = name[i]
                if ch == '<': depth += 1
                elif ch == '>':
                    if name[i-1] != '-': depth -= 1
                i += 1
            continue
        out.append(name[i]); i += 1
    return ''.join(out)


class Call:
    __slots__ = ('bb', 'term', 'name', 'path', 'hdr', 'args', 'dst', 'target', 'span', 'gargs', 'orig')

    def __init__(self, bb, t):
        self.bb = bb; self.term = t
        self.name = t['r'] or t['f']          # rendered, with generic args
        self.orig = t['f']
        self.path = t.get('rp') or t.get('fp') or strip_generics(self.name)   # def path without args
        self.hdr = t.get('ri') or {}
        self.args = t['args']; self.dst = t['dst']; self.target = t['t']
        self.span = t.get('span'); self.gargs = t.get('ga', [])

    @property
    def item(self): return self.hdr.get('item') or self.path.split('::')[-1]
    @property
    def trait(self): return self.hdr.get('trait')
    @property
    def self_ty(self):
        st = self.hdr.get('self')
        if st is None and self.hdr.get('trait') and self.gargs:
            return self.gargs[0]          # provided trait method: Self is the first generic argument
        return st
    @property
    def line(self): return self.span['lo'] if self.span else 0
    @property
    def file(self): return self.span['file'] if self.span else ''
    @property
    def from_expansion(self): return bool(self.span and self.span.get('exp'))

    def arg_local(self, i):
        if i < len(self.args) and self.args[i]['k'] in ('copy', 'move'):
            return self.args[i]['pl']['l']
        return None

    def const_args(self):
        return [a['v'] for a in self.args if a['k'] == 'const']

    def is_(self, item=None, trait=None, self_ty=None, path_re=None):
        if item is not None and self.item != item: return False
        if trait is not None and not (self.trait or '').endswith(trait): return False
        if self_ty is not None and not re.search(self_ty, self.self_ty or ''): return False
        if path_re is not None and not re.search(path_re, self.name): return False
        return True

    def __repr__(self):
        return 'Call(bb%d %s)' % (self.bb, self.name[:80])


class Body:
    def __init__(self, d):
        self.d = d
        self.name = d['fn']; self.kind = d.get('kind', 'fn'); self.parent = d.get('parent', d['fn'])
        self.hdr = d.get('hdr') or {}
        self.argc = d['argc']; self.locals = d['locals']; self.blocks = d['blocks']
        self.span = d['span']
        self._calls = None; self._preds = None; self._dom = None; self._uses = None
        self._live = None

    # ---- identification
    @property
    def file(self): return self.span['file']
    @property
    def line(self): return self.span['lo']
    def site(self, bb=None):
        if bb is None: return '%s:%d' % (self.file, self.line)
        t = self.blocks[bb]['term']
        sp = t.get('span')
        if sp: return '%s:%d' % (sp['file'], sp['lo'])
        for st in self.blocks[bb]['st']:
            if 'line' in st: return '%s:%d' % (self.file, st['line'])
        return '%s:%d' % (self.file, self.line)

    # ---- CFG
    def succ(self, bi):
        t = self.blocks[bi]['term']; k = t['k']
        if k in ('goto', 'drop', 'assert'): return [t['t']]
        if k == 'call': return [t['t']] if t['t'] >= 0 else []
        if k == 'switch': return [x[1] for x in t['ts']] + [t['else']]
        return []

    @property
    def live(self):
        """blocks reachable from bb0 along non-cleanup edges"""
        if self._live is None:
            self._live = self.reach([0])
        return self._live

    def reach(self, start, stop=()):
        seen = set(); w = []
        for s in start:
            if s not in seen and s not in stop: seen.add(s); w.append(s)
        while w:
            x = w.pop()
            for s in self.succ(x):
                if s not in seen and s not in stop and not self.blocks[s]['cleanup']:
                    seen.add(s); w.append(s)
        return seen

    @property
    def preds(self):
        if self._preds is None:
            p = collections.defaultdict(set)
            for bi in self.live:
                for s in self.succ(bi):
                    if not self.blocks[s]['cleanup']: p[s].add(bi)
            self._preds = p
        return self._preds

    def back_reach(self, targets, stop=()):
        seen = set(targets); w = list(targets)
        P = self.preds
        while w:
            x = w.pop()
            for p in P.get(x, ()):
                if p not in seen and p not in stop:
                    seen.add(p); w.append(p)
        return seen

    @property
    def dom(self):
        if self._dom is None:
            nodes = sorted(self.live); P = self.preds
            allset = set(nodes)
            dom = {i: allset for i in nodes}; dom[0] = {0}
            changed = True
            # iterate in rough RPO (block index order is close enough)
            while changed:
                changed = False
                for i in nodes:
                    if i == 0: continue
                    ps = [dom[p] for p in P.get(i, ()) if p in dom]
                    new = (set.intersection(*ps) if ps else set()) | {i}
                    if new != dom[i]: dom[i] = new; changed = True
            self._dom = dom
        return self._dom

    def dominates(self, a, b):
        return b in self.dom and a in self.dom[b]

    def dominated_region(self, a):
        return {i for i in self.live if a in self.dom[i]}

    def edge_region(self, src, tgt):
        """blocks reachable from tgt that can only be entered through the edge src->tgt
        (= dominated by tgt when tgt's only predecessor is src; otherwise blocks reachable from tgt
        but not reachable from entry when that edge is cut)."""
        # cut the edge and see what remains reachable
        seen = {0}; w = [0]
        while w:
            x = w.pop()
            for s in self.succ(x):
                if x == src and s == tgt: continue
                if s not in seen and not self.blocks[s]['cleanup']:
                    seen.add(s); w.append(s)
        return self.reach([tgt]) - seen

    def back_edges(self):
        out = []
        for bi in self.live:
            for s in self.succ(bi):
                if s in self.dom.get(bi, ()): out.append((bi, s))
        return out

    def loops(self):
        """natural loops: header -> set(blocks)"""
        res = collections.defaultdict(set)
        for tail, head in self.back_edges():
            body = {head, tail}; w = [tail]
            while w:
                x = w.pop()
                if x == head: continue
                for p in self.preds.get(x, ()):
                    if p not in body: body.add(p); w.append(p)
            res[head] |= body
        return res

    # ---- statements / calls
    def stmts(self):
        for bi in sorted(self.live):
            for st in self.blocks[bi]['st']:
                if 'dst' in st: yield bi, st

    @property
    def calls(self):
        if self._calls is None:
            self._calls = [Call(bi, self.blocks[bi]['term']) for bi in sorted(self.live)
                           if self.blocks[bi]['term']['k'] == 'call']
        return self._calls

    def find_calls(self, **kw):
        return [c for c in self.calls if c.is_(**kw)]

    def closures_created(self):
        """(bb, stmt, closure def path)"""
        for bi, st in self.stmts():
            rv = st['rv']
            if rv['k'] == 'agg' and rv['adt'].startswith('closure:'):
                yield bi, st, rv['adt'][8:]

    def aggregates(self, adt_re):
        for bi, st in self.stmts():
            rv = st['rv']
            if rv['k'] == 'agg' and re.search(adt_re, rv['adt']):
                yield bi, st

    # ---- exits
    def is_panic_block(self, bi):
        t = self.blocks[bi]['term']
        if t['k'] == 'call' and t['t'] < 0: return True
        if t['k'] == 'unreachable': return True
        return False

    def return_blocks(self):
        return [bi for bi in self.live if self.blocks[bi]['term']['k'] == 'return']

    def ret_assignments(self):
        """(bb, kind, detail) for each assignment to _0 (whole), kind in ok/err/other"""
        out = []
        for bi in sorted(self.live):
            for st in self.blocks[bi]['st']:
                if 'dst' in st and st['dst']['l'] == 0 and st['dst']['p'] == []:
                    rv = st['rv']
                    if rv['k'] == 'agg' and rv['adt'].endswith('Result::Err'): out.append((bi, 'err', st))
                    elif rv['k'] == 'agg' and rv['adt'].endswith('Option::None'): out.append((bi, 'none', st))
                    elif rv['k'] == 'agg' and (rv['adt'].endswith('Result::Ok') or rv['adt'].endswith('Option::Some')): out.append((bi, 'ok', st))
                    else: out.append((bi, 'val', st))
            t = self.blocks[bi]['term']
            if t['k'] == 'call' and t['dst']['l'] == 0 and t['dst']['p'] == []:
                nm = t['r'] or t['f']
                if 'from_residual' in nm: out.append((bi, 'err', t))
                else: out.append((bi, 'callval', t))
        return out

    def err_exits(self):
        return {bi for bi, k, _ in self.ret_assignments() if k == 'err'}

    def ok_exits(self):
        return {bi for bi, k, _ in self.ret_assignments() if k in ('ok', 'val', 'callval', 'none')}

    def strict_ok_exits(self):
        return {bi for bi, k, _ in self.ret_assignments() if k in ('ok', 'val', 'callval')}

    def panic_blocks(self):
        return {bi for bi in self.live if self.is_panic_block(bi)}

    # ---- def/use
    @property
    def uses(self):
        """local -> list of (kind, bb, obj) where kind in stmt/call/switch ; obj = stmt dict / Call / term"""
        if self._uses is None:
            u = collections.defaultdict(list)
            callmap = {c.bb: c for c in self.calls}
            for bi in sorted(self.live):
                b = self.blocks[bi]
                for st in b['st']:
                    if 'rv' not in st: continue
                    rv = st['rv']; seen = set()
                    for o in rv.get('ops', []):
                        if o['k'] in ('copy', 'move'): seen.add(o['pl']['l'])
                        if o['k'] in ('copy', 'move'):
                            for p in o['pl']['p']:
                                if isinstance(p, dict) and 'ix' in p: seen.add(p['ix'])
                    if 'pl' in rv: seen.add(rv['pl']['l'])
                    for l in seen: u[l].append(('stmt', bi, st))
                t = b['term']
                if t['k'] == 'call':
                    seen = set()
                    for a in t['args']:
                        if a['k'] in ('copy', 'move'): seen.add(a['pl']['l'])
                    for l in seen: u[l].append(('call', bi, callmap[bi]))
                elif t['k'] == 'switch' and t['d']['k'] != 'const':
                    u[t['d']['pl']['l']].append(('switch', bi, t))
            self._uses = u
        return self._uses

    def defs_of(self, local):
        """statements / calls that assign to `local` (whole or projection)"""
        out = []
        for bi in sorted(self.live):
            for st in self.blocks[bi]['st']:
                if 'dst' in st and st['dst']['l'] == local: out.append(('stmt', bi, st))
            t = self.blocks[bi]['term']
            if t['k'] == 'call' and t['dst']['l'] == local: out.append(('call', bi, t))
        return out


def fields_of_place(pl):
    return [(p['of'], p['f']) for p in pl['p'] if isinstance(p, dict) and 'f' in p]


def place_str(pl):
    s = '_%d' % pl['l']
    for p in pl['p']:
        if p == '*': s = '(*%s)' % s
        elif isinstance(p, dict) and 'f' in p: s += '.' + p['f']
        elif isinstance(p, dict) and 'dc' in p: s += ' as ' + p['dc']
        elif isinstance(p, dict) and 'ix' in p: s += '[_%d]' % p['ix']
        else: s += '[%s]' % (p,)
    return s


def operand_str(a):
    if a['k'] == 'const': return 'const ' + a['v'][:60]
    if a['k'] == 'other': return '?'
    return a['k'][0] + ' ' + place_str(a['pl'])


class Facts:
    def __init__(self, path, parts=None):
        self.path = path
        self.header = None
        self.bodies = {}      # def path -> Body
        self.adts = {}        # path -> dict
        self.impls = []       # dicts
        self.consts = {}      # path -> (ty, val)
        self.norm_stats = None
        if parts is not None:
            self.header, body_dicts, self.adts, self.impls, self.consts = parts
            for d in body_dicts: self.bodies[d['fn']] = Body(d)
        else:
            with open(path) as fh:
                for l in fh:
                    d = json.loads(l)
                    if 'fn' in d:
                        nm = d['fn']; k = 1
                        while nm in self.bodies:
                            k += 1; nm = '%s#%d' % (d['fn'], k)
                        d['fn'] = nm; self.bodies[nm] = Body(d)
                    elif 'adt' in d: self.adts[d['adt']] = d
                    elif 'impl' in d: self.impls.append(d)
                    elif 'const' in d: self.consts[d['const']] = (d['ty'], d['val'])
                    elif 'header' in d: self.header = d
        for b in self.bodies.values(): b.facts = self
        self._by_hdr = collections.defaultdict(list)
        for b in self.bodies.values():
            if b.kind == 'fn':
                h = b.hdr
                self._by_hdr[(h.get('trait'), h.get('self'), h.get('item'))].append(b)
        self._closures = collections.defaultdict(list)
        for b in self.bodies.values():
            if b.kind == 'closure': self._closures[b.parent].append(b)

    def normalized(self, known_fns, loops=True):
        """the same program in normal form (sa.normalize): helpers unknown on the pinned tree inlined,
        iterator chains with closures rewritten as explicit loops"""
        from . import normalize
        dicts, stats = normalize.normalized_dicts(self, known_fns, loops)
        F2 = Facts(self.path, parts=(self.header, dicts, self.adts, self.impls, self.consts))
        gone = set(stats.pop('inlined_closures', []))
        F2.norm_stats = stats
        F2.raw = self
        F2.inlined_closures = gone
        # closures whose body now stands at the place of the adaptor call are no longer "closures of" the function
        for k in list(F2._closures):
            F2._closures[k] = [b for b in F2._closures[k] if b.name not in gone]
        return F2

    # ---- lookups keyed on the structured header, never on rendered strings
    def method(self, self_ty, item, trait=None, targs=None):
        """unique fn body for (trait?, self type, item). self_ty and trait are matched as suffixes
        on path segments ('v1::Instance', 'Evaluate')."""
        res = []
        for (tr, st, it), bs in self._by_hdr.items():
            if it != item: continue
            if st is None or not _ty_match(st, self_ty): continue
            if trait is None:
                if tr is not None: continue
            elif trait == '*': pass
            else:
                if tr is None or not _path_suffix(tr, trait): continue
            for b in bs:
                if targs is not None and [_norm_ty(x) for x in b.hdr.get('targs', [])] != [_norm_ty(x) for x in targs]: continue
                res.append(b)
        return res

    def one(self, self_ty, item, trait=None, targs=None):
        r = self.method(self_ty, item, trait, targs)
        return r[0] if len(r) == 1 else None

    def free_fn(self, path_suffix):
        r = [b for b in self.bodies.values() if b.kind == 'fn' and _path_suffix(b.name, path_suffix) and not b.hdr.get('self')]
        return r[0] if len(r) == 1 else None

    def closures_of(self, body):
        return self._closures.get(body.parent if body.kind != 'fn' else body.name, [])

    def body(self, name):
        return self.bodies.get(name)

    def adt(self, suffix):
        r = [a for n, a in self.adts.items() if _path_suffix(n, suffix)]
        return r[0] if len(r) == 1 else None

    def adt_fields(self, suffix, variant=None):
        a = self.adt(suffix)
        if a is None: return None
        v = a['variants'][0] if variant is None else [x for x in a['variants'] if x['name'] == variant][0]
        return [f['name'] for f in v['fields']]

    def promoted_value(self, fn_name, idx):
        return self.bodies.get('%s::promoted[%d]' % (fn_name, idx))


def _norm_ty(t):
    return re.sub(r"&'\w+ ", '&', t).replace(' ', '')

def _path_suffix(full, suffix):
    return full == suffix or full.endswith('::' + suffix)

def _ty_match(ty, want):
    """type match ignoring lifetimes; `want` may be a suffix of the path ('v1::Instance') with an
    optional leading & ."""
    t = _norm_ty(ty); w = _norm_ty(want)
    if t == w: return True
    if w.startswith('&') != t.startswith('&'): return False
    t2 = t.lstrip('&'); w2 = w.lstrip('&')
    return t2.endswith('::' + w2)
