"""./run selftest [Cxx ...] [--only name] [--shard i/n] — both-ways test of the checker (DESIGN.md §8).

Each mutant in /verif/mutants/Cxx.json is a textual replacement applied to a scratch copy of the
current /repo (never to /repo itself). M mutants must be reported by a rule whose id starts with
`expect`; R mutants (behaviour-preserving refactors) must not change the check's output.
The scratch copy and its build output are removed at the end."""
import os, sys, json, subprocess, shutil, tempfile, time, re

VERIF = os.path.abspath(os.path.join(os.path.dirname(__file__), '..', '..'))


def run_check(prop, repo, cache, tier='quick'):
    env = dict(os.environ); env['VERIF_REPO'] = repo; env['VERIF_CACHE'] = cache
    env['VERIF_EVIDENCE_DIR'] = os.path.join(cache, 'evidence'); env['VERIF_OUT_DIR'] = os.path.join(cache, 'out')
    r = subprocess.run([os.path.join(VERIF, 'run'), 'check', prop, '--tier', tier], cwd=VERIF, env=env,
                       stdout=subprocess.PIPE, stderr=subprocess.STDOUT, text=True)
    rules = re.findall(r'^\s+rule=(\S+) fn=(.*?) site=', r.stdout, re.M)
    known = re.findall(r'^KNOWN-FINDING: property=\S+ (.*)$', r.stdout, re.M)
    return r.returncode, rules, known, r.stdout


def main(argv):
    only = None; props = []; keep_evidence = True; shard = None
    i = 0
    while i < len(argv):
        if argv[i] == '--only': only = argv[i + 1]; i += 2
        elif argv[i] == '--shard': shard = tuple(int(x) for x in argv[i + 1].split('/')); i += 2      # every n-th mutant, for parallel runs
        else: props.append(argv[i]); i += 1
    mdir = os.path.join(VERIF, 'mutants')
    if not props:
        props = sorted(f[:-5] for f in os.listdir(mdir) if re.fullmatch(r'C\d+\.json', f))
    scratch = tempfile.mkdtemp(prefix='ommx-selftest-')
    repo = os.path.join(scratch, 'repo'); cache = os.path.join(scratch, 'cache')
    src_repo = os.environ.get('VERIF_REPO', '/repo')
    results = []
    # evidence / replay files of these runs go to the scratch directory
    try:
        subprocess.check_call(['rsync', '-a', '--exclude', '/target', '--exclude', '.git', src_repo + '/', repo + '/'])
        os.makedirs(cache)
        main_cache = os.environ.get('VERIF_CACHE') or os.path.join(os.environ.get('TMPDIR', '/tmp'), 'ommx-verif-cache')
        if os.path.isdir(os.path.join(main_cache, 'target')):
            subprocess.call(['cp', '-a', os.path.join(main_cache, 'target'), os.path.join(cache, 'target')])
        for prop in props:
            spec = json.load(open(os.path.join(mdir, prop + '.json')))
            code0, rules0, known0, out0 = run_check(prop, repo, cache)
            base = set(rules0)
            results.append(dict(prop=prop, name='(unchanged tree)', kind='B', ok=(code0 == 0), detail='exit %d, %d violations' % (code0, len(rules0))))
            print('%s baseline exit=%d violations=%d' % (prop, code0, len(rules0)), flush=True)
            for mi, m in enumerate(spec):
                if only and m['name'] != only: continue
                if shard and mi % shard[1] != shard[0]: continue
                path = os.path.join(repo, m['file'])
                orig = open(path).read()
                cnt = orig.count(m['old'])
                if cnt != m.get('count', 1):
                    results.append(dict(prop=prop, name=m['name'], kind=m['kind'], ok=False, detail='pattern occurs %d times (mutant is stale)' % cnt))
                    print('  %-50s STALE' % m['name'], flush=True); continue
                open(path, 'w').write(orig.replace(m['old'], m['new']))
                extra_saved = []
                for e in m.get('also', []):
                    p2 = os.path.join(repo, e['file']); o2 = open(p2).read()
                    extra_saved.append((p2, o2)); open(p2, 'w').write(o2.replace(e['old'], e['new']))
                try:
                    t0 = time.time()
                    code, rules, known, out = run_check(prop, repo, cache)
                    new = [r for r in rules if r not in base]
                    if code == 2:
                        ok = False; detail = 'checker failure / does not compile: ' + out[-300:].replace('\n', ' ')
                    elif m['kind'] == 'M':
                        hit = [r for r in new if r[0].startswith(m['expect'])]
                        ok = bool(hit)
                        detail = 'reported by %s' % sorted({r[0] for r in new}) if new else 'NOT REPORTED'
                        if new and not hit: detail = 'reported, but not by %s*: %s' % (m['expect'], sorted({r[0] for r in new}))
                    else:
                        ok = (not new) and code == code0
                        detail = 'silent' if ok else 'FALSE ALARM: %s' % sorted({r[0] for r in new})
                    results.append(dict(prop=prop, name=m['name'], kind=m['kind'], ok=ok, detail=detail, wall=round(time.time() - t0, 1)))
                    print('  %-50s %s %s' % (m['name'], 'ok ' if ok else 'FAIL', detail), flush=True)
                finally:
                    # undo in reverse order (an `also` entry may name the same file as the main replacement)
                    for p2, o2 in reversed(extra_saved): open(p2, 'w').write(o2)
                    open(path, 'w').write(orig)
    finally:
        shutil.rmtree(scratch, ignore_errors=True)
    os.makedirs(os.path.join(VERIF, 'selftest'), exist_ok=True)
    rp = os.environ.get('VERIF_SELFTEST_RESULTS') or os.path.join(VERIF, 'selftest', 'RESULTS.md')
    old = {}
    if os.path.exists(rp):
        for l in open(rp):
            mm = re.match(r'\| (C\d+) \| (.*?) \| (\w) \| (\w+) \| (.*) \|$', l.strip())
            if mm: old[(mm.group(1), mm.group(2))] = (mm.group(3), mm.group(4), mm.group(5))
    for r in results:
        old[(r['prop'], r['name'])] = (r['kind'], 'ok' if r['ok'] else 'FAIL', r['detail'])
    with open(rp, 'w') as fh:
        fh.write('# selftest results (M = mutant must be reported, R = refactor must stay silent, B = unchanged tree)\n\n')
        fh.write('| prop | name | kind | result | detail |\n|---|---|---|---|---|\n')
        for (p, n), (k, res, d) in sorted(old.items()):
            fh.write('| %s | %s | %s | %s | %s |\n' % (p, n, k, res, d))
    bad = [r for r in results if not r['ok']]
    print('%d/%d as expected' % (len(results) - len(bad), len(results)))
    return 1 if bad else 0
