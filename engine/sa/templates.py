"""Path / guard / error-flow helpers shared by the rule modules (DESIGN.md §2.3)."""
import re
from .facts import fields_of_place

TRY_BRANCH = re.compile(r'as std::ops::Try>::branch$')
FROM_RESIDUAL = re.compile(r'FromResidual')
NOT_CALL = re.compile(r'anyhow::__private::not|as std::ops::Not>::not')


# ------------------------------------------------------------------------------- value tracking
def copies_of(body, local, through_refs=True, through_deref=True):
    """locals that hold the same value as `local` via plain moves/copies (and refs to it)"""
    seen = {local}; work = [local]
    while work:
        l = work.pop()
        for kind, bi, x in body.uses.get(l, ()):
            if kind != 'stmt': continue
            rv = x['rv']; d = x['dst']
            if d['p']: continue
            if rv['k'] == 'use':
                o = rv['ops'][0]
                if o['k'] in ('copy', 'move') and o['pl']['l'] == l:
                    pr = o['pl']['p']
                    if pr == [] or (through_deref and pr == ['*']):
                        if d['l'] not in seen: seen.add(d['l']); work.append(d['l'])
            elif rv['k'] == 'ref' and through_refs and rv['pl']['l'] == l and rv['pl']['p'] in ([], ['*']):
                if d['l'] not in seen: seen.add(d['l']); work.append(d['l'])
    return seen


def bool_flow(body, local):
    """follow a bool local through copies / Not to switchInt terminators.
    returns list of (switch_bb, negated)"""
    out = []; work = [(local, False)]; seen = set()
    while work:
        l, neg = work.pop()
        if (l, neg) in seen: continue
        seen.add((l, neg))
        for kind, bi, x in body.uses.get(l, ()):
            if kind == 'switch': out.append((bi, neg))
            elif kind == 'stmt':
                rv = x['rv']
                if x['dst']['p']: continue
                if rv['k'] == 'use': work.append((x['dst']['l'], neg))
                elif rv['k'] == 'un' and rv['op'] == 'Not': work.append((x['dst']['l'], not neg))
            elif kind == 'call':
                if NOT_CALL.search(x.name): work.append((x.dst['l'], not neg))
    return out


def switch_sides(body, sb, neg=False):
    """(true_target, false_target) of a bool switch"""
    sw = body.blocks[sb]['term']
    f = [t for v, t in sw['ts'] if v == 0]
    ft = f[0] if f else None; tt = sw['else']
    if neg: ft, tt = tt, ft
    return tt, ft


def _cp_tracked(body):
    """bool locals that are assigned a literal constant somewhere (short-circuit `&&`/`||` results,
    `matches!` results, drop flags) plus locals computed from them by copy / Not"""
    t = getattr(body, '_cp_tracked', None)
    if t is not None: return t
    base = set()
    for bi, st in body.stmts():
        d = st['dst']
        if d['p'] or body.locals[d['l']] != 'bool': continue
        rv = st['rv']
        if rv['k'] == 'use' and rv['ops'][0]['k'] == 'const' and rv['ops'][0]['v'] in ('true', 'false'): base.add(d['l'])
    changed = True
    while changed:
        changed = False
        for bi, st in body.stmts():
            d = st['dst']; rv = st['rv']
            if d['p'] or d['l'] in base or body.locals[d['l']] != 'bool': continue
            if rv['k'] in ('use', 'un') and rv['ops'][0]['k'] in ('copy', 'move') and rv['ops'][0]['pl']['l'] in base and not rv['ops'][0]['pl']['p']:
                base.add(d['l']); changed = True
        for c in body.calls:
            if NOT_CALL.search(c.name) and c.arg_local(0) in base and c.dst['l'] not in base:
                base.add(c.dst['l']); changed = True
    body._cp_tracked = base
    return base


def reach_cp(body, starts, stop=()):
    """forward reachability with constant propagation of short-circuit bool locals: a switch on a
    local whose value is known on this path follows only the matching target."""
    tracked = _cp_tracked(body)
    if not tracked: return body.reach(starts, stop)
    seen = set(); out = set(); work = [(s, frozenset()) for s in starts if s not in stop]
    while work:
        bi, env = work.pop()
        if (bi, env) in seen: continue
        seen.add((bi, env)); out.add(bi)
        if len(seen) > 40000: return body.reach(starts, stop)     # give up: plain (over-approximate) reachability
        e = dict(env)
        blk = body.blocks[bi]
        for st in blk['st']:
            if 'dst' not in st: continue
            d = st['dst']
            if d['p'] or d['l'] not in tracked: continue
            rv = st['rv']; o = rv.get('ops', [None])[0] if rv.get('ops') else None
            if rv['k'] == 'use' and o['k'] == 'const' and o['v'] in ('true', 'false'): e[d['l']] = (o['v'] == 'true')
            elif rv['k'] == 'use' and o['k'] in ('copy', 'move') and not o['pl']['p'] and o['pl']['l'] in e: e[d['l']] = e[o['pl']['l']]
            elif rv['k'] == 'un' and rv['op'] == 'Not' and o['k'] in ('copy', 'move') and o['pl']['l'] in e: e[d['l']] = not e[o['pl']['l']]
            else: e.pop(d['l'], None)
        t = blk['term']
        succs = body.succ(bi)
        if t['k'] == 'call':
            dl = t['dst']['l']
            if dl in tracked:
                nm = t['r'] or t['f']; a0 = t['args'][0] if t['args'] else None
                if NOT_CALL.search(nm) and a0 and a0['k'] in ('copy', 'move') and a0['pl']['l'] in e: e[dl] = not e[a0['pl']['l']]
                else: e.pop(dl, None)
        elif t['k'] == 'switch' and t['d']['k'] != 'const' and not t['d']['pl']['p'] and t['d']['pl']['l'] in e:
            v = 1 if e[t['d']['pl']['l']] else 0
            m = {val: tg for val, tg in t['ts']}
            succs = [m.get(v, t['else'])]
        fe = frozenset(e.items())
        for s in succs:
            if s in stop or body.blocks[s]['cleanup']: continue
            work.append((s, fe))
    return out


class GuardInfo:
    def __init__(self, body, src_bb, sb, neg):
        self.body = body; self.src_bb = src_bb; self.switch_bb = sb
        self.true_bb, self.false_bb = switch_sides(body, sb, neg)
        oks = body.strict_ok_exits(); errs = body.err_exits()
        def side(t):
            if t is None: return dict(ok=False, err=False, blocks=set())
            r = reach_cp(body, [t])
            return dict(ok=bool(r & oks), err=bool(r & errs), blocks=r)
        self.true_side = side(self.true_bb); self.false_side = side(self.false_bb)

    @property
    def ok_if_true(self): return self.true_side['ok']
    @property
    def ok_if_false(self): return self.false_side['ok']
    @property
    def err_if_true(self): return self.true_side['err']
    @property
    def err_if_false(self): return self.false_side['err']

    def requires(self, polarity):
        """Ok-exits reachable only when predicate == polarity, other side reaches an Err-exit and no Ok-exit"""
        if polarity:
            return self.ok_if_true and not self.ok_if_false and self.err_if_false
        return self.ok_if_false and not self.ok_if_true and self.err_if_true

    def dominates_ok_exits(self):
        b = self.body
        return all(b.dominates(self.switch_bb, e) for e in b.strict_ok_exits())

    def describe(self):
        return 'switch bb%d: true->bb%s(ok=%s,err=%s) false->bb%s(ok=%s,err=%s)' % (
            self.switch_bb, self.true_bb, self.ok_if_true, self.err_if_true, self.false_bb, self.ok_if_false, self.err_if_false)


def guards_from_local(body, local, src_bb):
    return [GuardInfo(body, src_bb, sb, neg) for sb, neg in bool_flow(body, local)]


def guards_from_call(body, call):
    return guards_from_local(body, call.dst['l'], call.bb)


# ------------------------------------------------------------------------------- ? operator
def try_arms(body, local):
    """for a Result/Option local consumed by `?`: returns (continue_bb, break_bb, branch_call) or None"""
    for kind, bi, x in body.uses.get(local, ()):
        if kind == 'call' and TRY_BRANCH.search(x.name):
            d2 = x.dst['l']
            for k2, b2, y in body.uses.get(d2, ()):
                if k2 == 'stmt' and y['rv']['k'] == 'discr' and y['rv']['pl']['p'] == []:
                    for k3, b3, sw in body.uses.get(y['dst']['l'], ()):
                        if k3 == 'switch':
                            m = {v: t for v, t in sw['ts']}
                            return m.get(0, sw['else']), m.get(1, sw['else']), x
    return None


def try_value(body, local):
    """locals receiving the Continue payload of `local?`"""
    arms = try_arms(body, local)
    if not arms: return set()
    x = arms[2]; d2 = x.dst['l']; out = set()
    for kind, bi, st in body.uses.get(d2, ()):
        if kind == 'stmt' and st['rv']['k'] == 'use':
            o = st['rv']['ops'][0]
            if o['k'] in ('copy', 'move') and any(isinstance(p, dict) and p.get('dc') == 'Continue' for p in o['pl']['p']):
                out |= copies_of(body, st['dst']['l'], through_refs=False)
    return out


def option_arms(body, local, proj=None):
    """discriminant tests on an Option/Result/enum local: list of (switch_bb, {variant_index: target}, else_target)"""
    out = []
    for kind, bi, st in body.uses.get(local, ()):
        if kind == 'stmt' and st['rv']['k'] == 'discr':
            pl = st['rv']['pl']
            if proj is not None and [p for p in pl['p'] if p != '*'] != proj: continue
            for k3, b3, sw in body.uses.get(st['dst']['l'], ()):
                if k3 == 'switch':
                    out.append((b3, {v: t for v, t in sw['ts']}, sw['else']))
    return out


# ------------------------------------------------------------------------------- T-ERRFLOW
ERR_ADAPTORS = re.compile(r'anyhow::Context<.*>::(with_context|context)$|anyhow::Context<.*>::(with_context|context)::<|'
                          r'Option::<.*>::ok_or(_else)?(::<.*>)?$|Result::<.*>::map_err(::<.*>)?$|Option::<.*>::copied$|Option::<.*>::cloned$|Option::<.*>::map::<.*>$|Result::<.*>::map::<.*>$|Option::<.*>::as_ref$|Option::<.*>::as_mut$')
ERR_BAD = re.compile(r'::(unwrap_or|unwrap_or_default|unwrap_or_else|map_or|map_or_else|ok|unwrap|expect|is_some|is_none|is_ok|is_err|and_then|or_else|or|filter|unwrap_unchecked)(::<.*>)?$')


def errflow(body, local, depth=0, none_variant=0):
    """How is the Option/Result in `local` consumed?  Returns list of findings
       ('ok', how) | ('bad', how).  Allowed: adaptor -> ... -> `?`; discriminant switch whose
       None/Err side reaches no Ok-exit; direct return as the function's own error."""
    res = []
    if depth > 6: return [('bad', 'adaptor chain too deep')]
    if local == 0: return [('ok', 'returned')]
    oks = body.strict_ok_exits()
    uses = body.uses.get(local, ())
    if not uses: return [('bad', 'result unused (dropped)')]
    for kind, bi, x in uses:
        if kind == 'call':
            name = x.name
            if TRY_BRANCH.search(name):
                arms = try_arms(body, local)
                if arms:
                    brk = arms[1]
                    r = body.reach([brk])
                    if r & oks: res.append(('bad', 'Break arm of ? reaches an Ok-exit'))
                    else: res.append(('ok', '?'))
                else: res.append(('bad', 'Try::branch without switch'))
            elif ERR_ADAPTORS.search(name):
                sub = errflow(body, x.dst['l'], depth + 1, none_variant)
                res += [(k, '%s -> %s' % (x.item, h)) for k, h in sub]
            elif ERR_BAD.search(name):
                res.append(('bad', 'consumed by ' + x.item))
            else:
                res.append(('bad', 'passed to ' + name[:60]))
        elif kind == 'stmt':
            rv = x['rv']
            if rv['k'] == 'discr':
                for k3, b3, sw in body.uses.get(x['dst']['l'], ()):
                    if k3 != 'switch': continue
                    m = {v: t for v, t in sw['ts']}
                    tgt = m.get(none_variant, sw['else'])
                    r = body.reach([tgt])
                    if r & oks: res.append(('bad', 'None/Err side of match reaches an Ok-exit'))
                    else: res.append(('ok', 'match: None/Err side reaches only Err-exits'))
            elif rv['k'] == 'use' and x['dst']['p'] == []:
                o = rv['ops'][0]
                if o['k'] in ('copy', 'move') and o['pl']['l'] == local and o['pl']['p'] == []:
                    if x['dst']['l'] == 0: res.append(('ok', 'returned'))
                    else: res += errflow(body, x['dst']['l'], depth + 1, none_variant)
                # payload extraction (`as Some.0`) is dominated by a discriminant test: ignore
            elif rv['k'] == 'ref':
                res += errflow(body, x['dst']['l'], depth + 1, none_variant)
    if not res: res.append(('bad', 'no recognised consumer'))
    return res


# ------------------------------------------------------------------------------- loops
def loop_of_next(body, next_call):
    """for `x = Iterator::next(it)` + switch: returns (header_bb, some_bb, none_bb, loop_blocks) or None"""
    arms = option_arms(body, next_call.dst['l'])
    if not arms: return None
    sb, m, els = arms[0]
    some_bb = m.get(1, els); none_bb = m.get(0, els)
    loops = body.loops()
    best = None
    for h, blocks in loops.items():
        if next_call.bb in blocks and (best is None or len(blocks) < len(best[1])):
            best = (h, blocks)
    if best is None: return None
    return best[0], some_bb, none_bb, best[1]


def must_pass(body, start, targets, via, stop_ok=()):
    """True iff every path from `start` to any block in `targets` passes through a block in `via`
    (paths ending in Err-exits / panics never reach targets, so they are excepted automatically)."""
    seen = set(); w = [start]
    while w:
        x = w.pop()
        if x in seen: continue
        seen.add(x)
        if x in via: continue
        if x in targets: return False
        for s in body.succ(x):
            if not body.blocks[s]['cleanup']: w.append(s)
    return True


def for_loops(body, iter_src_pred=None):
    """all `for` style loops: (next_call, header, some_bb, none_bb, blocks)"""
    out = []
    for c in body.calls:
        if c.item == 'next' and (c.trait or '').endswith('Iterator'):
            lo = loop_of_next(body, c)
            if lo: out.append((c,) + lo)
    return out


# ------------------------------------------------------------------------------- T-ATOMIC
MUT_CALL = re.compile(r'(Vec|HashMap|HashSet|BTreeMap|BTreeSet|VecDeque|String)::<.*?>::(push|remove|swap_remove|insert|clear|retain|extend|append|truncate|pop|drain|entry|sort\w*|dedup\w*|resize|push_str)\b|'
                      r'Option::<.*?>::(take|insert|replace|get_or_insert\w*)\b|as std::iter::Extend<.*>>::extend|VacantEntry<.*>::insert|OccupiedEntry<.*>::(insert|remove)|std::mem::(swap|replace|take)')


def self_rooted_mut_locals(body, slicer, root=1):
    res = {root}
    for l, ty in enumerate(body.locals):
        if '&mut' in ty or 'IterMut' in ty or 'Entry<' in ty:
            s = slicer.backslice(body, [l], depth=0)
            if root in s.locals: res.add(l)
    return res


def mutation_sites(body, slicer, facts, root=1, setter_re=None):
    """(bb, description, kind, call_or_None) for every mutation of *self reachable state"""
    ml = self_rooted_mut_locals(body, slicer, root)
    sites = []
    for bi in sorted(body.live):
        blk = body.blocks[bi]
        for st in blk['st']:
            if 'dst' in st and st['dst']['p'] and st['dst']['l'] in ml and st['dst']['p'][0] == '*':
                sites.append((bi, 'assign ' + '.'.join(f for _, f in fields_of_place(st['dst'])), 'assign', None))
    for c in body.calls:
        recv = c.arg_local(0)
        if recv is None or recv not in ml: continue
        if '&mut' not in body.locals[recv] and 'Entry<' not in body.locals[recv]: continue
        if MUT_CALL.search(c.name):
            sites.append((c.bb, 'call ' + c.item, 'call', c))
        else:
            cb = facts.bodies.get(c.path)
            if cb is not None and cb.argc >= 1 and cb.locals[1].startswith('&mut'):
                sites.append((c.bb, 'localcall ' + c.item, 'localcall', c))
    return sites


def check_atomic(body, slicer, facts, atomic_callees=()):
    """returns list of (site_desc, bb, bad_err_exit_blocks).  A call to a local fn named in
    atomic_callees mutates only on the Continue arm of its `?`."""
    errs = body.err_exits(); out = []
    for bi, what, kind, call in mutation_sites(body, slicer, facts):
        start = [bi] if kind == 'assign' else ([call.target] if call.target >= 0 else [])
        if kind == 'assign':
            start = body.succ(bi)
            # statements after the assignment in the same block cannot be Err-exits by themselves
        if kind == 'localcall' and call.item in atomic_callees:
            arms = try_arms(body, call.dst['l'])
            if arms: start = [arms[0]]
        r = body.reach(start)
        bad = sorted(r & errs)
        out.append((what, bi, bad))
    return out


# ------------------------------------------------------------------------------- literals / tables
def str_eq_tests(body):
    """`x == "LIT"` tests: list of (literal, call, true_target, false_target)"""
    out = []
    for c in body.calls:
        if 'PartialEq' in (c.trait or '') and c.item in ('eq', 'ne') and (re.search(r'\bstr\b|String', c.name) or any(re.fullmatch(r"&?('\w+ )?(str|std::string::String)", g) for g in c.gargs)):
            lits = []
            for a in c.args:
                if a['k'] == 'const' and a['v'].startswith('"'): lits.append(a['v'])
                elif a['k'] in ('copy', 'move'):
                    e = strip_wrappers(expr(body, a, depth=6))
                    if e[0] == 'const' and e[1].startswith('"'): lits.append(e[1])
            if not lits: continue
            for g in guards_from_call(body, c):
                t, f = g.true_bb, g.false_bb
                if c.item == 'ne': t, f = f, t
                out.append((_unq(lits[0]), c, t, f))
    return out


def _unq(v):
    v = v.strip()
    if v.startswith('const '): v = v[6:]
    if len(v) >= 2 and v[0] == '"' and v[-1] == '"': v = v[1:-1]
    return v


def decode_fmt_pieces(const_text):
    """literal pieces of a `format_args!` template as exported by the driver.
    `Arguments::new::<N,M>(const b"\\x02  \\xc0...")`: length-prefixed literal pieces, 0xc0 = placeholder.
    `Arguments::from_str(const "..")`: one literal piece."""
    v = const_text.strip()
    if v.startswith('const '): v = v[6:]
    if v.startswith('b"') and v.endswith('"'):
        raw = _unescape_bytes(v[2:-1])
        pieces = []; i = 0
        while i < len(raw):
            n = raw[i]
            if n == 0xc0 or n >= 0x80:
                i += 1
                # placeholder (optionally followed by format spec bytes until next length byte); keep simple
                continue
            if n == 0: i += 1; continue
            pieces.append(raw[i + 1:i + 1 + n].decode('utf-8', 'replace')); i += 1 + n
        return pieces
    if v.startswith('"') and v.endswith('"'):
        return [bytes(_unescape_bytes(v[1:-1])).decode('utf-8', 'replace')]
    return []


def _unescape_bytes(s):
    out = bytearray(); i = 0
    while i < len(s):
        ch = s[i]
        if ch == '\\' and i + 1 < len(s):
            n = s[i + 1]
            if n == 'x': out.append(int(s[i + 2:i + 4], 16)); i += 4
            elif n == 'n': out.append(10); i += 2
            elif n == 't': out.append(9); i += 2
            elif n == 'r': out.append(13); i += 2
            elif n == '0': out.append(0); i += 2
            elif n == 'u':
                j = s.index('}', i); out += chr(int(s[i + 3:j], 16)).encode(); i = j + 1
            else: out += n.encode(); i += 2
        else:
            out += ch.encode(); i += 1
    return out


def f64_const(v):
    """parse driver's `const 9.9999999999999995E-7f64` / NEG_INFINITY / INFINITY rendering"""
    v = v.strip()
    if v.startswith('const '): v = v[6:]
    if 'NEG_INFINITY' in v: return float('-inf')
    if 'INFINITY' in v: return float('inf')
    if 'EPSILON' in v: return 2.220446049250313e-16
    m = re.match(r'^(-?[0-9.]+(?:E-?[0-9]+)?)f64$', v)
    if m: return float(m.group(1))
    m = re.match(r'^(-?[0-9]+)_?[iu](8|16|32|64|128|size)$', v)
    if m: return float(m.group(1))
    return None


TRANSPARENT = re.compile(r'::(as_ref|as_mut|as_deref|deref|deref_mut|branch|with_context|context|ok_or|ok_or_else|unwrap|expect|clone|cloned|copied|into_owned|borrow|as_slice|into|from)(::<.*>)?$')


TRANSPARENT_NOCLONE = re.compile(r'::(as_ref|as_mut|as_deref|deref|deref_mut|branch|with_context|context|ok_or|ok_or_else|unwrap|expect|borrow|as_slice)(::<.*>)?$')


def access_path(body, operand, depth=12, transparent=None):
    """fields crossed when following the unique-definition chain of an operand backwards through
    plain copies, references and transparent adaptors (`as_ref`, `?`, `deref`, `with_context`, ...).
    Flow-sensitive in the sense that only single-definition locals are followed.  Returns
    (fields list outermost-last, root local or None, calls crossed)."""
    fields = []; calls = []
    if operand['k'] not in ('copy', 'move'): return fields, None, calls
    pl = operand['pl']
    for _ in range(depth):
        fields = fields_of_place(pl) + fields
        l = pl['l']
        if 1 <= l <= body.argc: return fields, l, calls
        defs = body.defs_of(l)
        defs = [d for d in defs if not (d[0] == 'stmt' and d[2]['dst']['p'])]
        if len(defs) != 1: return fields, l, calls
        k, bi, d = defs[0]
        if k == 'stmt':
            rv = d['rv']
            if rv['k'] == 'use' and rv['ops'][0]['k'] in ('copy', 'move'): pl = rv['ops'][0]['pl']; continue
            if rv['k'] == 'ref': pl = rv['pl']; continue
            return fields, l, calls
        else:
            nm = d['r'] or d['f']
            if (transparent or TRANSPARENT).search(strip_generics_tail(nm)) and d['args'] and d['args'][0]['k'] in ('copy', 'move'):
                calls.append(nm); pl = d['args'][0]['pl']; continue
            calls.append(nm)
            return fields, l, calls
    return fields, None, calls


def strip_generics_tail(nm):
    # drop a trailing ::<...> turbofish so the item name is last
    if nm.endswith('>') and '::<' in nm:
        depth = 0
        for i in range(len(nm) - 1, -1, -1):
            if nm[i] == '>' and (i == 0 or nm[i - 1] != '-'): depth += 1
            elif nm[i] == '<':
                depth -= 1
                if depth == 0:
                    if nm[i - 2:i] == '::': return nm[:i - 2]
                    return nm
    return nm


# ------------------------------------------------------------------------------- local expression trees
def _mut_borrowed(body):
    mb = getattr(body, '_mut_borrowed', None)
    if mb is None:
        mb = set()
        for bi, st in body.stmts():
            rv = st['rv']
            if rv['k'] in ('ref', 'rawptr') and (rv.get('mut') or rv['k'] == 'rawptr') and not rv['pl']['p']: mb.add(rv['pl']['l'])
        body._mut_borrowed = mb
    return mb


def expr(body, operand, depth=18):
    """Reconstruct the expression computing `operand` by following single-definition locals
    (SSA-like temporaries).  Nodes:
       ('const', text) | ('place', root_local, [(adt, field)...]) | ('bin', op, a, b) | ('un', op, a)
       | ('cast', to, a) | ('call', item, name, [args]) | ('agg', adt, [ops]) | ('local', l)"""
    if operand['k'] == 'const':
        v = operand['v']
        m = re.search(r'::promoted\[(\d+)\]$', v)
        F = getattr(body, 'facts', None)
        if m and F is not None:
            pb = F.bodies.get(v) or F.bodies.get('%s::promoted[%s]' % (body.name, m.group(1)))
            if pb is not None and depth > 0:
                return expr(pb, {'k': 'copy', 'pl': {'l': 0, 'p': []}}, depth - 1)
        return ('const', v)
    if operand['k'] not in ('copy', 'move'): return ('local', -1)
    pl = operand['pl']
    fs = fields_of_place(pl)
    l = pl['l']
    if depth <= 0: return ('place', l, fs) if fs else ('local', l)
    if 1 <= l <= body.argc: return ('place', l, fs)
    defs = [d for d in body.defs_of(l) if not (d[0] == 'stmt' and d[2]['dst']['p'])]
    if len(defs) != 1 or (l in _mut_borrowed(body) and body.locals[l] in ('f64', 'u64', 'i64', 'usize', 'bool', 'i32', 'u32')):
        return ('place', l, fs) if fs else ('local', l)
    k, bi, d = defs[0]
    if k == 'call':
        c = None
        for x in body.calls:
            if x.bb == bi: c = x; break
        node = ('call', c.item, c.name, [expr(body, a, depth - 1) for a in d['args']], bi)
        return ('proj', node, fs) if fs else node
    rv = d['rv']; kk = rv['k']
    if kk == 'use':
        inner = expr(body, rv['ops'][0], depth - 1)
    elif kk == 'ref':
        inner = expr(body, {'k': 'copy', 'pl': rv['pl']}, depth - 1)
    elif kk == 'bin':
        inner = ('bin', rv['op'], expr(body, rv['ops'][0], depth - 1), expr(body, rv['ops'][1], depth - 1))
    elif kk == 'un':
        inner = ('un', rv['op'], expr(body, rv['ops'][0], depth - 1))
    elif kk == 'cast':
        inner = ('cast', rv['to'], expr(body, rv['ops'][0], depth - 1))
    elif kk == 'agg':
        inner = ('agg', rv['adt'], [expr(body, o, depth - 1) for o in rv['ops']])
    elif kk == 'discr':
        inner = ('discr', expr(body, {'k': 'copy', 'pl': rv['pl']}, depth - 1))
    else:
        inner = ('local', l)
    if fs:
        # projection of a freshly built tuple selects the operand
        while fs and inner[0] == 'agg' and inner[1] == 'tuple' and fs[0][0] == 'tuple' and fs[0][1].isdigit() and int(fs[0][1]) < len(inner[2]):
            inner = inner[2][int(fs[0][1])]; fs = fs[1:]
        if not fs: return inner
        if inner[0] == 'place': return ('place', inner[1], inner[2] + fs)
        if inner[0] == 'proj': return ('proj', inner[1], inner[2] + fs)
        return ('proj', inner, fs)
    return inner


def expr_walk(e):
    yield e
    if not isinstance(e, tuple): return
    for x in e[1:]:
        if isinstance(x, tuple) and x and isinstance(x[0], str):
            yield from expr_walk(x)
        elif isinstance(x, list):
            for y in x:
                if isinstance(y, tuple) and y and isinstance(y[0], str): yield from expr_walk(y)


def expr_calls(e):
    return [x for x in expr_walk(e) if x[0] == 'call']


def expr_has_call(e, item=None, name_re=None):
    for x in expr_calls(e):
        if item is not None and x[1] != item: continue
        if name_re is not None and not re.search(name_re, x[2]): continue
        return True
    return False


def expr_fields(e):
    out = []
    for x in expr_walk(e):
        if x[0] == 'place': out += x[2]
        elif x[0] == 'proj': out += x[2]
    return out


WRAPPER_OWNER = re.compile(r'(ControlFlow::Continue|Option::Some|Result::Ok)$')


def strip_wrappers(e):
    """peel transparent wrappers: casts between same-kind types are kept; ?-payload projections, refs and
    transparent calls (clone/into/from/deref/branch/...) are removed"""
    while True:
        if e[0] == 'proj' and all(WRAPPER_OWNER.search(a) for a, f in e[2]): e = e[1]; continue
        if e[0] == 'call' and TRANSPARENT.search(strip_generics_tail(e[2])) and e[3]: e = e[3][0]; continue
        return e


def expr_str(e, depth=6):
    if depth <= 0: return '…'
    k = e[0]
    if k == 'const': return e[1][:30]
    if k == 'place': return '_%d%s' % (e[1], ''.join('.' + f for a, f in e[2]))
    if k == 'local': return '_%d' % e[1]
    if k == 'bin': return '(%s %s %s)' % (expr_str(e[2], depth - 1), e[1], expr_str(e[3], depth - 1))
    if k == 'un': return '%s(%s)' % (e[1], expr_str(e[2], depth - 1))
    if k == 'cast': return '(%s as %s)' % (expr_str(e[2], depth - 1), e[1])
    if k == 'call': return '%s(%s)' % (e[1], ', '.join(expr_str(a, depth - 1) for a in e[3]))
    if k == 'agg': return '%s{%s}' % (e[1].split('::')[-1], ', '.join(expr_str(a, depth - 1) for a in e[2]))
    if k == 'proj': return '%s%s' % (expr_str(e[1], depth - 1), ''.join('.' + f for a, f in e[2]))
    if k == 'discr': return 'discr(%s)' % expr_str(e[1], depth - 1)
    return str(e)[:40]


# ------------------------------------------------------------------------------- f64 arithmetic views
ARITH_CALL = re.compile(r'^<&?(f64|&f64) as std::ops::(Add|Sub|Mul|Div|Neg|Rem)(<&?f64>)?>::(add|sub|mul|div|neg|rem)$')
ASSIGN_CALL = re.compile(r'^<f64 as std::ops::(Add|Sub|Mul|Div)Assign(<&?f64>)?>::(add|sub|mul|div)_assign$')


def arith(e):
    """normalise an expr tree: ops-trait calls on f64 become ('bin', Op, a, b) / ('un','Neg',a); wrappers stripped"""
    e = strip_wrappers(e)
    k = e[0]
    if k == 'call':
        m = ARITH_CALL.match(e[2])
        if m:
            op = m.group(2)
            if op == 'Neg': return ('un', 'Neg', arith(e[3][0]))
            return ('bin', op, arith(e[3][0]), arith(e[3][1]))
        return e
    if k == 'bin': return ('bin', e[1].replace('WithOverflow', ''), arith(e[2]), arith(e[3]))
    if k == 'un': return ('un', e[1], arith(e[2]))
    if k == 'cast': return ('cast', e[1], arith(e[2]))
    return e


def flatten(e, op):
    e = arith(e)
    if e[0] == 'bin' and e[1] == op:
        return flatten(e[2], op) + flatten(e[3], op)
    return [e]


def accumulator(body, local):
    """definitions of an f64 accumulator local: init expressions and (op, operand expr) updates"""
    init = []; updates = []
    for k, bi, d in body.defs_of(local):
        if k == 'stmt':
            if d['dst']['p']: continue
            rv = d['rv']
            if rv['k'] == 'bin' and rv.get('ty') == 'f64':
                a, b = rv['ops']
                def is_self(o):
                    if o['k'] not in ('copy', 'move') or o['pl']['p']: return False
                    l2 = o['pl']['l']
                    for _ in range(3):
                        if l2 == local: return True
                        ds = body.defs_of(l2)
                        if len(ds) == 1 and ds[0][0] == 'stmt' and ds[0][2]['rv']['k'] == 'use' and ds[0][2]['rv']['ops'][0]['k'] in ('copy', 'move') and not ds[0][2]['rv']['ops'][0]['pl']['p']:
                            l2 = ds[0][2]['rv']['ops'][0]['pl']['l']
                        else: return False
                    return l2 == local
                if is_self(a): updates.append((rv['op'], 'L', expr(body, b), bi)); continue
                if is_self(b): updates.append((rv['op'], 'R', expr(body, a), bi)); continue
            init.append((expr(body, {'k': 'copy', 'pl': {'l': -1, 'p': []}}) if False else _rv_expr(body, rv), bi))
        else:
            init.append((('call', d.get('ri', {}).get('item', '?'), d['r'] or d['f'], [expr(body, a) for a in d['args']]), bi))
    # op-assign calls through &mut local
    refs = set()
    for bi, st in body.stmts():
        rv = st['rv']
        if rv['k'] == 'ref' and rv.get('mut') and rv['pl'] == {'l': local, 'p': []} and not st['dst']['p']: refs.add(st['dst']['l'])
    for c in body.calls:
        m = ASSIGN_CALL.match(c.name)
        if m and c.arg_local(0) in refs:
            updates.append((m.group(1), 'L', expr(body, c.args[1]), c.bb))
    return init, updates


def _rv_expr(body, rv):
    k = rv['k']
    if k == 'use': return expr(body, rv['ops'][0])
    if k == 'bin': return ('bin', rv['op'], expr(body, rv['ops'][0]), expr(body, rv['ops'][1]))
    if k == 'un': return ('un', rv['op'], expr(body, rv['ops'][0]))
    if k == 'cast': return ('cast', rv['to'], expr(body, rv['ops'][0]))
    if k == 'ref': return expr(body, {'k': 'copy', 'pl': rv['pl']})
    if k == 'agg': return ('agg', rv['adt'], [expr(body, o) for o in rv['ops']])
    return ('local', -1)


def own_fields(e):
    """the projection fields applied last (outermost) to an expression"""
    return list(e[2]) if e[0] in ('proj', 'place') else []
